"""C05 — discipline caches are transparent.

Correspondence: random call histories (execute / linearize with repeated, new, partially defaulted,
in-place modified inputs; kept-and-passed-back output arrays; cache reopened / cleared) are run on a
real `Discipline` (harness/c05_disc.py) with every cache variant and compared, after every
operation, with the Lean model (Driver/C05.lean): returned data, run/linearize counters,
`len(cache)` and `get_all_entries()`.

Oracle (independent of the model): the same history on an uncached twin discipline (t = 0), the
exact closed form of the body over `Fraction` with a witness among the previously executed inputs
(every t), run counters (full caches, t = 0), entries identical after a reopen.
"""

from __future__ import annotations

import contextlib
import copy
import json
import math
import os
import shutil
import tempfile
from fractions import Fraction
from typing import Any

import numpy as np

from harness import common
from harness.common import F
from harness.common import Result
from harness.common import rat
from harness.common import rats

PID = "C05"

TRUSTED_EXTRA = (
    "C05: the hash of the input data is a parameter of the model (the theorems hold for every hash function); "
    "the harness passes a token of the hash class on each protocol line (coarse mode: gemseo's hash_data is "
    "replaced by a many-collision function to exercise the collision branches)",
    "C05: h5py stores/returns datasets faithfully; a multiprocessing manager dict pickles (copies) what it stores",
    "C05: Jacobian arrays are modelled by value (mutation of *returned Jacobian* arrays by the caller is outside "
    "the property's quantifier and only probed)",
)

KINDS = ("none", "simple", "mem", "shm", "hdf")
FULL = ("mem", "shm", "hdf")

# --------------------------------------------------------------------------- exact body


def fr(t) -> Fraction:
    return Fraction(t)


def poly_run(cfg, x: list[list[Fraction]]) -> dict[str, list[Fraction]]:
    """Closed form of the body over Fraction (written from the definition, not from c05_disc)."""
    xx = [c for v in x for c in v]
    s2 = sum(c * c for c in xx)
    out = {}
    for name, size in cfg["outputs"]:
        rows = cfg["A"][name]
        out[name] = [
            sum(Fraction(rows[i][j]) * xx[j] for j in range(len(xx))) + Fraction(cfg["b"][name][i]) + Fraction(cfg["q"][name][i]) * s2
            for i in range(size)
        ]
    return out


def poly_jac(cfg, x: list[list[Fraction]]) -> dict[tuple[str, str], list[list[Fraction]]]:
    xx = [c for v in x for c in v]
    jac = {}
    for name, size in cfg["outputs"]:
        rows = cfg["A"][name]
        k = 0
        for (iname, _isize, _d), v in zip(cfg["inputs"], x):
            isize = len(v)
            jac[(name, iname)] = [
                [Fraction(rows[i][k + j]) + 2 * Fraction(cfg["q"][name][i]) * xx[k + j] for j in range(isize)]
                for i in range(size)
            ]
            k += isize
    return jac


def le_norm(d2: Fraction, s2: Fraction, t: Fraction) -> bool:
    """sqrt(d2) <= t * (1 + sqrt(s2)) decided exactly (d2, s2 >= 0, t >= 0)."""
    if t == 0:
        return d2 == 0
    if d2 <= t * t:
        return True
    # sqrt(d2) - t > 0 ; compare (sqrt(d2) - t)^2 with t^2 s2  <=>  d2 + t^2 - t^2 s2 <= 2 t sqrt(d2)
    a = d2 + t * t - t * t * s2
    if a <= 0:
        return True
    return a * a <= 4 * t * t * d2


def within(x, w, t: Fraction) -> bool:
    """Is `w` (a previously seen input) within the relative tolerance t of `x`, for every input name?

    The reference norm is the larger of the two (the documentation names the cached array, the code
    uses the new one: the oracle accepts both readings).
    """
    if len(x) != len(w):
        return False
    for a, b in zip(x, w):
        if len(a) != len(b):
            return False
        d2 = sum((p - q) ** 2 for p, q in zip(a, b))
        s2 = max(sum(p * p for p in a), sum(q * q for q in b))
        if not le_norm(d2, s2, t):
            return False
    return True


# --------------------------------------------------------------------------- case generation

IN_NAMES = ("a", "b", "c")
OUT_NAMES = ("y", "z")


INPLACE_STYLES = ("coupled-same", "coupled-same", "coupled-copy", "plain", "plain", "alias-only", "mixed")


def is_inplace(cfg) -> bool:
    """The body has side effects on its input arrays (in-place update, input array returned as output)."""
    return bool(cfg.get("wr") or cfg.get("alias"))


def gen_cfg(rng: common.Rng, kind: str | None = None, inplace: str | None = None) -> dict[str, Any]:
    kind = kind or rng.pick(["none", "simple", "simple", "simple", "mem", "mem", "mem", "shm", "shm", "hdf", "hdf", "hdf"])
    tol = rng.pick(["0", "0", "0", "0", "1/1024", "1/8", "1/8", "1/8"])
    n_in = rng.pick([1, 1, 2, 2, 3])
    # "default-rich" configurations: several inputs, every one with a default value (so that a call may
    # leave all of them, some of them or none of them to the defaults)
    rich = rng.chance(0.25)
    if rich:
        n_in = rng.pick([2, 2, 3])
    inputs = []
    for n in IN_NAMES[:n_in]:
        size = rng.pick([1, 1, 2])
        dflt = [rat(rng.pick([0, 1, 2, -1, Fraction(1, 2)])) for _ in range(size)] if rich or rng.chance(0.6) else None
        inputs.append([n, size, dflt])
    outputs = [[n, rng.pick([1, 1, 2])] for n in OUT_NAMES[: rng.pick([1, 1, 2])]]
    if rng.chance(0.35):
        size = rng.pick([1, 2])
        inputs.append(["s", size, [rat(rng.pick([0, 1])) for _ in range(size)] if rng.chance(0.6) else None])
        outputs.append(["s", size])
    if inplace is None and rng.chance(0.3):
        inplace = rng.pick(INPLACE_STYLES)
    if inplace in ("coupled-same", "coupled-copy", "mixed") and not any(i[0] == "s" for i in inputs):
        size = rng.pick([1, 2])
        inputs.append(["s", size, None])
        outputs.append(["s", size])
    if inplace == "alias-only" and not [o for o in outputs[1:] if o[0] != "s"]:
        outputs.insert(1, ["z", 1])
    n_x = sum(i[1] for i in inputs)
    A, b, q = {}, {}, {}
    for name, size in outputs:
        A[name] = [[rng.randint(-2, 2) for _ in range(n_x)] for _ in range(size)]
        b[name] = [rng.randint(-2, 2) for _ in range(size)]
        q[name] = [rng.pick([0, 0, 1, -1]) for _ in range(size)]
    # make the first output depend on every input component so that a wrong hit is visible
    for j in range(n_x):
        if A[outputs[0][0]][0][j] == 0:
            A[outputs[0][0]][0][j] = rng.pick([1, -1, 2])
    if not inplace and rng.chance(0.12):
        # a "copy" body (first output = first input): every input is a fixed point, so that an output
        # array passed back as input hits the entry it comes from
        o0, i0 = outputs[0], inputs[0]
        o0[1] = i0[1]
        A[o0[0]] = [[1 if j == i else 0 for j in range(n_x)] for i in range(i0[1])]
        b[o0[0]] = [0] * i0[1]
        q[o0[0]] = [0] * i0[1]
    sym = False
    if not inplace and rng.chance(0.2) and not any(i[0] == "s" for i in inputs):
        # a "symmetric" body (constant rows of A): it accepts input arrays shorter than declared, so the
        # same input name is called with arrays of different sizes
        sym = True
        for name, size in outputs:
            A[name] = [[rng.pick([1, 2, -1])] * n_x for _ in range(size)]
    in_names = [i[0] for i in inputs]
    out_names = [o[0] for o in outputs]
    style = rng.random()
    if style < 0.6:
        din, dout = in_names, out_names
    elif style < 0.92:
        din = [n for n in in_names if rng.chance(0.6)] or [in_names[0]]
        dout = [n for n in out_names if rng.chance(0.6)] or [out_names[0]]
    else:
        din, dout = ([], out_names) if rng.chance(0.5) else (in_names, [])
    sparse = [[o, i, rng.pick(["csr", "csr", "csc", "coo"])] for o in out_names for i in in_names if rng.chance(0.25)]
    wr: dict[str, list[str]] = {}
    alias: dict[str, list[str]] = {}
    if inplace:
        # a body with side effects on its input arrays (see harness/c05_disc.py); the inputs concerned have
        # no default value (a body that modified the default arrays of the discipline would have a state)
        def written(name: str) -> None:
            wr[name] = [rat(rng.pick([Fraction(1), Fraction(1), Fraction(-1), Fraction(2), Fraction(1, 2)])),
                        rng.pick(["iadd", "iadd", "slice", "ufunc-out"])]

        def returned(out: list, name: str) -> None:
            # the output is the (updated) array of the input: its polynomial is x_name + k
            size = next(i[1] for i in inputs if i[0] == name)
            off = 0
            for i in inputs:
                if i[0] == name:
                    break
                off += i[1]
            out[1] = size
            k = Fraction(wr[name][0]) if name in wr else Fraction(0)
            A[out[0]] = [[1 if j == off + r else 0 for j in range(n_x)] for r in range(size)]
            b[out[0]] = [rat(k)] * size
            q[out[0]] = [0] * size
            alias[out[0]] = [name, rng.pick(["same", "same", "view"])]

        plain = [n for n in in_names if n != "s"]
        s_out = next((o for o in outputs if o[0] == "s"), None)
        if inplace in ("coupled-same", "coupled-copy", "mixed"):
            written("s")
        if inplace in ("plain", "mixed"):
            written(rng.pick(plain))
        if inplace == "coupled-same" or (inplace == "mixed" and rng.chance(0.5)):
            returned(s_out, "s")
        if inplace == "alias-only" or (inplace in ("plain", "mixed") and rng.chance(0.3)):
            cands = [o for o in outputs[1:] if o[0] != "s" and o[0] not in alias]
            if cands:
                returned(rng.pick(cands), rng.pick(plain))
        for i in inputs:
            if i[0] in wr or any(a[0] == i[0] for a in alias.values()):
                i[2] = None
    # the order in which the default values are defined (a mapping: the order has no meaning); half of the
    # time another order than the one of the input names of the grammar
    dorder = [i[0] for i in inputs if i[2] is not None]
    if len(dorder) > 1 and rng.chance(0.6):
        first = list(dorder)
        while dorder == first:
            dorder = rng.sample(first, len(first))
    return {
        "dorder": dorder,
        "wr": wr,
        "alias": alias,
        "kind": kind,
        "tol": tol,
        "inputs": inputs,
        "outputs": outputs,
        "din": din,
        "dout": dout,
        "sj": rng.chance(0.15),
        "A": A,
        "b": b,
        "q": q,
        "sparse": sparse,
        "hash": "coarse" if kind in FULL and rng.chance(0.5 if sym else 0.3) else "real",
        "sym": sym,
    }


def gen_ops(rng: common.Rng, cfg: dict[str, Any], n_ops: int, in_scope: bool = True, id_base: int = 1) -> list[list[Any]]:
    """Random history. The generator tracks what it needs to stay inside the property's quantifier.

    Biases (all inside the quantifier): calls are often repeated with the same arrays (hits, also after
    an in-place modification), or with fresh arrays holding the same values; values come from small
    clusters whose members are 0, 1, 2 tolerances apart; returned output arrays are often kept, passed
    back as inputs and then modified in place; modifications prefer arrays that were passed in.
    """
    sizes = {i[0]: i[1] for i in cfg["inputs"]}
    has_default = {i[0]: i[2] is not None for i in cfg["inputs"]}
    defaults = {i[0]: ([fr(t) for t in i[2]] if i[2] is not None else None) for i in cfg["inputs"]}
    out_sizes = {o[0]: o[1] for o in cfg["outputs"]}
    tol = fr(cfg["tol"])
    base = [Fraction(k, 2) for k in range(-2, 5)]
    step = tol if tol > 0 else Fraction(1, 8)
    pool: dict[int, list[list[Fraction]]] = {}
    for size in (1, 2):
        centers = [[rng.pick(base) for _ in range(size)] for _ in range(2)]
        pool[size] = []
        for c in centers:
            k = rng.randrange(size)
            for m in (0, 1, -1, 2, Fraction(3, 2)):
                v = list(c)
                v[k] += m * step
                pool[size].append(v)

    sym = bool(cfg.get("sym"))
    inpl = is_inplace(cfg)
    wr_k = {n: Fraction(k) for n, (k, _syn) in (cfg.get("wr") or {}).items()}

    def value(size: int) -> list[Fraction]:
        if sym and size > 1 and rng.chance(0.4):
            size = rng.randint(1, size - 1)  # a shorter array for the same input name
        v = list(rng.pick(pool[size]))
        if rng.chance(0.1):
            v[rng.randrange(size)] += rng.pick([Fraction(1, 1024), Fraction(-1, 8), 1])
        return v

    def fits(have: int, want: int) -> bool:
        return have == want or (sym and have <= want)

    ops: list[list[Any]] = []
    vals: dict[int, list[Fraction] | None] = {}  # id -> known value (None: a kept output array)
    size_of: dict[int, int] = {}
    kept: set[int] = set()
    passed: set[int] = set()
    calls: list[tuple[dict[str, int], list[list[Fraction]] | None]] = []
    next_id = [id_base]
    last_exec_vals: list[list[Fraction]] | None = None  # value of the inputs of the last execution, if known
    last_was_exec = False

    def new_array(v) -> int:
        i = next_id[0]
        next_id[0] += 1
        ops.append(["new", i, [rat(c) for c in v]])
        vals[i] = list(v)
        size_of[i] = len(v)
        return i

    def current_vals(args) -> list[list[Fraction]] | None:
        out = []
        for name in sizes:
            v = vals[args[name]] if name in args else defaults[name]
            if v is None:
                return None
            out.append(v)
        return out

    while len(ops) < n_ops:
        r = rng.random()
        if last_was_exec and rng.chance(0.3):
            r = 0.85  # keep an output of the execution that just returned
        if r < 0.62 or not vals:
            # a call
            mode = rng.random()
            args: dict[str, int] = {}
            if any(has_default.values()) and mode < 0.12:
                # the default values themselves, some of them passed explicitly (fresh arrays) and the others
                # left to the defaults: one input, several forms of the call
                for name, size in sizes.items():
                    if has_default[name]:
                        if rng.chance(0.5):
                            args[name] = new_array(defaults[name])
                    else:
                        cands = [i for i in vals if fits(size_of[i], size) and i not in args.values()]
                        args[name] = rng.pick(cands) if cands and rng.chance(0.7) else new_array(value(size))
            elif calls and mode < 0.3:
                args = dict(rng.pick(calls)[0])  # the same arrays as an earlier call
            elif calls and mode < 0.45 and (prev := rng.pick(calls)[1]) is not None:
                # fresh arrays with the values an earlier call had (a body that updates its inputs in place:
                # or the values that call left in the arrays, i.e. the state it reached)
                reached = inpl and rng.chance(0.5)
                for (name, _size), v in zip(sizes.items(), prev):
                    if has_default[name] and v == defaults[name] and rng.chance(0.5):
                        continue
                    args[name] = new_array([c + wr_k[name] for c in v] if reached and name in wr_k else v)
            else:
                for name, size in sizes.items():
                    if has_default[name] and rng.chance(0.3):
                        continue
                    fresh_kept = [i for i in kept if fits(size_of[i], size) and i not in passed]
                    cands = [i for i in vals if fits(size_of[i], size)]
                    if inpl:  # one array per input name (the body writes into them)
                        fresh_kept = [i for i in fresh_kept if i not in args.values()]
                        cands = [i for i in cands if i not in args.values()]
                    if fresh_kept and rng.chance(0.6):
                        i = rng.pick(fresh_kept)
                    elif cands and rng.chance(0.55):
                        i = rng.pick(cands)
                    else:
                        i = new_array(value(size))
                    args[name] = i
            passed.update(args.values())
            call_vals = current_vals(args)
            calls.append((args, call_vals))
            u = rng.random()
            can_linx = last_exec_vals is not None and call_vals is not None and call_vals == last_exec_vals
            # how the caller passes the data: a fresh dict, one dict object reused and updated in place
            # across the calls, extra keys that are not inputs
            how = gen_how(rng, args)
            if rng.chance(0.12):
                ops.append(["peek", dict(args)])  # a direct look-up `cache[input_data]` before the call
            if u < 0.55:
                ops.append(["exec", args, how])
                last_was_exec = True
            elif u < 0.78:
                ops.append(["lin", "all", 1, args, how])
                last_was_exec = False
            elif u < 0.92 or not (can_linx or not in_scope):
                ops.append(["lin", "sub", 1, args, how])
                last_was_exec = False
            else:
                ops.append(["lin", rng.pick(["all", "sub"]), 0, args, how])
                last_was_exec = False
                call_vals = last_exec_vals  # execute=False does not execute
            last_exec_vals = call_vals
            if last_was_exec and rng.chance(0.12):
                # pass the returned data (inputs and outputs) itself back: the self-coupled variables
                # take their output values, the other inputs are the same arrays
                args2 = dict(args)
                ok = True
                for name in sizes:
                    if name in out_sizes:
                        if not fits(out_sizes[name], sizes[name]):
                            ok = False
                            break
                        i = next_id[0]
                        next_id[0] += 1
                        ops.append(["keep", i, name])
                        vals[i] = None
                        size_of[i] = out_sizes[name]
                        kept.add(i)
                        passed.add(i)
                        args2[name] = i
                if ok:
                    ops.append(["exec", args2, {"dict": "chain", "junk": False}])
                    calls.append((args2, None))
                    last_exec_vals = None
            continue
        last = last_was_exec
        last_was_exec = False
        if r < 0.80:
            elig = [i for i in vals if i not in kept or i in passed or not in_scope]
            pref = [i for i in elig if i in passed]
            if pref and rng.chance(0.8):
                elig = pref
            if not elig:
                continue
            i = rng.pick(elig)
            v = value(size_of[i])
            while len(v) != size_of[i]:
                v = value(size_of[i])  # an in-place modification keeps the size
            ops.append(["mut", i, [rat(c) for c in v]])
            vals[i] = v
        elif r < 0.90:
            if not last:
                continue
            name = rng.pick(list(out_sizes))
            i = next_id[0]
            next_id[0] += 1
            ops.append(["keep", i, name])
            vals[i] = None
            size_of[i] = out_sizes[name]
            kept.add(i)
            last_was_exec = rng.chance(0.3)  # several outputs of the same execution may be kept
        elif r < 0.96:
            if cfg["kind"] == "hdf":
                ops.append(["reopen"])
        else:
            ops.append(["clear"])
    return exec_only(ops[:n_ops]) if wr_k and in_scope else ops[:n_ops]


def gen_how(rng: common.Rng, args: dict[str, int]) -> dict[str, Any]:
    """How the caller passes the input data: a fresh dict, one dict object reused and updated in place
    across the calls, extra keys that are not inputs, the order in which the keys are inserted (a
    mapping: no meaning), nothing at all (`execute()`) or an empty dict when every input is defaulted."""
    how: dict[str, Any] = {"dict": rng.pick(["fresh", "fresh", "shared"]), "junk": rng.chance(0.15)}
    if len(args) > 1 and rng.chance(0.4):
        keys = list(args)
        how["keys"] = keys[::-1] if rng.chance(0.5) else rng.sample(keys, len(keys))
    if not args:
        how["empty"] = rng.pick(["none", "none", "dict"])
    return how


def exec_only(ops):
    """The in-scope histories of a body that writes into its input arrays call `execute` only (what
    `linearize` means for such a body is not defined by the property: see notes/C05.md)."""
    return [["exec", op[3]] + ([op[4]] if len(op) > 4 else []) if op[0] == "lin" else op for op in ops]


def gen_scenario(rng: common.Rng, cfg: dict[str, Any]) -> list[list[Any]]:
    """Histories shaped after the fault classes named by the property (all inside its quantifier):
    in-place modification of an input array after the call, an output array kept / passed back /
    modified, chains of inputs one tolerance apart, Jacobian cached before the outputs, reopen of a
    file cache (also with >= 10 entries, where h5py's name order differs from the index order)."""
    sizes = {i[0]: i[1] for i in cfg["inputs"]}
    has_default = {i[0]: i[2] is not None for i in cfg["inputs"]}
    out_sizes = {o[0]: o[1] for o in cfg["outputs"]}
    tol = fr(cfg["tol"])
    names = list(sizes)
    focus = rng.pick(names)
    ops: list[list[Any]] = []
    nid = [100]

    def new(v) -> int:
        nid[0] += 1
        ops.append(["new", nid[0], [rat(c) for c in v]])
        return nid[0]

    base = {n: [rng.pick([Fraction(0), Fraction(1), Fraction(1, 2), Fraction(-1), Fraction(2)]) for _ in range(sizes[n])] for n in names}

    def fresh_args(over: dict[str, list[Fraction]] | None = None, omit_defaults: bool = True) -> dict[str, int]:
        args = {}
        for n in names:
            if n != focus and has_default[n] and omit_defaults and rng.chance(0.5):
                continue
            args[n] = new((over or {}).get(n, base[n]))
        return args

    def call(args, how: str | None = None, form: dict[str, Any] | None = None) -> None:
        how = how or rng.pick(["exec", "exec", "lin-all", "lin-sub"])
        tail = [form] if form is not None else []
        if how == "exec":
            ops.append(["exec", dict(args), *tail])
        elif how == "lin-all":
            ops.append(["lin", "all", 1, dict(args), *tail])
        else:
            ops.append(["lin", "sub", 1, dict(args), *tail])

    def unit(k: int, size: int, c: Fraction) -> list[Fraction]:
        return [c if j == k else Fraction(0) for j in range(size)]

    kind = rng.pick(["alias-in", "alias-in", "alias-out", "alias-out", "tol-chain", "tol-chain", "jac-first", "jac-entry", "jac-entry",
                     "reopen", "many", "jac-near", "jac-near", "forms"])
    defaults = {i[0]: ([fr(t) for t in i[2]] if i[2] is not None else None) for i in cfg["inputs"]}
    n_dflt = sum(has_default.values())
    if n_dflt and rng.chance(0.15 + 0.15 * n_dflt):
        kind = "forms"
    if kind == "forms" and not n_dflt:
        kind = "alias-in"
    if tol > 0 and cfg["kind"] != "none" and rng.chance(0.3):
        kind = "jac-near"
    if kind == "jac-near" and tol == 0:
        kind = "jac-first"
    if cfg.get("sym") and max(sizes.values()) > 1 and rng.chance(0.6):
        kind = "sizes"
    if is_inplace(cfg) and rng.chance(0.7):
        return exec_only(gen_scenario_inplace(rng, cfg))
    if kind == "tol-chain" and tol == 0:
        kind = "alias-in"
    if kind in ("reopen", "many") and cfg["kind"] != "hdf":
        kind = "alias-out"
    if kind == "sizes":
        # the same input name with arrays of different sizes whose values broadcast to each other
        # (c, c) / (c); c is such that the coarse hash collides as well
        big = rng.pick([n for n in names if sizes[n] > 1])
        c = rng.pick([Fraction(0), Fraction(3, 2), Fraction(3)])
        long_, short = {big: [c] * sizes[big]}, {big: [c]}
        seq = rng.pick([[long_, short, long_], [short, long_, short], [long_, short], [short, long_]])
        for x in seq:
            call(fresh_args(x, omit_defaults=False), rng.pick(["exec", "exec", "lin-all"]))
    elif kind == "alias-in":
        args = fresh_args(omit_defaults=False)
        call(args)
        if rng.chance(0.5):
            call(args)
        victim = args[rng.pick(list(args))]
        vsize = next(sizes[n] for n in args if args[n] == victim)
        delta = rng.pick([tol, 2 * tol, Fraction(1, 2), Fraction(1)]) or Fraction(1)
        vname = next(n for n in args if args[n] == victim)
        newv = [c + d for c, d in zip(base[vname], unit(rng.randrange(vsize), vsize, delta))]
        ops.append(["mut", victim, [rat(c) for c in newv]])
        for _ in range(rng.randint(1, 3)):
            which = rng.random()
            if which < 0.4:
                call(fresh_args(omit_defaults=False))  # the original values, fresh arrays
            elif which < 0.8:
                call(fresh_args({vname: newv}, omit_defaults=False))  # the new values, fresh arrays
            else:
                call(args)
    elif kind == "alias-out":
        outs = [o for o in out_sizes if out_sizes[o] in sizes.values()]
        if not outs:
            return gen_scenario_fallback(rng, cfg)
        o = rng.pick(outs)
        target = rng.pick([n for n in names if sizes[n] == out_sizes[o]])
        args = fresh_args(omit_defaults=False)
        call(args, "exec")
        if rng.chance(0.6):
            call(args if rng.chance(0.5) else fresh_args(omit_defaults=False), "exec")
        nid[0] += 1
        k = nid[0]
        ops.append(["keep", k, o])
        args2 = dict(args)
        args2[target] = k
        call(args2)
        ops.append(["mut", k, [rat(rng.pick([Fraction(5), Fraction(-3), Fraction(7, 2)])) for _ in range(out_sizes[o])]])
        call(fresh_args(omit_defaults=False), "exec")
        if rng.chance(0.5):
            call(args, rng.pick(["exec", "lin-all"]))
    elif kind == "tol-chain":
        fsize = sizes[focus]
        k = rng.randrange(fsize)
        zero = [Fraction(0)] * fsize
        x1 = {focus: zero}
        x2 = {focus: unit(k, fsize, tol)}
        x3 = {focus: unit(k, fsize, -tol)}
        x4 = {focus: unit(k, fsize, 2 * tol)}
        order = rng.pick([[x1, x2, x3], [x1, x2, x3, x1], [x2, x1, x3], [x1, x3, x2, x4], [x1, x2, x4, x3, x1]])
        hows = rng.pick([["exec", "lin-all", "lin-all", "exec", "lin-all"], ["lin-all", "exec", "exec", "lin-all", "exec"],
                         ["exec", "exec", "exec", "exec", "exec"], ["exec", "lin-sub", "lin-sub", "lin-all", "exec"],
                         ["lin-all", "lin-all", "lin-all", "lin-all", "lin-all"]])
        for x, how in zip(order, hows):
            call(fresh_args(x, omit_defaults=False), how)
    elif kind == "jac-first":
        args = fresh_args(omit_defaults=False)
        call(args, "exec")
        ops.append(["clear"])
        ops.append(["lin", rng.pick(["all", "sub"]), 0, dict(args)])
        call(args, "exec")
        call(args, rng.pick(["lin-all", "lin-sub"]))
        if rng.chance(0.5):
            call(fresh_args(omit_defaults=False), "exec")
    elif kind == "jac-near":
        # the Jacobian is cached before any outputs at x0 (`linearize(execute=False)` on a cleared cache), then
        # executions at x1 and x2, both within the tolerance of x0 but not of each other (and around)
        fsize = sizes[focus]
        x0 = [rng.pick([Fraction(0), Fraction(0), Fraction(1, 2), Fraction(-1, 2), Fraction(1)]) for _ in range(fsize)]
        cands = []
        for k1 in range(fsize):
            for k2 in range(fsize):
                for m1 in (1, -1, Fraction(1, 2), Fraction(3, 2), Fraction(-3, 2)):
                    for m2 in (1, -1, Fraction(-1, 2), Fraction(3, 2), Fraction(-3, 2)):
                        x1 = [c + e for c, e in zip(x0, unit(k1, fsize, m1 * tol))]
                        x2 = [c + e for c, e in zip(x0, unit(k2, fsize, m2 * tol))]
                        # strictly inside / strictly outside (no borderline case for the float norm)
                        if (within([x1], [x0], tol * Fraction(7, 8)) and within([x2], [x0], tol * Fraction(7, 8))
                                and not within([x2], [x1], tol * Fraction(9, 8))):
                            cands.append((x1, x2))
        if not any(x0):
            # around 0 the radius is t itself: +-t on one component (dyadic: the float norms are exact)
            cands = [(unit(k, fsize, s * tol), unit(k, fsize, -s * tol)) for k in range(fsize) for s in (1, -1)]
        if not cands:
            return gen_scenario_fallback(rng, cfg)
        x1, x2 = rng.pick(cands)
        a0 = fresh_args({focus: x0}, omit_defaults=False)
        call(a0, "exec")
        ops.append(["clear"])
        ops.append(["lin", rng.pick(["all", "sub"]), 0, dict(a0) if rng.chance(0.6) else fresh_args({focus: x0}, omit_defaults=False)])
        call(fresh_args({focus: x1}, omit_defaults=False), "exec")
        if rng.chance(0.25):
            call(fresh_args({focus: rng.pick([x1, x0])}, omit_defaults=False), rng.pick(["exec", "lin-all", "lin-sub"]))
        call(fresh_args({focus: x2}, omit_defaults=False), "exec")
        for _ in range(rng.randint(0, 2)):
            call(fresh_args({focus: rng.pick([x2, x2, x1, x0])}, omit_defaults=False), rng.pick(["exec", "exec", "exec", "lin-all", "lin-sub"]))
    elif kind == "forms":
        # one input, several forms of the call: every input left to its default value (`execute()`, `execute({})`),
        # some of them / all of them passed explicitly with the same values, the keys of the dict in any order;
        # in between another input, a recycled array, a reopen of the file cache
        other = {n: [c + rng.pick([Fraction(1), Fraction(-2), Fraction(1, 2)]) for c in base[n]] for n in names}

        def form_args(x: dict[str, list[Fraction]], explicit: str) -> dict[str, int]:
            args = {}
            for n in names:
                v = x.get(n, defaults[n] if has_default[n] else base[n])
                if has_default[n] and v == defaults[n]:
                    if explicit == "none" or (explicit == "some" and rng.chance(0.5)):
                        continue
                args[n] = new(v)
            return args

        def form_call(x, how: str | None = None) -> None:
            args = form_args(x, rng.pick(["none", "none", "some", "some", "all"]))
            call(args, how or rng.pick(["exec", "exec", "exec", "lin-all", "lin-sub"]), gen_how(rng, args))

        form_call({})
        for _ in range(rng.randint(2, 5)):
            r = rng.random()
            if r < 0.7:
                form_call({})
            elif r < 0.8:
                form_call({focus: other[focus]})
            elif r < 0.9 and cfg["kind"] == "hdf":
                ops.append(["reopen"])
            else:
                # an explicit call with the default values, then the caller recycles one of its arrays
                args = form_args({}, "all")
                call(args, "exec", gen_how(rng, args))
                ops.append(["mut", args[focus], [rat(c) for c in other[focus]]])
                call(args, "exec", gen_how(rng, args))
        form_call({})
    elif kind == "jac-entry":
        # an entry created by `cache_jacobian` itself (a linearization within the tolerance of an executed
        # input, or a linearization without execution after a clear), then the caller recycles the array
        # it passed for a far-away point and calls again with it
        fsize = sizes[focus]
        far = {focus: [c + rng.pick([Fraction(2), Fraction(-3), Fraction(5, 2)]) for c in base[focus]]}
        if tol > 0 and rng.chance(0.6):
            call(fresh_args(omit_defaults=False), "exec")
            d = unit(rng.randrange(fsize), fsize, tol * rng.pick([Fraction(1), Fraction(1, 2), Fraction(-1)]))
            args2 = fresh_args({focus: [c + e for c, e in zip(base[focus], d)]}, omit_defaults=False)
            call(args2, rng.pick(["lin-all", "lin-sub"]))
        else:
            args2 = fresh_args(omit_defaults=False)
            call(args2, "exec")
            ops.append(["clear"])
            ops.append(["lin", rng.pick(["all", "sub"]), 0, dict(args2)])
        if rng.chance(0.5):
            call(args2, "exec")  # the outputs complete the entry that the Jacobian created
        ops.append(["mut", args2[focus], [rat(c) for c in far[focus]]])
        for _ in range(rng.randint(2, 3)):
            call(args2 if rng.chance(0.7) else fresh_args(far, omit_defaults=False), rng.pick(["lin-all", "lin-all", "lin-sub", "exec", "exec"]))
        if rng.chance(0.5):
            call(fresh_args(omit_defaults=False), rng.pick(["exec", "exec", "lin-all"]))  # the original values, fresh arrays
    elif kind == "reopen":
        seen = []
        for _ in range(rng.randint(2, 4)):
            x = {focus: [rng.pick([Fraction(0), Fraction(1), Fraction(1, 2), Fraction(3)]) for _ in range(sizes[focus])]}
            seen.append(x)
            call(fresh_args(x, omit_defaults=False))
        ops.append(["reopen"])
        for x in seen:
            call(fresh_args(x, omit_defaults=False))
        call(fresh_args({focus: [Fraction(9)] * sizes[focus]}, omit_defaults=False))
        ops.append(["reopen"])
        call(fresh_args(rng.pick(seen), omit_defaults=False))
    else:  # many entries, then reopen (h5py iterates "1", "10", "11", "2", ...)
        n = rng.randint(10, 12)
        step = tol if tol > 0 else Fraction(1)
        xs = [{focus: unit(0, sizes[focus], step * j)} for j in range(n)]
        for x in xs:
            call(fresh_args(x, omit_defaults=False), rng.pick(["exec", "exec", "lin-all"]))
        ops.append(["reopen"])
        for x in rng.sample(xs, 4):
            call(fresh_args(x, omit_defaults=False), rng.pick(["exec", "lin-all"]))
        call(fresh_args({focus: unit(0, sizes[focus], step * Fraction(19, 2))}, omit_defaults=False), "exec")
    return exec_only(ops) if cfg.get("wr") else ops


def gen_scenario_inplace(rng: common.Rng, cfg: dict[str, Any]) -> list[list[Any]]:
    """Histories for a body that updates its input arrays in place and/or returns them as outputs (all
    inside the quantifier: "repeated, new and in-place modified inputs", "self-coupled variables"):
    an input repeated with fresh arrays after the body has overwritten the arrays of the first call, a
    call at the state an earlier call reached (x + k), the same arrays passed again (they now hold the
    updated state), an output array that is the caller's own input array kept, modified and passed back,
    a reopen of the file cache in between."""
    sizes = {i[0]: i[1] for i in cfg["inputs"]}
    out_sizes = {o[0]: o[1] for o in cfg["outputs"]}
    wr_k = {n: Fraction(k) for n, (k, _syn) in cfg["wr"].items()}
    names = list(sizes)
    ops: list[list[Any]] = []
    nid = [100]

    def new(v) -> int:
        nid[0] += 1
        ops.append(["new", nid[0], [rat(c) for c in v]])
        return nid[0]

    x0 = {n: [rng.pick([Fraction(0), Fraction(1), Fraction(1, 2), Fraction(-1), Fraction(2)]) for _ in range(sizes[n])] for n in names}

    def state(j: int) -> dict[str, list[Fraction]]:
        """The values after j runs started from x0 (every written input advanced j times)."""
        return {n: [c + j * wr_k.get(n, 0) for c in v] for n, v in x0.items()}

    def fresh(x) -> dict[str, int]:
        return {n: new(x[n]) for n in names}

    def call(args) -> None:
        ops.append(["exec", dict(args), {"dict": rng.pick(["fresh", "fresh", "shared"]), "junk": False}])

    def maybe_reopen() -> None:
        if cfg["kind"] == "hdf" and rng.chance(0.3):
            ops.append(["reopen"])

    kind = rng.pick(["repeat", "repeat", "reached", "reached", "same-arrays", "keep-returned", "demo"])
    if kind == "keep-returned" and not cfg["alias"]:
        kind = "reached"
    if kind == "repeat":
        # x0, x0 again (fresh arrays: the arrays of the first call now hold x0 + k), then others
        call(fresh(state(0)))
        maybe_reopen()
        call(fresh(state(0)))
        for _ in range(rng.randint(0, 3)):
            call(fresh(state(rng.pick([0, 0, 1, 2]))))
    elif kind == "reached":
        # x0, then the state reached by that call, then again
        call(fresh(state(0)))
        call(fresh(state(1)))
        maybe_reopen()
        for _ in range(rng.randint(1, 3)):
            call(fresh(state(rng.pick([0, 1, 1, 2]))))
    elif kind == "same-arrays":
        args = fresh(state(0))
        for _ in range(rng.randint(2, 3)):
            call(args)  # a miss advances the arrays, a hit does not
        maybe_reopen()
        for _ in range(rng.randint(1, 3)):
            call(fresh(state(rng.pick([0, 1, 2, 3]))) if rng.chance(0.7) else args)
    elif kind == "keep-returned":
        o = rng.pick(list(cfg["alias"]))
        target = cfg["alias"][o][0]
        args = fresh(state(0))
        call(args)
        nid[0] += 1
        k = nid[0]
        ops.append(["keep", k, o])  # after a miss: the caller's own array; after a hit: a copy
        if rng.chance(0.5):
            call(fresh(state(rng.pick([0, 1]))))
        args2 = dict(args)
        args2[target] = k
        call(args2)
        if rng.chance(0.7):
            ops.append(["mut", k, [rat(rng.pick([Fraction(5), Fraction(-3), Fraction(7, 2)])) for _ in range(out_sizes[o])]])
        call(fresh(state(rng.pick([0, 1, 2]))))
        if rng.chance(0.5):
            call(args2)
    else:
        # the pattern of a time-stepping loop restarted: x0, x0, x1, x0, x1, x2
        for j in (0, 0, 1, 0, 1, 2):
            call(fresh(state(j)))
            if j == 1:
                maybe_reopen()
    return ops


def gen_scenario_fallback(rng, cfg):
    return gen_ops(rng, cfg, rng.randint(4, 10), id_base=100)


def gen_case(rng: common.Rng) -> tuple[dict[str, Any], list[list[Any]]]:
    cfg = gen_cfg(rng)
    if rng.chance(0.4):
        pre = gen_ops(rng, cfg, rng.randint(0, 4)) if rng.chance(0.4) else []
        mid = gen_scenario(rng, cfg)
        post = gen_ops(rng, cfg, rng.randint(0, 6), id_base=300) if rng.chance(0.5) else []
        ops = pre + mid + post
        # a `keep` must directly follow an execute: the junctions may break that
        if not well_formed(cfg, ops):
            ops = mid
        return cfg, ops
    return cfg, gen_ops(rng, cfg, rng.randint(1, 20))


def op_args(op) -> dict[str, int]:
    return op[3] if op[0] == "lin" else op[1]


def op_how(op) -> dict[str, Any]:
    k = 4 if op[0] == "lin" else 2
    return op[k] if len(op) > k else {"dict": "fresh", "junk": False}


def well_formed(cfg, ops) -> bool:
    """Every id is defined before use with a fitting size, `keep` directly follows an execute (or a
    keep), a call that passes the returned data back directly follows an execute (+ its keeps) and has
    the same arguments but for the self-coupled variables."""
    sizes = {i[0]: i[1] for i in cfg["inputs"]}
    has_default = {i[0]: i[2] is not None for i in cfg["inputs"]}
    out_sizes = {o[0]: o[1] for o in cfg["outputs"]}
    sym = bool(cfg.get("sym"))
    size_of: dict[int, int] = {}
    prev_exec = False
    last_exec_args: dict[str, int] | None = None
    keeps_since: dict[str, int] = {}
    for op in ops:
        k = op[0]
        if k == "new":
            if op[1] in size_of:
                return False
            size_of[op[1]] = len(op[2])
        elif k == "mut":
            if size_of.get(op[1]) != len(op[2]):
                return False
        elif k == "keep":
            if not prev_exec or op[1] in size_of or op[2] not in out_sizes:
                return False
            size_of[op[1]] = out_sizes[op[2]]
            keeps_since[op[2]] = op[1]
        elif k in ("exec", "lin", "peek"):
            args = op_args(op)
            for name, size in sizes.items():
                if name in args:
                    have = size_of.get(args[name])
                    if have is None or not (have == size or (sym and have <= size)):
                        return False
                elif not has_default[name]:
                    return False
            if set(args) - set(sizes):
                return False
            if k != "peek" and op_how(op)["dict"] == "chain":
                if k != "exec" or not prev_exec or last_exec_args is None:
                    return False
                want = dict(last_exec_args)
                for name in sizes:
                    if name in out_sizes:
                        if name not in keeps_since:
                            return False
                        want[name] = keeps_since[name]
                if want != args:
                    return False
        if k == "exec":
            last_exec_args = dict(op_args(op))
            keeps_since = {}
        elif k != "keep":
            last_exec_args = None if k != "peek" else last_exec_args
        prev_exec = k == "exec" or (k == "keep" and prev_exec)
    return True


def in_quantifier(cfg, ops) -> bool:
    """The history is inside the property's quantifier (see notes/C05.md):
    * the caller modifies only arrays it created or arrays it has passed in as inputs;
    * linearize(execute=False) asserts that the discipline was last executed with the same input
      values (checked on the values at run time by the runner, here only the syntactic part);
    * a body that writes into its input arrays is executed, not linearized (the uncached twin itself
      linearizes such a body at the values its run left in the arrays, not at the inputs)."""
    kept, passed = set(), set()
    if cfg.get("wr") and any(op[0] == "lin" for op in ops):
        return False
    for op in ops:
        if op[0] == "keep":
            kept.add(op[1])
        elif op[0] in ("exec", "lin"):
            passed.update(op_args(op).values())
        elif op[0] == "mut" and op[1] in kept and op[1] not in passed:
            return False
    return True


# --------------------------------------------------------------------------- implementation runner

_TMP: str | None = None


def tmp_dir() -> str:
    global _TMP
    if _TMP is None:
        _TMP = tempfile.mkdtemp(prefix="c05-")
        import atexit

        atexit.register(shutil.rmtree, _TMP, True)
    return _TMP


_FILE_NO = [0]


def coarse_hash(data) -> int:
    """A hash with many collisions (a function of the values only)."""
    tot = 0.0
    for name in sorted(data):
        v = data.get(name)
        if v is not None:
            tot += float(np.sum(np.asarray(v, dtype=float)))
    return int(math.floor(tot * 2)) % 3 + 1


@contextlib.contextmanager
def hash_mode(mode: str):
    """Replace gemseo's hash function (a parameter of the model) by a coarse one."""
    if mode != "coarse":
        yield True
        return
    import gemseo.caches._hdf5_file_singleton as m2
    import gemseo.caches.base_full_cache as m1

    if not (hasattr(m1, "hash_data") and hasattr(m2, "hash_data")):
        yield False
        return
    o1, o2 = m1.hash_data, m2.hash_data
    m1.hash_data = coarse_hash
    m2.hash_data = coarse_hash
    try:
        yield True
    finally:
        m1.hash_data, m2.hash_data = o1, o2


def make_disc(cfg, kind: str):
    from harness.c05_disc import PolyDisc

    spec = {
        "inputs": cfg["inputs"],
        "outputs": cfg["outputs"],
        "A": cfg["A"],
        "b": cfg["b"],
        "q": cfg["q"],
        "sparse": cfg["sparse"],
        "run_sets_jac": cfg["sj"],
        "wr": cfg.get("wr") or {},
        "alias": cfg.get("alias") or {},
        "dorder": cfg.get("dorder") or [],
    }
    d = PolyDisc(spec)
    tol = float(fr(cfg["tol"]))
    info: dict[str, Any] = {}
    if kind == "none":
        d.set_cache(d.CacheType.NONE)
    elif kind == "simple":
        d.set_cache(d.CacheType.SIMPLE, tolerance=tol)
    elif kind == "mem":
        d.set_cache(d.CacheType.MEMORY_FULL, tolerance=tol, is_memory_shared=False)
    elif kind == "shm":
        d.set_cache(d.CacheType.MEMORY_FULL, tolerance=tol, is_memory_shared=True)
    elif kind == "hdf":
        _FILE_NO[0] += 1
        path = os.path.join(tmp_dir(), f"cache{os.getpid()}_{_FILE_NO[0]}.h5")
        d.set_cache(d.CacheType.HDF5, tolerance=tol, hdf_file_path=path, hdf_node_path="node")
        info["path"] = path
    else:
        raise ValueError(kind)
    if cfg["din"]:
        d.add_differentiated_inputs(cfg["din"])
    if cfg["dout"]:
        d.add_differentiated_outputs(cfg["dout"])
    return d, info


def fvals(a) -> list[Fraction]:
    return [F(x) for x in np.asarray(a, dtype=float).ravel().tolist()]


def show_vals(names, data) -> str:
    if not data:
        return "_"
    return ";".join(f"{n}={rats(fvals(data[n]))}" for n in names if n in data) or "_"


def jac_blocks(jac) -> dict[tuple[str, str], list[list[Fraction]]]:
    out = {}
    for o, row in (jac or {}).items():
        for i, blk in row.items():
            m = blk.toarray() if hasattr(blk, "toarray") else np.asarray(blk)
            m = np.atleast_2d(np.asarray(m, dtype=float))
            out[(o, i)] = [[F(x) for x in r] for r in m.tolist()]
    return out


def show_jac(blocks) -> str:
    if not blocks:
        return "_"
    return ";".join(f"{o}.{i}=" + "|".join(rats(r) for r in blocks[(o, i)]) for (o, i) in sorted(blocks))


def show_state(cfg, d) -> str:
    in_names = [i[0] for i in cfg["inputs"]]
    out_names = [o[0] for o in cfg["outputs"]]
    if d.cache is None:
        return f"run={d.n_run} jac={d.n_jac} | len=_ last=_ | "
    es = []
    # HDF5Cache.get_all_entries() raises (assert in HDF5FileSingleton.__close) on a cache without
    # entries: an API wart outside this property; the harness does not iterate an empty cache.
    for e in d.cache.get_all_entries() if len(d.cache) else ():
        es.append("{" + show_vals(in_names, e.inputs) + " > " + show_vals(out_names, e.outputs) + " > " + show_jac(jac_blocks(e.jacobian)) + "}")
    last = show_vals(in_names, d.cache.last_entry.inputs)
    return f"run={d.n_run} jac={d.n_jac} | len={len(d.cache)} last={last} | " + " ".join(es)


def cfg_line(cfg) -> str:
    ins = ";".join(f"{n}:{s}:" + (",".join(dv) if dv is not None else "_") for n, s, dv in cfg["inputs"])
    outs = ";".join(o[0] for o in cfg["outputs"])
    A = ";".join(f"{o}:" + "|".join(",".join(str(c) for c in row) for row in cfg["A"][o]) for o, _ in cfg["outputs"])
    b = ";".join(f"{o}:" + ",".join(str(c) for c in cfg["b"][o]) for o, _ in cfg["outputs"])
    q = ";".join(f"{o}:" + ",".join(str(c) for c in cfg["q"][o]) for o, _ in cfg["outputs"])
    din = ",".join(cfg["din"]) or "[]"
    dout = ",".join(cfg["dout"]) or "[]"
    line = (
        f"cfg kind={cfg['kind']} tol={cfg['tol']} pol=11 in={ins} out={outs} din={din} dout={dout} "
        f"sj={1 if cfg['sj'] else 0} A={A} b={b} q={q}"
    )
    if is_inplace(cfg):
        wr = ";".join(f"{n}:{k}" for n, (k, _syn) in cfg.get("wr", {}).items()) or "_"
        alias = ";".join(f"{o}:{n}" for o, (n, _style) in cfg.get("alias", {}).items()) or "_"
        line += f" wr={wr} alias={alias}"
    return line


class Run:
    """Observations of one history on one discipline."""

    def __init__(self) -> None:
        self.lines: list[str] = []  # protocol lines (with hash tokens)
        self.answers: list[str] = []  # canonical answers of the implementation
        self.steps: list[dict[str, Any]] = []  # rich per-op observations for the oracle
        self.linx_ok = True  # every execute=False call had the asserted precondition
        self.exact = True  # every call stayed on the exact stream (inputs with few significant bits)
        self.update_check = None  # (entries, entries of a cache updated from it) at the end of the history
        self.hash_patched = True
        self.shared_inputs = False  # a body that writes into its inputs was given one array for two inputs

    @property
    def judged(self) -> bool:
        return self.exact and not self.shared_inputs


def run_history(cfg, ops, kind: str | None = None, values_of: Run | None = None) -> Run:
    """Execute the history on the real code (cache `kind`, default the case's).

    `values_of`: the calls are made with fresh arrays holding the input values that the calls of this
    other run had (the twin of a body with side effects on its input arrays: "the same sequence" is the
    sequence of input values; the arrays of the twin's caller evolve differently since the twin runs
    the body at every call)."""
    kind = kind or cfg["kind"]
    run = Run()
    inpl = is_inplace(cfg)
    in_names = [i[0] for i in cfg["inputs"]]
    out_names = [o[0] for o in cfg["outputs"]]
    defaults = {i[0]: ([fr(t) for t in i[2]] if i[2] is not None else None) for i in cfg["inputs"]}
    with hash_mode(cfg["hash"] if kind in FULL else "real") as patched:
        run.hash_patched = bool(patched)
        d, info = make_disc(cfg, kind)
        heap: dict[int, np.ndarray] = {}
        shared: dict[str, Any] = {}
        tokens: dict[Any, int] = {}
        last_ret = None
        last_exec_x = None
        run.lines.append(cfg_line({**cfg, "kind": kind}))
        run.answers.append("ok")
        run.steps.append({"op": ["cfg"]})
        for op in ops:
            k = op[0]
            step: dict[str, Any] = {"op": op}
            res = "ok"
            line = ""
            try:
                if k == "new":
                    heap[op[1]] = np.array([float(fr(t)) for t in op[2]])
                    line = f"new {op[1]} {','.join(op[2])}"
                elif k == "mut":
                    heap[op[1]][:] = [float(fr(t)) for t in op[2]]
                    line = f"mut {op[1]} {','.join(op[2])}"
                elif k == "keep":
                    heap[op[1]] = last_ret[op[2]]
                    line = f"keep {op[1]} {op[2]}"
                elif k in ("exec", "lin", "peek"):
                    args = op_args(op)
                    x = [fvals(heap[args[n]]) if n in args else defaults[n] for n in in_names]
                    if values_of is not None:
                        x = values_of.steps[len(run.steps)].get("x", x)
                    elif inpl and k != "peek":
                        arrs = [heap[i] for i in args.values()]
                        if any(np.shares_memory(a, b) for i, a in enumerate(arrs) for b in arrs[i + 1 :]):
                            run.shared_inputs = True
                    if cfg["hash"] == "coarse" and kind in FULL and patched:
                        tok = coarse_hash({n: np.array([float(c) for c in v]) for n, v in zip(in_names, x)})
                    else:
                        key = tuple((n, tuple(v)) for n, v in zip(in_names, x))
                        tok = tokens.setdefault(key, len(tokens) + 1)
                    argstr = " ".join(f"{n}={args[n]}" for n in in_names if n in args)
                    step["x"] = x
                    if any(max(c.numerator.bit_length(), c.denominator.bit_length()) > 22 for v in x for c in v):
                        # outputs fed back several times through a quadratic body: the float evaluation of
                        # the body is no longer exact; the case leaves the exact stream (and is not judged)
                        run.exact = False
                    if k == "peek":
                        # the Mapping interface of the cache: cache[input_data], with fresh arrays
                        line = f"peek h={tok} {argstr}".rstrip()
                        if d.cache is None:
                            res = "P _ > _"
                        else:
                            # (the keys in another order than the input names: a mapping has no order)
                            probe = {n: np.array([float(c) for c in v]) for n, v in list(zip(in_names, x))[::-1]}
                            e = d.cache[probe]
                            res = "P " + show_vals(out_names, e.outputs) + " > " + show_jac(jac_blocks(e.jacobian))
                        step["peek"] = res
                    else:
                        how = op_how(op)
                        if values_of is not None:
                            data = {n: np.array([float(c) for c in v]) for n, v in zip(in_names, x)}
                        elif how["dict"] == "chain":
                            data = last_ret  # the returned data itself
                        else:
                            data = {n: heap[args[n]] for n in [*how.get("keys", []), *args] if n in args}
                            if how["junk"]:
                                data["zz_not_an_input"] = np.array([123.0])
                            if how["dict"] == "shared":
                                shared.clear()
                                shared.update(data)
                                data = shared  # one dict object updated in place across the calls
                        if values_of is None and not data and how.get("empty", "dict") == "none":
                            data = None  # execute() / linearize(): every input left to its default value
                        pos_args = () if data is None else (data,)
                        n_run0, n_jac0 = d.n_run, d.n_jac
                        if k == "exec":
                            line = f"exec h={tok} {argstr}".rstrip()
                            r = d.execute(*pos_args)
                            last_ret = r
                            last_exec_x = x
                            step["ret"] = {n: fvals(r[n]) for n in out_names}
                            res = "D " + show_vals(out_names, r)
                        else:
                            line = f"lin {op[1]} {op[2]} h={tok} {argstr}".rstrip()
                            if not op[2] and last_exec_x != x:
                                run.linx_ok = False
                            j = d.linearize(*pos_args, compute_all_jacobians=(op[1] == "all"), execute=bool(op[2]))
                            if op[2]:
                                last_exec_x = x
                            step["jac"] = jac_blocks(j)
                            res = "J " + show_jac(step["jac"])
                        step["ran"] = d.n_run - n_run0
                        step["linearized"] = d.n_jac - n_jac0
                elif k == "reopen":
                    line = "reopen"
                    if kind == "hdf":
                        from gemseo.caches.hdf5_cache import HDF5Cache

                        before = entries_snapshot(cfg, d)
                        d.cache = HDF5Cache(tolerance=float(fr(cfg["tol"])), hdf_file_path=info["path"], hdf_node_path="node")
                        step["before"] = before
                        step["after"] = entries_snapshot(cfg, d)
                elif k == "clear":
                    line = "clear"
                    # HDF5Cache.clear() raises on a cache without any entry (the node does not exist yet):
                    # an API wart outside this property; the harness does not call it then.
                    if d.cache is not None and not (kind == "hdf" and len(d.cache) == 0):
                        d.cache.clear()
                else:
                    raise ValueError(k)
            except Exception as e:  # noqa: BLE001
                res = common.exc_class(e)
                step["exc"] = common.short_tb(e)
            step["run_log"] = list(d.run_log)
            step["jac_log"] = list(d.jac_log)
            step["len"] = None if d.cache is None else len(d.cache)
            run.lines.append(line)
            try:
                run.answers.append(res if k == "peek" and "exc" not in step else res + " | " + show_state(cfg, d))
            except Exception as e:  # noqa: BLE001
                run.answers.append(res + " | state-raises " + common.exc_class(e))
                step["exc"] = common.short_tb(e)
            run.steps.append(step)
        if kind in FULL and len(d.cache):
            # BaseFullCache.update / __setitem__: a fresh cache filled from this one serves the same entries
            try:
                from gemseo.caches.memory_full_cache import MemoryFullCache

                other = MemoryFullCache(is_memory_shared=False)
                other.update(d.cache)
                dd = type("D", (), {"cache": other})()
                run.update_check = (entries_snapshot(cfg, d), entries_snapshot(cfg, dd))
            except Exception as e:  # noqa: BLE001
                run.update_check = ("raised", common.short_tb(e))
    return run


def entries_snapshot(cfg, d):
    in_names = [i[0] for i in cfg["inputs"]]
    out_names = [o[0] for o in cfg["outputs"]]
    snap = []
    for e in d.cache.get_all_entries() if len(d.cache) else ():
        snap.append((show_vals(in_names, e.inputs), show_vals(out_names, e.outputs), show_jac(jac_blocks(e.jacobian))))
    return (len(d.cache), snap)


# --------------------------------------------------------------------------- oracle


def log_vals(snap) -> list[list[Fraction]]:
    """A body-log snapshot ((name, shape, values), ...) -> positional values."""
    return [list(v) for (_n, _s, v) in snap]


def requested(cfg, mode: str) -> list[tuple[str, str]]:
    ins = [i[0] for i in cfg["inputs"]] if mode == "all" else cfg["din"]
    outs = [o[0] for o in cfg["outputs"]] if mode == "all" else cfg["dout"]
    return [(o, i) for o in outs for i in ins]


def oracle(cfg, ops, run: Run, twin: Run | None) -> list[tuple[str, str, int]]:
    """Clauses of the property violated by the implementation: (key, message, op position)."""
    bad: list[tuple[str, str, int]] = []
    t = fr(cfg["tol"])
    kind = cfg["kind"]
    runs_since_clear: list[Any] = []
    n_log = 0
    for pos, step in enumerate(run.steps):
        op = step["op"]
        k = op[0]
        if "exc" in step:
            bad.append((f"raises-{kind}", f"op {pos} {op} raised: {step['exc'][-300:]}", pos))
            break
        new_runs = step.get("run_log", [])[n_log:]
        n_log = len(step.get("run_log", []))
        if k == "clear":
            runs_since_clear = []
        runs_since_clear += new_runs
        if k == "exec":
            x = step["x"]
            ret = step["ret"]
            # (a) witness: the outputs are those of an input the body was executed on, within t of x
            ok = any(
                within(x, w, t) and all(ret[o] == fw[o] for o in ret)
                for w in map(log_vals, step["run_log"])
                for fw in [poly_run(cfg, w)]
            )
            if not ok:
                why = "a previously executed input within the tolerance" if t > 0 else "this input"
                bad.append((f"exec-wrong-{kind}-{'tol' if t > 0 else 'exact'}",
                            f"op {pos}: execute({x}) returned {ret}, which are not the outputs of {why}", pos))
            # (b) differential: the uncached twin on the same history (exact matching only)
            if t == 0 and twin is not None and "ret" in twin.steps[pos] and twin.steps[pos]["ret"] != ret:
                bad.append((f"exec-twin-{kind}", f"op {pos}: execute returned {ret}, the uncached twin {twin.steps[pos]['ret']}", pos))
        elif k == "lin":
            x = step["x"]
            jac = step["jac"]
            req = requested(cfg, op[1])
            ok = any(
                within(x, w, t) and all(jac.get(p) == jw[p] for p in req)
                for w in map(log_vals, step["jac_log"])
                for jw in [poly_jac(cfg, w)]
            ) or not req
            if not ok:
                why = "a previously linearized input within the tolerance" if t > 0 else "this input"
                bad.append((f"lin-wrong-{kind}-{'tol' if t > 0 else 'exact'}",
                            f"op {pos}: linearize({x}) returned {show_jac(jac)} whose requested blocks {req} are not those of {why}", pos))
            if t == 0 and twin is not None and "jac" in twin.steps[pos]:
                tj = twin.steps[pos]["jac"]
                if any(jac.get(p) != tj.get(p) for p in req):
                    bad.append((f"lin-twin-{kind}", f"op {pos}: linearize returned {show_jac(jac)}, the uncached twin {show_jac(tj)}", pos))
        elif k == "reopen" and "before" in step:
            if step["before"] != step["after"]:
                bad.append(("reopen-entries", f"op {pos}: the reopened cache serves {step['after']}, before {step['before']}", pos))
        # (c) run counter: a full cache with exact matching runs the body at most once per distinct input
        if kind in FULL and t == 0 and new_runs:
            keys = [tuple(map(tuple, log_vals(s))) for s in runs_since_clear]
            if not len(set(keys)) == len(keys):
                bad.append((f"rerun-{kind}", f"op {pos}: the body ran twice on the same input (runs since the last clear: {keys})", pos))
        if bad:
            break
    if not bad and run.update_check is not None and run.update_check[0] != run.update_check[1]:
        bad.append(("update-entries", f"a cache updated from the final cache serves {run.update_check[1]}, the cache itself {run.update_check[0]}",
                    len(run.steps) - 1))
    return bad


# --------------------------------------------------------------------------- check of a case


def evaluate(cfg, ops) -> tuple[Run, list[tuple[str, str, int]]]:
    run = run_history(cfg, ops)
    twin = None
    if fr(cfg["tol"]) == 0 and cfg["kind"] != "none":
        twin = run_history(cfg, ops, kind="none", values_of=run if is_inplace(cfg) else None)
    return run, oracle(cfg, ops, run, twin)


def shrink(cfg, ops, key: str) -> list[list[Any]]:
    def fails(cand):
        if not well_formed(cfg, cand) or not in_quantifier(cfg, cand):
            return False
        run, bad = evaluate(cfg, cand)
        return run.linx_ok and run.judged and any(b[0] == key for b in bad)

    small = common.shrink_list(ops, fails, budget=150)
    return small


def simplify_cfg(cfg, ops, key: str):
    """Try simpler configurations on which the same clause still fails."""
    cur = cfg
    for patch in ({"hash": "real"}, {"sparse": []}, {"sj": False}, {"alias": {}}):
        if all(cur.get(k) == v for k, v in patch.items()):
            continue
        cand = {**cur, **patch}
        try:
            run, bad = evaluate(cand, ops)
        except Exception:  # noqa: BLE001
            continue
        if run.linx_ok and run.judged and any(b[0] == key for b in bad):
            cur = cand
    return cur


def neighbours(rng, cfg, ops):
    """Failing-input search around a disagreement: ops dropped / duplicated / swapped, other cache
    parameters, then fresh histories biased to the same configuration."""
    for i in range(len(ops)):
        yield cfg, ops[:i] + ops[i + 1 :]
    for i in range(len(ops)):
        if ops[i][0] in ("exec", "lin", "mut"):
            yield cfg, ops[: i + 1] + [ops[i]] + ops[i + 1 :]
    for i in range(len(ops) - 1):
        yield cfg, ops[:i] + [ops[i + 1], ops[i]] + ops[i + 2 :]
    for tol in ("0", "1/1024", "1/8"):
        if tol != cfg["tol"]:
            yield {**cfg, "tol": tol}, ops
    for _ in range(40):
        yield cfg, gen_ops(rng, cfg, rng.randint(3, 16))
    for _ in range(60):
        yield cfg, gen_scenario(rng, cfg)
    if fr(cfg["tol"]) == 0 and cfg["kind"] != "none":
        for _ in range(40):
            yield {**cfg, "tol": "1/8"}, gen_scenario(rng, {**cfg, "tol": "1/8"})


_POOL = None
_POOL_SIZE = 12


def _evaluate_pair(case):
    common.quiet_gemseo()
    return evaluate(case[0], case[1])


def evaluate_many(cases, parallel: bool):
    """Implementation side of many cases, spread over processes (5 in the quick tier, 12 in the thorough
    one; the cases are generated beforehand from the single PRNG and the results are consumed in order:
    nothing depends on the scheduling)."""
    global _POOL
    if not parallel or len(cases) < 64:
        return [evaluate(cfg, ops) for cfg, ops in cases]
    if _POOL is None:
        import multiprocessing

        # the manager of the shared-memory caches is a process-wide singleton: it must exist before the
        # fork (a pool worker is daemonic and cannot start one)
        from gemseo.utils.multiprocessing.manager import get_multi_processing_manager

        get_multi_processing_manager()
        tmp_dir()  # created (and removed at exit) by the parent, inherited by the workers
        _POOL = multiprocessing.get_context("fork").Pool(min(_POOL_SIZE, os.cpu_count() or 1))
    return _POOL.map(_evaluate_pair, cases, chunksize=16)


def check_cases(res: Result, cases, rng, in_scope: bool = True, parallel: bool = False) -> None:
    """Run the cases on the implementation, the model (one driver call) and the oracle."""
    runs = []
    for (cfg, ops), (run, bad) in zip(cases, evaluate_many(cases, parallel)):
        runs.append((cfg, ops, run, bad))
    lines: list[str] = []
    for _cfg, _ops, run, _bad in runs:
        lines += run.lines
    model = common.run_lean_driver(PID, lines)
    pos = 0
    for cfg, ops, run, bad in runs:
        m = model[pos : pos + len(run.lines)]
        pos += len(run.lines)
        res.evaluations += 1
        if not run.judged:
            res.count("left-exact-stream (not judged)" if not run.exact else "one-array-for-two-inputs-of-a-writing-body (not judged)")
            continue
        scope = in_scope and in_quantifier(cfg, ops) and run.linx_ok
        account(res, cfg, ops, run, scope)
        if scope:
            for key, msg, _p in bad:
                small = shrink(cfg, ops, key)
                scfg = simplify_cfg(cfg, small, key)
                small = shrink(scfg, small, key)
                r2, b2 = evaluate(scfg, small)
                res.violate("oracle", key, (b2 or [(key, msg, 0)])[0][1],
                            {"cfg": scfg, "ops": small, "impl": r2.answers, "protocol": r2.lines})
        elif bad:
            res.count("probe-oracle-" + bad[0][0])
            if len(res.notes) < 12:
                res.notes.append(f"out-of-scope probe: {bad[0][1][:200]}")
        # correspondence, op by op
        diff = next((i for i, (a, b) in enumerate(zip(run.answers, m)) if a != b), None)
        if diff is None:
            res.traces_validated += 1
            continue
        res.disagreements += 1
        if not scope:
            res.count("probe-disagreement")
            if len(res.notes) < 12:
                res.notes.append(f"out-of-scope probe disagreement at `{run.lines[diff]}`: impl={run.answers[diff]} model={m[diff]}")
            continue
        if bad:
            continue  # an oracle violation is already reported for this case
        found = False
        for ncfg, nops in neighbours(rng, cfg, ops):
            if not well_formed(ncfg, nops) or not in_quantifier(ncfg, nops):
                continue
            r2, b2 = evaluate(ncfg, nops)
            if b2 and r2.linx_ok and r2.judged:
                key = b2[0][0]
                small = shrink(ncfg, nops, key)
                r3, b3 = evaluate(ncfg, small)
                res.violate("oracle", key, (b3 or b2)[0][1], {"cfg": ncfg, "ops": small, "impl": r3.answers, "protocol": r3.lines})
                found = True
                break
        if not found:
            res.violate(
                "correspondence",
                "model-vs-impl",
                f"implementation and Lean model disagree after `{run.lines[diff]}` (no property-violating history found among the neighbours)",
                {"cfg": cfg, "ops": ops, "protocol": run.lines[: diff + 1], "impl": run.answers[diff], "model": m[diff],
                 "correspondence": "Driver/C05.lean"},
            )


def account(res: Result, cfg, ops, run: Run, scope: bool) -> None:
    res.count(f"kind={cfg['kind']}")
    res.count(f"tol={cfg['tol']}")
    res.count(f"hash={cfg['hash']}")
    res.count("in-scope" if scope else "probe")
    res.count(f"n_ops={min(len(ops) // 5 * 5, 20)}+")
    if any(i[0] == "s" for i in cfg["inputs"]):
        res.count("self-coupled")
    if cfg["sparse"]:
        res.count("sparse-jacobian")
        for blk in cfg["sparse"]:
            res.count("sparse-format=" + (blk[2] if len(blk) > 2 else "csr"))
    if cfg["sj"]:
        res.count("run-sets-jacobian")
    if is_inplace(cfg):
        res.count("body-with-side-effects-on-inputs")
        for n, (_k, syn) in cfg.get("wr", {}).items():
            res.count("body-updates-in-place=" + ("self-coupled" if n == "s" else "plain-input") + f"({syn})")
        for o, (n, style) in cfg.get("alias", {}).items():
            res.count("body-returns-input-array=" + style + ("(self-coupled)" if o == n else ""))
        if scope:
            res.count("in-scope+body-with-side-effects")
            ex = [st for st in run.steps if st["op"][0] == "exec" and "x" in st]
            seen: list = []
            k_of = {n: Fraction(k) for n, (k, _s) in cfg.get("wr", {}).items()}
            names = [i[0] for i in cfg["inputs"]]
            rep = reached = 0
            for st in ex:
                if st["x"] in seen:
                    rep += 1
                if any([[c + k_of.get(n, 0) for c in v] for n, v in zip(names, w)] == st["x"] for w in seen) and k_of:
                    reached += 1
                seen.append(st["x"])
            res.count("in-place:call-repeats-an-earlier-input", rep)
            res.count("in-place:call-at-the-state-an-earlier-call-reached", reached)
            res.count("in-place:hit", sum(1 for st in ex if st.get("ran") == 0))
            res.count("in-place:miss", sum(1 for st in ex if st.get("ran") == 1))
    dflt_names = [i[0] for i in cfg["inputs"] if i[2] is not None]
    other_order = bool(cfg.get("dorder")) and list(cfg["dorder"]) != dflt_names
    if other_order:
        res.count("defaults-defined-in-another-order-than-the-input-names")
    forms_of: dict[str, set] = {}
    for st in run.steps:
        op = st["op"]
        if op[0] in ("exec", "lin") and "x" in st:
            how = op_how(op)
            args = op_args(op)
            form = ("all-defaulted:" + ("execute()" if how.get("empty", "dict") == "none" else "{}" if not how["junk"] else "only-extra-keys")
                    if not args else "fully-explicit" if len(args) == len(cfg["inputs"]) else "partially-defaulted")
            res.count("call-form=" + form)
            if "keys" in how and list(how["keys"]) != [n for n in (i[0] for i in cfg["inputs"]) if n in args]:
                res.count("call-dict-keys-in-another-order-than-the-input-names")
            seen_forms = forms_of.setdefault(json.dumps([rats(v) for v in st["x"]]), set())
            shape = (tuple(sorted(args)), tuple(how.get("keys", [])))
            if seen_forms and shape not in seen_forms and scope:
                res.count("call-repeats-an-input-in-another-form")
                if other_order and len(dflt_names) - sum(1 for n in dflt_names if n in args) >= 2 or (other_order and any(not f[0] for f in seen_forms)):
                    res.count("call-repeats-an-input-in-another-form+defaults-in-another-order")
            seen_forms.add(shape)
    if scope and fr(cfg["tol"]) > 0 and cfg["kind"] != "none" and jac_before_outputs_pattern(cfg, run):
        res.count("jacobian-cached-before-outputs-at-x0-then-x1-x2-within-t-of-x0-but-not-of-each-other")
    for op in ops:
        res.count("op=" + op[0] + (f"-{op[1]}-{'exe' if op[2] else 'noexe'}" if op[0] == "lin" else ""))
        if op[0] in ("exec", "lin"):
            how = op_how(op)
            res.count("data=" + how["dict"] + ("+extra-keys" if how["junk"] else ""))
    if cfg.get("sym"):
        res.count("variable-size-inputs")
    hits = sum(1 for s in run.steps if s["op"][0] == "exec" and s.get("ran") == 0)
    jhits = sum(1 for s in run.steps if s["op"][0] == "lin" and s.get("linearized") == 0)
    res.count("exec-hit", hits)
    res.count("lin-hit", jhits)
    if any(op[0] == "mut" for op in ops) and hits + jhits > 0:
        res.count("mutation+hit")
    n_calls = sum(1 for op in ops if op[0] in ("exec", "lin"))
    res.count("peek-answered", sum(1 for st in run.steps if st.get("peek", "P _ > _") != "P _ > _"))
    if n_calls >= 2 and cfg["kind"] != "none":
        res.nontrivial(json.dumps([cfg_line(cfg), run.lines[1:]]))
    res.sample({"cfg": cfg_line(cfg), "ops": run.lines[1:6], "impl": run.answers[1:6]})


def jac_before_outputs_pattern(cfg, run: Run) -> bool:
    """The history contains linearize(x0, execute=False) on a cache without entry for x0, then execute(x1), then
    execute(x2) with x1, x2 within t of x0 and x2 not within t of x1 (histogram only)."""
    t = fr(cfg["tol"])
    st = run.steps
    for i, a in enumerate(st):
        if a["op"][0] != "lin" or a["op"][2] or "x" not in a or st[i - 1]["op"][0] != "clear":
            continue
        for j in range(i + 1, len(st)):
            b = st[j]
            if b["op"][0] == "clear":
                break
            if b["op"][0] != "exec" or "x" not in b or b["x"] == a["x"] or not within(b["x"], a["x"], t):
                continue
            for c in st[j + 1 :]:
                if c["op"][0] == "clear":
                    break
                if c["op"][0] == "exec" and "x" in c and within(c["x"], a["x"], t) and not within(c["x"], b["x"], t):
                    return True
    return False


def load_corpus() -> list[tuple[dict, list]]:
    d = common.CORPUS_DIR / PID
    out = []
    if d.is_dir():
        for p in sorted(d.glob("*.json")):
            c = json.loads(p.read_text())
            out.append((c["cfg"], c["ops"]))
    return out


def exhaustive_small(kind: str, tol: str):
    """All histories of <= 4 ops over a reduced alphabet (one input of size 1, two values, one array
    modified in place) for one cache variant."""
    import itertools

    cfg = {
        "kind": kind, "tol": tol, "inputs": [["a", 1, None]], "outputs": [["y", 1]], "din": ["a"], "dout": ["y"],
        "sj": False, "A": {"y": [[2]]}, "b": {"y": [1]}, "q": {"y": [1]}, "sparse": [], "hash": "real",
    }
    v1, v2 = "1", ("9/8" if tol != "0" else "2")
    alphabet = [
        ["exec", {"a": 1}], ["exec", {"a": 2}], ["lin", "all", 1, {"a": 1}], ["lin", "all", 1, {"a": 2}],
        ["mut", 1, [v2]], ["mut", 1, [v1]], ["clear"],
    ]
    if kind == "hdf":
        alphabet.append(["reopen"])
    pre = [["new", 1, [v1]], ["new", 2, [v2]]]
    for n in range(1, 5):
        for combo in itertools.product(alphabet, repeat=n):
            yield cfg, pre + [copy.deepcopy(o) for o in combo]


def exhaustive_small_inplace(kind: str, tol: str):
    """All histories of <= 4 executions / modifications over a reduced alphabet for a body that advances
    its self-coupled input in place (`s += 1`) and returns that array as the output `s` (three caller
    arrays holding s0, s0 + 1, s0; the array of a call that misses is overwritten by the body)."""
    import itertools

    cfg = {
        "kind": kind, "tol": tol, "inputs": [["s", 1, None]], "outputs": [["y", 1], ["s", 1]], "din": ["s"], "dout": ["y"],
        "sj": False, "A": {"y": [[10]], "s": [[1]]}, "b": {"y": [10], "s": ["1"]}, "q": {"y": [0], "s": [0]}, "sparse": [],
        "hash": "real", "sym": False, "wr": {"s": ["1", "iadd"]}, "alias": {"s": ["s", "same"]},
    }
    alphabet = [["exec", {"s": 1}], ["exec", {"s": 2}], ["exec", {"s": 3}], ["mut", 1, ["1"]], ["mut", 3, ["2"]], ["clear"]]
    if kind == "hdf":
        alphabet.append(["reopen"])
    pre = [["new", 1, ["1"]], ["new", 2, ["2"]], ["new", 3, ["1"]]]
    for n in range(1, 5):
        for combo in itertools.product(alphabet, repeat=n):
            yield cfg, pre + [copy.deepcopy(o) for o in combo]


def exhaustive_small_forms(kind: str):
    """All histories of <= 3 calls over the forms of ONE input (a, b) = (1, 2) of a discipline whose default
    values are defined in the order b, a (every input defaulted as `execute()` / `{}`, `{a}`, `{b}`, `{b, a}`
    with the keys in that order, `linearize()`), another input, clear, reopen."""
    import itertools

    cfg = {
        "kind": kind, "tol": "0", "inputs": [["a", 1, ["1"]], ["b", 1, ["2"]]], "outputs": [["y", 1]], "din": ["a", "b"],
        "dout": ["y"], "sj": False, "A": {"y": [[1, 2]]}, "b": {"y": [0]}, "q": {"y": [1]}, "sparse": [], "hash": "real",
        "sym": False, "wr": {}, "alias": {}, "dorder": ["b", "a"],
    }
    plain = {"dict": "fresh", "junk": False}
    alphabet = [
        ["exec", {}, {**plain, "empty": "none"}], ["exec", {}, {**plain, "empty": "dict"}], ["exec", {"a": 1}, plain],
        ["exec", {"b": 2}, plain], ["exec", {"a": 1, "b": 2}, {**plain, "keys": ["b", "a"]}],
        ["lin", "all", 1, {}, {**plain, "empty": "none"}], ["lin", "all", 1, {"a": 1, "b": 2}, plain],
        ["exec", {"a": 3}, plain], ["clear"],
    ]
    if kind == "hdf":
        alphabet.append(["reopen"])
    pre = [["new", 1, ["1"]], ["new", 2, ["2"]], ["new", 3, ["5"]]]
    for n in range(1, 4):
        for combo in itertools.product(alphabet, repeat=n):
            yield cfg, pre + [copy.deepcopy(o) for o in combo]


def probe_returned_jacobian(res: Result) -> None:
    """Out-of-quantifier probe (information only): the caller modifies a *returned Jacobian* array."""
    cfg = {"kind": "simple", "tol": "0", "inputs": [["a", 1, None]], "outputs": [["y", 1]], "din": ["a"], "dout": ["y"],
           "sj": False, "A": {"y": [[2]]}, "b": {"y": [1]}, "q": {"y": [1]}, "sparse": [], "hash": "real"}
    affected = []
    for kind in ("simple", "mem", "shm", "hdf"):
        d, _info = make_disc({**cfg, "kind": kind}, kind)
        x = {"a": np.array([1.0])}
        j = d.linearize(x, compute_all_jacobians=True)
        j["y"]["a"][0, 0] = 99.0
        j2 = d.linearize({"a": np.array([1.0])}, compute_all_jacobians=True)
        ok = F(j2["y"]["a"][0, 0]) == 4
        j2["y"]["a"][0, 0] = 77.0  # the array handed out by a hit
        j3 = d.linearize({"a": np.array([1.0])}, compute_all_jacobians=True)
        if not (ok and F(j3["y"]["a"][0, 0]) == 4):
            affected.append(kind)
    res.count("probe-returned-jacobian-mutated", 4)
    res.notes.append(
        "out-of-scope probe: modifying a returned Jacobian array in place changes the cached Jacobian for: "
        + (", ".join(affected) or "no cache kind") + " (the Jacobian is cached and handed out by reference; outside the "
        "property's quantifier, which is about arrays the caller passed in)")


def run(ctx) -> Result:
    global _POOL
    res = Result(PID)
    res.rule = (
        "random call histories of 1-20 operations (execute, linearize all/differentiated subset with and without "
        "execution, in-place modification of caller arrays, output arrays kept and passed back, HDF5 reopen, clear) on a "
        "polynomial discipline with 1-4 inputs (some defaulted, optional self-coupled variable), 1-3 outputs, optional "
        "sparse Jacobian blocks, in ~30 % of the cases a body with side effects on its input arrays (in-place update "
        "`arr += k` / `arr[:] = ..` / `np.add(.., out=arr)` of the self-coupled and/or a plain input, an input array or "
        "a full view of it returned as an output; execute-only histories with repeated inputs, calls at the state an "
        "earlier call reached, the same arrays passed again), in ~25 % of the cases every input has a default value, the default values are defined in another order than the input names in ~60 % of the configurations with >= 2 defaults, a call passes nothing (`execute()`), `{}`, only extra keys, some or all of the inputs, with the keys of the dict in any order (scenario `forms`: one input in several forms), scenario `jac-near` (t > 0): Jacobian cached before any outputs at x0, then executions at x1, x2 within t of x0 but not of each other; for cache in {none, SimpleCache, MemoryFullCache shared/not shared, HDF5Cache}, tolerance in "
        "{0, 2^-10, 2^-3}, real or coarse (colliding) hash; a case is non-trivial when it has a cache and >= 2 calls; "
        "distinct by configuration line + protocol lines"
    )
    res.assumptions = [
        "in-scope histories: the caller modifies only arrays it created or arrays it has passed in as inputs (returned "
        "arrays never passed back, and returned Jacobian arrays, are probed only); linearize(execute=False) only right "
        "after an execution with the same input values; every input is passed or has a default",
        "bodies with side effects on their input arrays: they compute outputs (and Jacobian) from the call-time values, "
        "do not write into default arrays of the discipline, are executed but (when they write) not linearized in scope (the "
        "uncached twin itself linearizes such a body at the values its run left in the arrays), and get one array per input name; "
        "their twin is called with fresh arrays holding the input values of the cached discipline's calls",
        "the run-counter clause (at most one run per distinct input) is checked for full caches with exact matching (t = 0)",
        "within-tolerance witness: ||x - w|| <= t (1 + max(||x||, ||w||)) per input name (the documentation and the code "
        "disagree on the reference norm; the oracle accepts both)",
    ]
    rng = ctx.rng
    global _POOL_SIZE  # noqa: PLW0603
    _POOL_SIZE = int(os.environ.get("VERIF_C05_PROCS", 12 if ctx.thorough else 5))
    corpus = load_corpus()
    check_cases(res, corpus, rng)
    res.count("corpus", len(corpus))
    n = 8000 if ctx.thorough else 800
    batch_size = 1000 if ctx.thorough else 150
    done = 0
    import time

    while done < n and time.time() < ctx.deadline:
        batch = []
        for _ in range(min(batch_size, n - done)):
            batch.append(gen_case(rng))
        check_cases(res, batch, rng, parallel=True)
        done += len(batch)
    probe_returned_jacobian(res)
    # out-of-scope probe stream (never a violation)
    probe = []
    for _ in range(n // 10):
        cfg = gen_cfg(rng)
        probe.append((cfg, gen_ops(rng, cfg, rng.randint(3, 16), in_scope=False)))
    check_cases(res, probe, rng, in_scope=False, parallel=True)
    if ctx.thorough:
        for kind in ("simple", "mem", "shm", "hdf"):
            for tol in ("0", "1/8"):
                if time.time() > ctx.deadline:
                    break
                cases = list(exhaustive_small(kind, tol))
                for i in range(0, len(cases), 2400):
                    check_cases(res, cases[i : i + 2400], rng, parallel=True)
                res.count(f"exhaustive-{kind}-{tol}", len(cases))
            if time.time() > ctx.deadline:
                break
            cases = list(exhaustive_small_inplace(kind, "0"))
            for i in range(0, len(cases), 2400):
                check_cases(res, cases[i : i + 2400], rng, parallel=True)
            res.count(f"exhaustive-in-place-body-{kind}-0", len(cases))
            if kind in FULL and time.time() < ctx.deadline:
                cases = list(exhaustive_small_forms(kind))
                check_cases(res, cases, rng, parallel=True)
                res.count(f"exhaustive-call-forms-{kind}-0", len(cases))
        res.notes.append("exhaustive part: all histories of <= 4 operations over {execute/linearize on 2 arrays, in-place "
                         "modification, clear, reopen} for SimpleCache, MemoryFullCache (shared or not), HDF5Cache, t in {0, 1/8}; "
                         "and over {execute on 3 arrays, in-place modification, clear, reopen} for a body that advances its "
                         "self-coupled input in place and returns that array (t = 0); all histories of <= 3 operations over the call "
                         "forms of one input (execute(), {}, partially / fully explicit with the keys in another order, "
                         "linearize()) of a discipline whose defaults are defined in another order than its input names, for "
                         "the full caches (t = 0)")
    if _POOL is not None:
        _POOL.close()
        _POOL.join()
        _POOL = None
    return res


def replay(path: str) -> int:
    data = json.loads(open(path).read())
    rp = data.get("replay", data)
    cfg, ops = rp["cfg"], rp["ops"]
    run, bad = evaluate(cfg, ops)
    model = common.run_lean_driver(PID, run.lines)
    for line, a, m in zip(run.lines, run.answers, model):
        print(line)
        print("   impl :", a)
        if a != m:
            print("   MODEL:", m)
    for key, msg, _p in bad:
        print("ORACLE FAILS:", key, msg)
    return 1 if bad else 0
