"""Observation helpers of the C20 check: canonical views of disciplines, grammars, caches, problems,
and the identity-disjointness scan.  Everything here reads the PUBLIC API of the objects only
(the identity scan necessarily walks `__dict__`s, but only to compare object identities, never names).
"""

from __future__ import annotations

import enum
import io
import logging
import pickle
import types
from collections.abc import Mapping
from pathlib import Path
from typing import Any

import numpy as np

# --------------------------------------------------------------------------- canonical values


def canon(v: Any, depth: int = 0) -> Any:
    """A hashable/comparable canonical form: arrays by dtype/shape/bytes (NaN-safe, exact)."""
    if depth > 6:
        return ("deep", type(v).__name__)
    if isinstance(v, np.ndarray):
        return ("nd", str(v.dtype), tuple(v.shape), np.ascontiguousarray(v).tobytes())
    if hasattr(v, "toarray") and hasattr(v, "nnz"):  # scipy sparse
        a = np.asarray(v.toarray())
        return ("sp", str(a.dtype), tuple(a.shape), np.ascontiguousarray(a).tobytes())
    if isinstance(v, (np.generic,)):
        return ("ng", str(v.dtype), v.tobytes())
    if isinstance(v, float):
        return ("f", np.float64(v).tobytes())
    if isinstance(v, complex):
        return ("c", np.complex128(v).tobytes())
    if isinstance(v, (bool, int, str, bytes, type(None))):
        return v
    if isinstance(v, enum.Enum):
        return ("enum", type(v).__name__, v.name)
    if isinstance(v, Path):
        return ("path", str(v))
    if isinstance(v, Mapping):
        return ("map", tuple(sorted(((str(k), canon(x, depth + 1)) for k, x in v.items()), key=lambda t: t[0])))
    if isinstance(v, (list, tuple)):
        return ("seq", tuple(canon(x, depth + 1) for x in v))
    if isinstance(v, (set, frozenset)):
        return ("set", tuple(sorted((canon(x, depth + 1) for x in v), key=repr)))
    if hasattr(v, "model_dump"):
        try:
            return ("model", type(v).__name__, canon(v.model_dump(), depth + 1))
        except Exception:  # noqa: BLE001
            return ("obj", type(v).__name__)
    if isinstance(v, type):
        return ("type", v.__module__, v.__qualname__)
    if callable(v):
        return ("callable", getattr(v, "__qualname__", type(v).__name__))
    return ("obj", type(v).__name__)


def show(c: Any, limit: int = 160) -> str:
    """Readable rendering of a canonical value (arrays decoded)."""

    def dec(c):
        if isinstance(c, tuple) and c and c[0] in ("nd", "sp") and len(c) == 4:
            try:
                return np.frombuffer(c[3], dtype=c[1]).reshape(c[2]).tolist()
            except Exception:  # noqa: BLE001
                return "<array>"
        if isinstance(c, tuple) and c and c[0] == "f":
            return float(np.frombuffer(c[1], dtype=np.float64)[0])
        if isinstance(c, tuple) and c and c[0] == "map":
            return {k: dec(x) for k, x in c[1]}
        if isinstance(c, tuple) and c and c[0] in ("seq", "set"):
            return [dec(x) for x in c[1]]
        if isinstance(c, tuple):
            return tuple(dec(x) for x in c)
        return c

    s = repr(dec(c))
    return s if len(s) <= limit else s[: limit - 3] + "..."


# --------------------------------------------------------------------------- grammars


def grammar_view(g) -> dict[str, Any]:
    """Names, required names, defaults, namespaces and (where the grammar exposes them) types."""
    view: dict[str, Any] = {
        "class": type(g).__name__,
        "name": g.name,
        "names": tuple(sorted(g.names)),
        "required": tuple(sorted(g.required_names)),
        "defaults": canon(dict(g.defaults)),
        "to_namespaced": canon(dict(g.to_namespaced)),
        "from_namespaced": canon(dict(g.from_namespaced)),
    }
    types_: dict[str, Any] = {}
    cls = type(g).__name__
    try:
        if cls == "JSONGrammar":
            # (`to_json` rebuilds the schema without touching the lazily built `schema` dict and validator:
            #  viewing a grammar must not change what it would pickle)
            import json as _json

            schema = _json.loads(g.to_json())
            props = schema.get("properties", {})
            for n in g.names:
                types_[n] = canon(props.get(n, {}))
            view["schema_required"] = tuple(sorted(schema.get("required", [])))
        elif cls in ("SimpleGrammar", "SimplerGrammar"):
            for n in g.names:
                t = g[n]
                types_[n] = None if t is None else getattr(t, "__name__", repr(t))
        elif cls == "PydanticGrammar":
            for n in g.names:
                f = g[n]
                types_[n] = (repr(getattr(f, "annotation", None)), bool(f.is_required()))
    except Exception as e:  # noqa: BLE001
        types_["<error>"] = type(e).__name__
    view["types"] = canon(types_)
    return view


def schema_view(g) -> Any:
    """The `schema` property of a JSON grammar (reading it builds/refreshes the cached dict: use it only
    after the object has been serialized)."""
    if type(g).__name__ != "JSONGrammar":
        return None
    s = g.schema
    return canon({"properties": s.get("properties", {}), "required": sorted(s.get("required", []))})


def conforming_data(g) -> dict[str, Any]:
    """A value of the declared type for every name (public description only; an array of ones when unknown)."""
    import json as _json

    out: dict[str, Any] = {}
    cls = type(g).__name__
    props: dict[str, Any] = {}
    if cls == "JSONGrammar":
        try:
            props = _json.loads(g.to_json()).get("properties", {})
        except Exception:  # noqa: BLE001
            props = {}
    for n in g.names:
        v: Any = np.array([1.0])
        try:
            if cls == "JSONGrammar":
                p = props.get(n, {})
                t = p.get("type")
                if t == "array":
                    it = (p.get("items") or {}).get("type") if isinstance(p.get("items"), dict) else None
                    v = np.array([1, 2]) if it == "integer" else np.array(["s"]) if it == "string" else np.array([1.0])
                elif t == "integer":
                    v = 3
                elif t == "number":
                    v = 1.5
                elif t == "string":
                    v = "s"
                elif t == "boolean":
                    v = True
                elif t == "object":
                    v = {}
            elif cls in ("SimpleGrammar", "SimplerGrammar"):
                t = g[n]
                v = 3 if t is int else 1.5 if t is float else "s" if t is str else True if t is bool else {} if t is dict else np.array([1.0])
        except Exception:  # noqa: BLE001
            pass
        out[n] = v
    return out


def grammar_probe_data(g, rng) -> list[dict[str, Any]]:
    """A few data dicts to submit to `validate` (valid: the defaults; invalid: missing required, wrong type)."""
    base = {n: np.array([1.0]) for n in g.names}
    base.update(g.defaults)
    datas = [dict(g.defaults), dict(base)]
    names = sorted(g.names)
    some = names if len(names) <= 6 else sorted(rng.sample(names, 6))
    for n in some:  # is each name required?  (data complete but for that name)
        d = dict(base)
        d.pop(n, None)
        datas.append(d)
    # data conforming to the declared types (read from the public description of the grammar), then each name in
    # turn with a float, an integer, a float array: a value is accepted or not according to the type of the
    # element *and* to the dialect of the schema (an integer element accepts 1.0 or not)
    conf = conforming_data(g)
    datas.append(dict(conf))
    for n in some:
        for v in (np.array([1.0]), 1.0, 3, np.array([2])):
            d = dict(conf)
            d[n] = v
            datas.append(d)
    if names:
        n = names[rng.randrange(len(names))]
        d = dict(base)
        d.pop(n, None)
        datas.append(d)
        d = dict(base)
        d[n] = "a-string"
        datas.append(d)
        d = dict(base)
        d[n] = np.array([1.0, 2.0])
        datas.append(d)
        d = dict(base)
        d[n] = 3
        datas.append(d)
    return datas


def validate_outcome(g, data) -> str:
    from gemseo.core.grammars.errors import InvalidDataError

    try:
        g.validate(dict(data))
    except InvalidDataError:
        return "invalid"
    except Exception as e:  # noqa: BLE001
        return "E:" + type(e).__name__
    return "valid"


# --------------------------------------------------------------------------- caches


def cache_view(cache) -> Any:
    if cache is None:
        return None
    entries = []
    # (an empty HDF5Cache cannot be iterated: keep_open() closes a file that was never opened)
    for e in cache.get_all_entries() if len(cache) else ():
        entries.append((canon(dict(e.inputs)), canon(dict(e.outputs)), canon({k: dict(v) for k, v in (e.jacobian or {}).items()})))
    v: dict[str, Any] = {
        "class": type(cache).__name__,
        "name": cache.name,
        "tolerance": canon(cache.tolerance),
        "len": len(cache),
        "entries": tuple(sorted(entries, key=repr)),
    }
    if type(cache).__name__ == "HDF5Cache":
        v["file"] = str(cache.hdf_file.hdf_file_path)
        v["node"] = cache.hdf_node_path
    return v


# --------------------------------------------------------------------------- disciplines


def stats_view(d) -> dict[str, Any]:
    s = d.execution_statistics
    return {"n_executions": s.n_executions, "n_linearizations": s.n_linearizations, "duration": canon(s.duration)}


def discipline_view(d) -> dict[str, Any]:
    """The static public face of a discipline."""
    v: dict[str, Any] = {
        "class": type(d).__name__,
        "name": d.name,
        "input_grammar": grammar_view(d.io.input_grammar),
        "output_grammar": grammar_view(d.io.output_grammar),
        "status": str(d.execution_status.value),
        "stats": stats_view(d),
        "cache": cache_view(d.cache),
        "local_data": canon(dict(d.io.data)),
        "residual_to_state": canon(dict(d.io.residual_to_state_variable)),
    }
    if hasattr(d, "linearization_mode"):
        v["linearization_mode"] = str(d.linearization_mode)
        v["jac"] = canon({k: dict(x) for k, x in (d.jac or {}).items()}) if isinstance(d.jac, Mapping) else canon(d.jac)
    st = getattr(d, "settings", None)
    if st is not None and hasattr(st, "model_dump"):
        v["settings"] = canon(st.model_dump())
    for attr in ("residual_history", "normed_residual", "scaling", "matrix_type", "n_processes"):
        if hasattr(d, attr):
            try:
                v[attr] = canon(getattr(d, attr))
            except Exception as e:  # noqa: BLE001
                v[attr] = "E:" + type(e).__name__
    if type(d).__module__ == "harness.c20_disc" and hasattr(d, "n_run"):
        v["n_run"] = int(d.n_run)  # runs made in the calling process (harness discipline)
    if hasattr(d, "disciplines"):
        try:
            v["sub"] = tuple((type(s).__name__, s.name) for s in d.disciplines)
            v["sub_stats"] = tuple(canon(stats_view(s)) for s in d.disciplines)
        except Exception as e:  # noqa: BLE001
            v["sub"] = "E:" + type(e).__name__
    return v


def diff_views(a: Any, b: Any, path: str = "") -> list[str]:
    """Paths at which two views differ (first few)."""
    out: list[str] = []
    if isinstance(a, dict) and isinstance(b, dict):
        for k in sorted(set(a) | set(b), key=str):
            if k not in a or k not in b:
                out.append(f"{path}/{k}: only in {'original' if k in a else 'copy'}")
            else:
                out += diff_views(a[k], b[k], f"{path}/{k}")
            if len(out) > 6:
                break
        return out
    if a != b:
        out.append(f"{path}: original={show(a)} copy={show(b)}")
    return out


# --------------------------------------------------------------------------- identity-disjointness scan

_LEAF_TYPES = (
    type(None),
    bool,
    int,
    float,
    complex,
    str,
    bytes,
    type,
    types.ModuleType,
    types.FunctionType,
    types.BuiltinFunctionType,
    types.MethodType,
    types.MethodWrapperType,
    types.WrapperDescriptorType,
    types.MethodDescriptorType,
    types.GetSetDescriptorType,
    types.MemberDescriptorType,
    types.MappingProxyType,
    types.CodeType,
    enum.Enum,
    np.dtype,
    np.generic,
    logging.Logger,
    logging.Handler,
    property,
    staticmethod,
    classmethod,
    range,
    slice,
    Path,
)

# Modules whose objects are immutable values or process-wide services (never per-object state).
_SKIP_MODULE_PREFIXES = (
    "sympy",
    "mpmath",
    "re",
    "typing",
    "pydantic",
    "pydantic_core",
    "annotated_types",
    "multiprocessing",
    "threading",
    "_thread",
    "logging",
    "h5py",
    "fastjsonschema",
    "genson",
    "abc",
    "functools",
    "weakref",
    "numpy.random",
    "strenum",
)

# GEMSEO classes that are process-wide singletons by design.
_SINGLETON_CLASS_NAMES = {
    "HDF5FileSingleton",  # one handler per file path: the file-based cache stays attached to its file
}


def _is_factory(obj) -> bool:
    try:
        from gemseo.core.base_factory import BaseFactory

        return isinstance(obj, BaseFactory)
    except Exception:  # noqa: BLE001
        return False


def reachable_mutables(root: Any, limit: int = 200000) -> dict[int, tuple[str, Any]]:
    """ids of the mutable objects reachable from `root` through __dict__/__slots__/containers.

    Returns {id: (access path, object)}.
    """
    seen: dict[int, tuple[str, Any]] = {}
    visited: set[int] = set()
    stack: list[tuple[str, Any]] = [("", root)]
    while stack and len(visited) < limit:
        path, o = stack.pop()
        i = id(o)
        if i in visited:
            continue
        visited.add(i)
        if isinstance(o, _LEAF_TYPES):
            continue
        mod = getattr(type(o), "__module__", "") or ""
        if any(mod == p or mod.startswith(p + ".") for p in _SKIP_MODULE_PREFIXES):
            continue
        if type(o).__name__ in _SINGLETON_CLASS_NAMES or _is_factory(o):
            continue
        if isinstance(o, np.ndarray):
            if o.size:  # empty arrays carry no state
                seen[i] = (path, o)
            continue
        if isinstance(o, tuple):
            for k, x in enumerate(o):
                stack.append((f"{path}[{k}]", x))
            continue
        if isinstance(o, frozenset):
            continue
        if isinstance(o, dict):
            seen[i] = (path, o)
            for k, x in o.items():
                stack.append((f"{path}[{k!r}]", x))
                if not isinstance(k, _LEAF_TYPES):
                    stack.append((f"{path}<key>", k))
            continue
        if isinstance(o, (list, set)):
            seen[i] = (path, o)
            for k, x in enumerate(o):
                stack.append((f"{path}[{k}]", x))
            continue
        if isinstance(o, Mapping) and not hasattr(o, "__dict__"):
            continue
        d = getattr(o, "__dict__", None)
        slots = []
        for klass in type(o).__mro__:
            s = klass.__dict__.get("__slots__", ())
            slots += [s] if isinstance(s, str) else list(s)
        if d is None and not slots:
            continue
        seen[i] = (path, o)
        if isinstance(d, dict):
            for k, x in d.items():
                stack.append((f"{path}.{k}", x))
        for s in slots:
            if s in ("__dict__", "__weakref__"):
                continue
            try:
                stack.append((f"{path}.{s}", getattr(o, s)))
            except AttributeError:
                pass
        if isinstance(o, Mapping):
            try:
                for k, x in o.items():
                    stack.append((f"{path}[{k!r}]", x))
            except Exception:  # noqa: BLE001
                pass
    return seen


_GLOBAL_IDS: set[int] | None = None


def global_ids() -> set[int]:
    """ids of objects that are module globals or class attributes of loaded modules (not object state)."""
    global _GLOBAL_IDS
    import sys

    ids: set[int] = set()
    for name, mod in list(sys.modules.items()):
        if mod is None:
            continue
        d = getattr(mod, "__dict__", None)
        if not isinstance(d, dict):
            continue
        for v in list(d.values()):
            ids.add(id(v))
            if isinstance(v, type):
                for w in list(vars(v).values()):
                    ids.add(id(w))
    _GLOBAL_IDS = ids
    return ids


def shared_state(orig: Any, copy: Any) -> list[str]:
    """Access paths of mutable objects reachable from both the original and the restored object."""
    a = reachable_mutables(orig)
    b = reachable_mutables(copy)
    common = set(a) & set(b)
    if not common:
        return []
    g = global_ids()
    out = []
    for i in common:
        if i in g:
            continue
        pa, o = a[i]
        pb, _ = b[i]
        out.append(f"{type(o).__name__} at original{pa} is copy{pb}")
    return sorted(out)


# --------------------------------------------------------------------------- serializers


def roundtrip(obj: Any, serializer: str, tmp: Path, tag: str = "x") -> Any:
    """Serialize and restore with `pickle` (default protocol) or gemseo.utils.pickle (file, protocol 2)."""
    if serializer == "pickle":
        return pickle.loads(pickle.dumps(obj))
    if serializer == "pickle-highest":
        buf = io.BytesIO()
        pickle.dump(obj, buf, protocol=pickle.HIGHEST_PROTOCOL)
        return pickle.loads(buf.getvalue())
    from gemseo.utils.pickle import from_pickle
    from gemseo.utils.pickle import to_pickle

    p = Path(tmp) / f"{tag}.pkl"
    to_pickle(obj, p)
    return from_pickle(p)
