"""Helper of the C17 check: observe ONE process-parallel IDF configuration in a fresh interpreter.

``IDF(n_processes > 1, use_threading=False)`` forks at every discipline execution.  Forking the harness
process itself is not safe once it has run threads (thread-parallel IDF / MDAJacobi, the progress-bar
monitor of a DOE scenario): a lock held by another thread at the time of the fork stays locked for ever
in the child.  This module is run as ``python -m harness.c17_proc`` with a JSON ``{"case", "cfg"}`` on
stdin and prints the observation of :func:`harness.c17.observe_config` as JSON on the last line of stdout.

With ``{"mode": "opt", "case", "cfgs"}`` it runs the MDO scenarios of the optimisation stream instead, one result
line per configuration as soon as it is finished (SciPy's SLSQP can cycle for ever inside compiled code on a
degenerate problem; the harness kills this helper after a time-out and skips the unfinished configurations).

With ``{"mode": "check", "case", "only"}`` it evaluates the oracle on the case in this fresh interpreter (used to confirm
that a shrunk failing input reproduces without the history of the harness process).
"""

from __future__ import annotations

import json
import sys


def main() -> int:
    from harness import c17
    from harness import common

    common.quiet_gemseo()
    req = json.loads(sys.stdin.read())
    if req.get("mode") == "opt":
        for ck, settings in req["cfgs"]:
            result = c17.optimise_one(req["case"], settings)
            sys.stdout.write("\nC17-PROC-OPT " + json.dumps({"ck": ck, "result": result}) + "\n")
            sys.stdout.flush()
        return 0
    if req.get("mode") == "check":
        # the oracle on one case (restricted to some configurations) in this fresh interpreter: what a replay will see
        bad, _, _ = c17.check_one(req["case"], None, req.get("only"))
        sys.stdout.write("\nC17-PROC-CHECK " + json.dumps([[k, m[:600]] for k, m in bad]) + "\n")
        return 0
    case, cfg = req["case"], req["cfg"]
    obs = c17.observe_config(case, cfg, c17.float_points(case), in_process=True)
    for rec in obs.get("evals", []):
        rec.pop("raw", None)
    sys.stdout.write("\nC17-PROC-OBS " + json.dumps(obs) + "\n")
    return 0


if __name__ == "__main__":
    sys.exit(main())
