"""Helper of the C17 check: observe ONE process-parallel IDF configuration in a fresh interpreter.

``IDF(n_processes > 1, use_threading=False)`` forks at every discipline execution.  Forking the harness
process itself is not safe once it has run threads (thread-parallel IDF / MDAJacobi, the progress-bar
monitor of a DOE scenario): a lock held by another thread at the time of the fork stays locked for ever
in the child.  This module is run as ``python -m harness.c17_proc`` with a JSON ``{"case", "cfg"}`` on
stdin and prints the observation of :func:`harness.c17.observe_config` as JSON on the last line of stdout.
"""

from __future__ import annotations

import json
import sys


def main() -> int:
    from harness import c17
    from harness import common

    common.quiet_gemseo()
    req = json.loads(sys.stdin.read())
    case, cfg = req["case"], req["cfg"]
    obs = c17.observe_config(case, cfg, c17.float_points(case), in_process=True)
    for rec in obs.get("evals", []):
        rec.pop("raw", None)
    sys.stdout.write("\nC17-PROC-OBS " + json.dumps(obs) + "\n")
    return 0


if __name__ == "__main__":
    sys.exit(main())
