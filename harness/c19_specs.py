"""C19 — marginal specifications: generation, construction of the real GEMSEO objects, Lean keys,
and the independent reference law of each specification.

A specification (`MSpec`, JSON-able dict):
  {"cls": "SPUniformDistribution" | "OTDistribution/Gamma" | ...,
   "params": [[k, v], ...]}      v = "p/q" string, or true/false, or a transformation string
Parameter names: plain = keyword argument of the GEMSEO class; "#i" = i-th positional interfaced
parameter (OTDistribution); "$k" = interfaced keyword parameter k (SPDistribution).
"""

from __future__ import annotations

import math
from fractions import Fraction
from typing import Any

from harness import c19_ref as ref
from harness import common
from harness.common import rat

Fr = Fraction

SP_FAMILIES = ["Uniform", "Normal", "Triangular", "Exponential", "Beta", "Weibull", "LogNormal"]
OT_FAMILIES = [*SP_FAMILIES, "Dirac"]
SP_GENERIC = ["expon", "gamma", "gumbel_r", "logistic", "rayleigh", "norm", "uniform"]
OT_GENERIC = ["Exponential", "Gamma", "Gumbel", "Logistic", "Rayleigh", "Normal", "Uniform"]


def pval(v: Any) -> Any:
    """JSON value -> Python value (Fraction, bool or str)."""
    if isinstance(v, bool):
        return v
    if isinstance(v, str):
        try:
            return Fraction(v)
        except (ValueError, ZeroDivisionError):
            return v
    return Fraction(v)


def jval(v: Any) -> Any:
    if isinstance(v, bool):
        return v
    if isinstance(v, Fraction):
        return rat(v)
    return v


def lib_of(spec) -> str:
    return spec["cls"][:2]


def family_of(spec) -> str:
    cls = spec["cls"]
    if "/" in cls:
        return "Generic:" + cls.split("/", 1)[1]
    return cls[2:].removesuffix("Distribution")


def lean_key(spec) -> str:
    """Same string as `keyOf` of Driver/C19.lean (numeric and Boolean parameters only)."""
    parts = [spec["cls"]]
    for k, v in spec["params"]:
        v = pval(v)
        if isinstance(v, bool):
            v = Fraction(int(v))
        parts.append(f"{k}={rat(v)}")
    return "|".join(parts)


def build(spec):
    """The real GEMSEO distribution object of a specification (stand-alone, not via ParameterSpace)."""
    from gemseo.uncertainty.distributions.factory import DistributionFactory

    cls = spec["cls"]
    kwargs: dict[str, Any] = {}
    pos: dict[int, Any] = {}
    named: dict[str, Any] = {}
    for k, v in spec["params"]:
        v = pval(v)
        fv = v if isinstance(v, (bool, str)) else float(v)
        if k.startswith("#"):
            pos[int(k[1:])] = fv
        elif k.startswith("$"):
            named[k[1:]] = fv
        else:
            kwargs[k] = fv
    if "/" in cls:
        cls, interfaced = cls.split("/", 1)
        kwargs["interfaced_distribution"] = interfaced
        if pos:
            kwargs["parameters"] = tuple(pos[i] for i in sorted(pos))
        elif named:
            kwargs["parameters"] = named
    return DistributionFactory().get_class(cls)(**kwargs)


def law_of(spec) -> ref.Law:
    """Independent reference law of a specification."""
    fam = family_of(spec)
    p = {k: pval(v) for k, v in spec["params"]}
    opts = {k: p.pop(k) for k in ("transformation", "lower_bound", "upper_bound", "threshold") if k in p}
    if fam.startswith("Generic:"):
        name = fam.split(":", 1)[1]
        if lib_of(spec) == "SP":
            q = {k[1:]: v for k, v in p.items()}
            loc, scale = q.get("loc", Fr(0)), q.get("scale", Fr(1))
            law = {
                "expon": lambda: ref.exponential(1 / scale, loc),
                "gamma": lambda: ref.gamma(q["a"], 1 / scale, loc),
                "gumbel_r": lambda: ref.gumbel(loc, scale),
                "logistic": lambda: ref.logistic(loc, scale),
                "rayleigh": lambda: ref.rayleigh(loc, scale),
                "norm": lambda: ref.normal(loc, scale),
                "uniform": lambda: ref.uniform(loc, loc + scale),
            }[name]()
        else:
            a = [p[f"#{i}"] for i in range(len(p))]
            law = {
                "Exponential": lambda: ref.exponential(a[0], a[1]),
                "Gamma": lambda: ref.gamma(a[0], a[1], a[2]),
                "Gumbel": lambda: ref.gumbel(a[1], a[0]),
                "Logistic": lambda: ref.logistic(a[0], a[1]),
                "Rayleigh": lambda: ref.rayleigh(a[1], a[0]),
                "Normal": lambda: ref.normal(a[0], a[1]),
                "Uniform": lambda: ref.uniform(a[0], a[1]),
            }[name]()
    else:
        law = ref.law_of(fam, p)
    tr = opts.get("transformation")
    if tr:
        a, b = parse_affine(tr)
        law = law.affine(float(a), float(b))
        # OpenTURNS integrates the moments of a CompositeDistribution numerically: bound B24
        law.numeric_moments = True
        law.moment_error = 0.0
        law.composite = True
        law.derived = True
    if "lower_bound" in opts or "upper_bound" in opts:
        composite = getattr(law, "composite", False)
        law = ref.truncated(law, opts.get("lower_bound"), opts.get("upper_bound"))
        law.derived = True
        law.composite = composite
    return law


def parse_affine(tr: str) -> tuple[Fraction, Fraction]:
    """Transformations generated by this harness: `a*x+b` with rational a (non-zero), b."""
    s = tr.replace(" ", "")
    a, rest = s.split("*x")
    b = rest[1:] if rest.startswith("+") else rest
    return Fraction(a), Fraction(b or "0")


# --------------------------------------------------------------------------- generation


def _dy(rng, lo=-4, hi=4, den_pow=2) -> Fraction:
    return rng.dyadic(lo, hi, den_pow)


def gen_family_params(rng: common.Rng, fam: str, with_defaults: bool = True) -> list[list[Any]]:
    """Admissible dyadic constructor arguments of a family, in the order of the signature."""
    pos = [Fr(1, 4), Fr(1, 2), Fr(1), Fr(2), Fr(3), Fr(5)]
    if fam == "Uniform":
        a = _dy(rng)
        out = [["minimum", a], ["maximum", a + rng.pick(pos)]]
    elif fam == "Normal":
        out = [["mu", _dy(rng)], ["sigma", rng.pick(pos)]]
    elif fam == "Triangular":
        a, w = _dy(rng), rng.pick(pos)
        t = rng.pick([Fr(1, 8), Fr(1, 4), Fr(1, 2), Fr(3, 4), Fr(7, 8), Fr(1, 2)])
        out = [["minimum", a], ["mode", a + w * t], ["maximum", a + w]]
    elif fam == "Exponential":
        out = [["rate", rng.pick([Fr(1, 4), Fr(1, 2), Fr(1), Fr(2), Fr(4), Fr(3)])], ["loc", _dy(rng)]]
    elif fam == "Beta":
        sh = [Fr(1), Fr(3, 2), Fr(2), Fr(3), Fr(5)]
        a = _dy(rng)
        out = [["alpha", rng.pick(sh)], ["beta", rng.pick(sh)], ["minimum", a], ["maximum", a + rng.pick(pos)]]
    elif fam == "Weibull":
        out = [
            ["location", _dy(rng)],
            ["scale", rng.pick([Fr(1, 2), Fr(1), Fr(2), Fr(3)])],
            ["shape", rng.pick([Fr(1), Fr(3, 2), Fr(2), Fr(3), Fr(5)])],
            ["use_weibull_min", rng.chance(0.6)],
        ]
    elif fam == "LogNormal":
        loc = _dy(rng, -2, 2)
        if rng.chance(0.5):
            out = [["mu", _dy(rng, -1, 1)], ["sigma", rng.pick([Fr(1, 4), Fr(1, 2), Fr(1)])], ["location", loc], ["set_log", True]]
        else:
            out = [
                ["mu", loc + rng.pick([Fr(1, 2), Fr(1), Fr(2), Fr(3)])],
                ["sigma", rng.pick([Fr(1, 4), Fr(1, 2), Fr(1), Fr(2)])],
                ["location", loc],
                ["set_log", False],
            ]
    elif fam == "Dirac":
        out = [["variable_value", _dy(rng)]]
    else:
        raise KeyError(fam)
    if with_defaults and rng.chance(0.12):
        # a documented default for the trailing arguments (kept admissible)
        keep = rng.randint(0, len(out) - 1)
        trial = out[:keep]
        if admissible(fam, trial):
            out = trial
    return [[k, jval(v)] for k, v in out]


def admissible(fam: str, params: list[list[Any]]) -> bool:
    """Whether the arguments (completed with the documented defaults) define a proper law."""
    p = {k: pval(v) for k, v in params}
    if fam == "Uniform":
        return p.get("minimum", 0) < p.get("maximum", 1)
    if fam == "Triangular":
        a, m, b = p.get("minimum", 0), p.get("mode", Fr(1, 2)), p.get("maximum", 1)
        return a < m < b
    if fam == "Beta":
        return p.get("minimum", 0) < p.get("maximum", 1)
    if fam == "LogNormal":
        if p.get("set_log", False):
            return True
        return p.get("mu", 1) > p.get("location", 0)
    return True


def gen_generic_params(rng: common.Rng, lib: str, name: str) -> list[list[Any]]:
    loc = _dy(rng, -2, 2)
    scale = rng.pick([Fr(1, 2), Fr(1), Fr(2), Fr(3)])
    shape = rng.pick([Fr(1), Fr(3, 2), Fr(2), Fr(3)])
    if lib == "SP":
        out = {
            "expon": [["$loc", loc], ["$scale", scale]],
            "gamma": [["$a", shape], ["$loc", loc], ["$scale", scale]],
            "gumbel_r": [["$loc", loc], ["$scale", scale]],
            "logistic": [["$loc", loc], ["$scale", scale]],
            "rayleigh": [["$loc", loc], ["$scale", scale]],
            "norm": [["$loc", loc], ["$scale", scale]],
            "uniform": [["$loc", loc], ["$scale", scale]],
        }[name]
    else:
        out = {
            "Exponential": [["#0", scale], ["#1", loc]],
            "Gamma": [["#0", shape], ["#1", scale], ["#2", loc]],
            "Gumbel": [["#0", scale], ["#1", loc]],
            "Logistic": [["#0", loc], ["#1", scale]],
            "Rayleigh": [["#0", scale], ["#1", loc]],
            "Normal": [["#0", loc], ["#1", scale]],
            "Uniform": [["#0", loc], ["#1", loc + scale]],
        }[name]
    return [[k, jval(v)] for k, v in out]


def gen_truncation(rng: common.Rng, base_spec) -> list[list[Any]]:
    """Truncation bounds strictly inside the support, keeping at least ~40 % of the mass."""
    law = law_of(base_spec)
    side = rng.pick(["lower", "upper", "both"])
    lo = hi = None
    if side in ("lower", "both"):
        lo = Fraction(round(law.icdf(rng.pick([0.1, 0.2, 0.3])) * 8), 8)
    if side in ("upper", "both"):
        hi = Fraction(round(law.icdf(rng.pick([0.7, 0.8, 0.9])) * 8), 8)
    # boundary value of the option: a bound equal to 0.0 (a falsy number) whenever 0 is an admissible
    # bound for the drawn side(s)
    if rng.chance(0.6):
        c0 = law.cdf(0.0)
        one_sided = rng.chance(0.7)
        if 0.02 <= c0 <= 0.5 and (lo is not None or one_sided):
            lo = Fraction(0)
            hi = None if one_sided else hi
        elif 0.5 <= c0 <= 0.98 and (hi is not None or one_sided):
            hi = Fraction(0)
            lo = None if one_sided else lo
    if lo is not None and law.lb is not None and lo <= law.lb:
        lo = None
    if hi is not None and law.ub is not None and hi >= law.ub:
        hi = None
    if lo is not None and hi is not None and not (law.cdf(float(hi)) - law.cdf(float(lo)) >= 0.3):
        hi = None
    if lo is not None and not (law.cdf(float(lo)) <= 0.5):
        lo = None
    if hi is not None and not (law.cdf(float(hi)) >= 0.5):
        hi = None
    out = []
    if lo is not None:
        out.append(["lower_bound", jval(lo)])
    if hi is not None:
        out.append(["upper_bound", jval(hi)])
    return out


def gen_spec(rng: common.Rng, lib: str, options: bool = True, numeric_only: bool = False, family: str | None = None):
    """A random admissible specification of library `lib`.

    numeric_only: only numeric/Boolean parameters (usable on a Lean protocol line).
    """
    fams = SP_FAMILIES if lib == "SP" else OT_FAMILIES
    if family is None:
        family = rng.pick([*fams, *fams, "Generic"])
    if family == "Generic":
        name = rng.pick(SP_GENERIC if lib == "SP" else OT_GENERIC)
        spec = {"cls": f"{lib}Distribution/{name}", "params": gen_generic_params(rng, lib, name)}
    else:
        spec = {"cls": f"{lib}{family}Distribution", "params": gen_family_params(rng, family)}
    if lib == "OT" and options and family != "Dirac":
        if not numeric_only and rng.chance(0.15):
            a = rng.pick([Fr(2), Fr(1, 2), Fr(-1), Fr(-2), Fr(3)])
            b = rng.pick([Fr(0), Fr(1), Fr(-1, 2)])
            spec["params"].append(["transformation", f"{rat(a) if a.denominator == 1 else float(a)}*x+{rat(b) if b.denominator == 1 else float(b)}"])
        if rng.chance(0.3):
            spec["params"] += gen_truncation(rng, spec)
    return spec


def twin(spec, lib: str):
    """The specification of the same documented law in the other library (family classes only)."""
    cls = spec["cls"]
    if "/" in cls or family_of(spec) == "Dirac":
        return None
    params = [kv for kv in spec["params"] if kv[0] not in ("transformation", "lower_bound", "upper_bound", "threshold")]
    return {"cls": lib + cls[2:], "params": params}


def raw_scipy(spec):
    """`scipy.stats` frozen law of the *independently computed* SciPy parametrisation of a family
    (used only to attribute a non-finite library answer to SciPy itself)."""
    import scipy.stats as st

    fam = family_of(spec)
    p = {k: pval(v) for k, v in spec["params"]}
    f = float
    if fam == "Uniform":
        a, b = p.get("minimum", 0), p.get("maximum", 1)
        return st.uniform(loc=f(a), scale=f(b - a))
    if fam == "Normal":
        return st.norm(loc=f(p.get("mu", 0)), scale=f(p.get("sigma", 1)))
    if fam == "Triangular":
        a, m, b = p.get("minimum", 0), p.get("mode", Fr(1, 2)), p.get("maximum", 1)
        return st.triang(c=f((m - a) / (b - a)), loc=f(a), scale=f(b - a))
    if fam == "Exponential":
        return st.expon(loc=f(p.get("loc", 0)), scale=f(1 / Fr(p.get("rate", 1))))
    if fam == "Beta":
        a, b = p.get("minimum", 0), p.get("maximum", 1)
        return st.beta(f(p.get("alpha", 2)), f(p.get("beta", 2)), loc=f(a), scale=f(b - a))
    if fam == "Weibull":
        g = st.weibull_min if p.get("use_weibull_min", True) else st.weibull_max
        return g(f(p.get("shape", 1)), loc=f(p.get("location", 0)), scale=f(p.get("scale", 1)))
    return None


def fnum(x) -> float:
    return float(x)


def is_inf(x) -> bool:
    return isinstance(x, float) and math.isinf(x)
