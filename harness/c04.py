"""C04 — the reported optimum is the best point of the recorded history.

Correspondence: random recorded histories are stored in a real OptimizationProblem database;
`history.optimum`, `feasible_points`, `check_design_point_is_feasible`, `last_point`,
`OptimizationResult.from_optimization_problem` and `compute_pareto_optimal_points` are
observed and compared with the Lean model (Driver/C04.lean) line by line.
Oracle: an independent re-implementation of the selection rule *from the property text*
over `Fraction` (not from the code, not from the model).
"""

from __future__ import annotations

import itertools
import json
import math
import re
from fractions import Fraction
from typing import Any

import numpy as np

from harness import common
from harness.common import F
from harness.common import Result
from harness.common import rat
from harness.common import rats

PID = "C04"

TRUSTED_EXTRA = (
    "C04: Database.store/items/get_iteration are used as the recording substrate (covered by C01/C11)",
    "C04: vector objectives are compared by squared norm in the model (theorem Key.lt_iff ties it to the norm order)",
)

# --------------------------------------------------------------------------- case generation
# A case is a plain dict (JSON-able):
#  {"obj_dim": 1|2, "minimize": bool, "standardized": bool, "tol_eq": "p/q", "tol_in": "p/q",
#   "cstrs": [[name, "e"|"i", dim], ...],
#   "hist": [{"x": [ints], "outs": {name: [rats] | "nan" | (absent)}, "scalar": {name: bool}}]}


def gen_case(rng: common.Rng, in_scope: bool = True) -> dict[str, Any]:
    n_c = rng.pick([0, 1, 1, 2, 2, 3])
    cstrs = []
    for k in range(n_c):
        cstrs.append([f"g{k}", rng.pick(["e", "i"]), rng.pick([1, 1, 2])])
    obj_dim = rng.pick([1, 1, 1, 2])
    tol_eq = rng.pick([Fraction(0), Fraction(1, 8), Fraction(1, 2), Fraction(1)])
    tol_in = rng.pick([Fraction(0), Fraction(1, 8), Fraction(1, 2), Fraction(-1, 4)])
    n = rng.pick([0, 1, 2, 3, 4, 5, 6, 8, 10, 12])
    style = rng.pick(["mixed", "mixed", "all-infeasible", "mostly-feasible", "partial"])
    grid = [Fraction(k, 2) for k in range(-4, 5)]
    pts = set()
    hist = []
    while len(hist) < n:
        x = (rng.randint(-3, 3), rng.randint(-3, 3))
        if hist and rng.chance(0.15):
            # a point nearly coincident with an earlier one (late iterates, finite-difference probes): another point
            px = hist[rng.randrange(len(hist))]["x"]
            x = (float(px[0]) + rng.pick([1, -1]) * 2.0**-30, px[1])  # exact in binary64, JSON-serialisable
        if x in pts:
            continue
        pts.add(x)
        outs: dict[str, Any] = {}
        scalar: dict[str, bool] = {}
        p_missing = {"mixed": 0.2, "all-infeasible": 0.1, "mostly-feasible": 0.05, "partial": 0.45}[style]
        if not rng.chance(p_missing):
            if rng.chance(0.06):
                outs["f"] = "nan"
            else:
                outs["f"] = [rat(rng.pick(grid)) for _ in range(obj_dim)]
            scalar["f"] = obj_dim == 1 and rng.chance(0.5)
        stop = False
        for name, ty, dim in cstrs:
            if stop and in_scope:
                continue
            if rng.chance(p_missing * 0.6):
                stop = True
                continue
            if rng.chance(0.05):
                outs[name] = "nan"
                continue
            tol = tol_eq if ty == "e" else tol_in
            vals = []
            for _ in range(dim):
                mode = rng.random()
                if style == "all-infeasible":
                    v = tol + rng.pick([Fraction(1, 2), Fraction(1), Fraction(3, 2), Fraction(2)])
                    if ty == "e" and rng.chance(0.5):
                        v = -v
                elif style == "mostly-feasible" and mode < 0.85:
                    v = tol - rng.pick([Fraction(0), Fraction(1, 2), Fraction(1)]) if ty == "i" else rng.pick([tol, -tol, Fraction(0)])
                elif mode < 0.25:
                    v = tol  # exactly on the tolerance boundary
                    if ty == "e" and rng.chance(0.5):
                        v = -v
                else:
                    v = rng.pick(grid)
                vals.append(rat(v))
            if style == "all-infeasible" and dim > 1 and rng.chance(0.5):
                vals[0] = rat(Fraction(0))  # one satisfied component, one violated
            outs[name] = vals
            scalar[name] = dim == 1 and rng.chance(0.5)
        hist.append({"x": list(x), "outs": outs, "scalar": scalar})
    case = {
        "obj_dim": obj_dim,
        "minimize": rng.chance(0.6),
        "standardized": rng.chance(0.4),
        "tol_eq": rat(tol_eq),
        "tol_in": rat(tol_in),
        "cstrs": cstrs,
        "hist": hist,
    }
    # "At any time": the solution is also queried WHILE the history is being recorded (after every store, and
    # between the store of the objective and the store of the other outputs of the same point, as an
    # evaluation in progress does); what is observed at the end must still be the answer for the final history.
    if rng.chance(0.5):
        case["queries_between"] = True
        for e in hist:
            if rng.chance(0.5):
                e["split"] = rng.pick(["f-first", "f-last", "one-by-one"])
            # "within the tolerances": the tolerances in force when the solution is asked for. While the history
            # is being recorded they are changed (and the solution queried under them), then set back.
            if rng.chance(0.3):
                e["tolflip"] = [rat(rng.pick([Fraction(0), Fraction(1, 4), Fraction(2), Fraction(5)])),
                                rat(rng.pick([Fraction(0), Fraction(1, 4), Fraction(2), Fraction(5)]))]
    return case


def case_line(case: dict[str, Any]) -> str:
    cs = ",".join(f"{n}:{t}" for n, t, _ in case["cstrs"]) or "[]"
    parts = [f"hist f {case['tol_eq']} {case['tol_in']} {cs}"]
    for e in case["hist"]:
        toks = ["x=" + rats(e["x"])]
        for name, v in e["outs"].items():
            toks.append(f"{name}=" + ("nan" if v == "nan" else ",".join(v)))
        parts.append(" ".join(toks))
    return " | ".join(parts)


# --------------------------------------------------------------------------- implementation


def build_problem(case: dict[str, Any]):
    from gemseo.algos.design_space import DesignSpace
    from gemseo.algos.optimization_problem import OptimizationProblem
    from gemseo.core.mdo_functions.mdo_function import MDOFunction

    ds = DesignSpace()
    ds.add_variable("x", size=2, lower_bound=-10.0, upper_bound=10.0, value=0.0)
    pb = OptimizationProblem(ds)
    pb.objective = MDOFunction(lambda x: np.zeros(case["obj_dim"]), "f", dim=case["obj_dim"])
    if not case["minimize"]:
        # the objective becomes "-f"; we record under the standardized name below
        pb.minimize_objective = False
    for name, ty, dim in case["cstrs"]:
        fn = MDOFunction(lambda x, d=dim: np.zeros(d), name)
        pb.add_constraint(
            fn,
            constraint_type=MDOFunction.ConstraintType.EQ if ty == "e" else MDOFunction.ConstraintType.INEQ,
        )
    pb.tolerances.equality = float(Fraction(case["tol_eq"]))
    pb.tolerances.inequality = float(Fraction(case["tol_in"]))
    pb.use_standardized_objective = bool(case["standardized"])
    pb.preprocess_functions(is_function_input_normalized=False)
    obj_db_name = pb.objective.name
    between = bool(case.get("queries_between"))
    for e in case["hist"]:
        vals = {}
        for name, v in e["outs"].items():
            key = obj_db_name if name == "f" else name
            if v == "nan":
                arr = np.array([float("nan")])
                vals[key] = float("nan") if e["scalar"].get(name) else arr
            else:
                fl = [float(Fraction(t)) for t in v]
                vals[key] = fl[0] if e["scalar"].get(name) else np.array(fl)
        x = np.array(e["x"], dtype=float)
        split = e.get("split") if between else None
        flipped = bool(between and e.get("tolflip"))
        if flipped:
            # other tolerances are in force while this point is recorded and queried (possibly the very first
            # feasibility query made on the problem), and are set back afterwards
            pb.tolerances.equality = float(Fraction(e["tolflip"][0]))
            pb.tolerances.inequality = float(Fraction(e["tolflip"][1]))
        if split and len(vals) > 1:
            names = list(vals)
            if split == "f-first" and obj_db_name in vals:
                groups = [[obj_db_name], [n for n in names if n != obj_db_name]]
            elif split == "f-last" and obj_db_name in vals:
                groups = [[n for n in names if n != obj_db_name], [obj_db_name]]
            else:
                groups = [[n] for n in names]
            for g in groups:
                pb.database.store(x, {n: vals[n] for n in g})
                _query_solution(pb)
        else:
            pb.database.store(x, vals)
            if between:
                _query_solution(pb)
        if flipped:
            _query_solution(pb)
            pb.tolerances.equality = float(Fraction(case["tol_eq"]))
            pb.tolerances.inequality = float(Fraction(case["tol_in"]))
            _query_solution(pb)
    return pb, obj_db_name


def _query_solution(pb) -> None:
    """Every public way of asking for the current solution (results discarded: these are the queries a
    progress display, a stop criterion or a user makes while the run is going on)."""
    from gemseo.algos.optimization_result import OptimizationResult

    h = pb.history
    for q in (
        lambda: h.optimum,
        lambda: h.feasible_points,
        lambda: h.last_point,
        lambda: OptimizationResult.from_optimization_problem(pb),
        lambda: pb.optimum,
    ):
        try:
            q()
        except Exception:  # noqa: BLE001, S110
            pass


def find_index(case, x) -> str:
    if x is None:
        return "None"
    x = np.asarray(x)
    if x.size == 0:
        return "_"
    for i, e in enumerate(case["hist"]):
        if list(x) == [float(t) for t in e["x"]]:
            return str(i)
    return "?"


def impl_observe(case: dict[str, Any]) -> dict[str, Any]:
    """Observable behaviour of the real code on the case."""
    from gemseo.algos.optimization_result import OptimizationResult

    pb, obj_db_name = build_problem(case)
    obs: dict[str, Any] = {}
    hist = case["hist"]
    try:
        sol = pb.history.optimum
    except ValueError:
        obs["line"] = "opt=E"
        obs["empty"] = True
        try:
            res = OptimizationResult.from_optimization_problem(pb)
            obs["res_ok"] = res is not None and res.x_opt is None
        except Exception as e:  # noqa: BLE001
            obs["res_exc"] = common.exc_class(e)
        return obs
    f_opt, x_opt, is_feas, c_opt, c_grad = sol
    oi = find_index(case, x_opt)
    obs["opt_idx"] = oi
    obs["opt_feas"] = bool(is_feas)
    obs["f_opt"] = f_opt
    obs["c_opt"] = c_opt
    fx, _ = pb.history.feasible_points
    fidx = {find_index(case, x) for x in fx}
    fp = "".join("1" if str(i) in fidx else "0" for i in range(len(hist))) or "[]"
    chk = []
    viol = []
    for e in hist:
        ok, v = pb.history.check_design_point_is_feasible(np.array(e["x"], dtype=float))
        chk.append("1" if ok else "0")
        viol.append("inf" if (isinstance(v, float) and math.isinf(v)) or (not isinstance(v, float) and np.isinf(v)) else rat(float(v)))
    last = pb.history.last_point
    obs["last_idx"] = find_index(case, last.design)
    obs["line"] = (
        f"opt={oi} feas={1 if is_feas else 0} last={1 if last.is_feasible else 0} "
        f"fp={fp} chk={''.join(chk) or '[]'} viol={';'.join(viol)}"
    )
    try:
        res = OptimizationResult.from_optimization_problem(pb)
        obs["res"] = {
            "x_idx": find_index(case, res.x_opt),
            "f_opt": res.f_opt,
            "is_feasible": bool(res.is_feasible),
            "optimum_index": res.optimum_index,
            "constraint_values": res.constraint_values,
        }
    except Exception as e:  # noqa: BLE001
        obs["res_exc"] = common.exc_class(e) + ": " + repr(e)[:80]
    return obs


# --------------------------------------------------------------------------- oracle (property text)


def _vals(v):
    return None if v is None else ("nan" if v == "nan" else [Fraction(t) for t in v])


def oracle(case: dict[str, Any], obs: dict[str, Any]) -> list[tuple[str, str]]:
    """Return the list of (key, message) of property clauses violated by the implementation."""
    bad: list[tuple[str, str]] = []
    hist = case["hist"]
    teq, tin = Fraction(case["tol_eq"]), Fraction(case["tol_in"])
    if not hist:
        if not obs.get("empty"):
            bad.append(("empty-history", "empty history did not raise/return the default"))
        if "res_exc" in obs or not obs.get("res_ok", False):
            bad.append(("empty-history-result", "from_optimization_problem on an empty history did not return the default result"))
        return bad
    if obs.get("empty"):
        return [("nonempty-raised", "optimum raised on a non-empty history")]

    def sat(ty, vals):
        if vals == "nan" or vals is None:
            return False
        return all((abs(c) <= teq) if ty == "e" else (c <= tin) for c in vals)

    def feasible(e):
        return all(sat(ty, _vals(e["outs"].get(name))) for name, ty, _ in case["cstrs"])

    def measure(e):
        """Documented violation measure over the recorded constraint values; inf on NaN."""
        tot = Fraction(0)
        for name, ty, _ in case["cstrs"]:
            v = _vals(e["outs"].get(name))
            if v is None:
                continue
            if v == "nan":
                return math.inf
            for c in v:
                if ty == "e":
                    tot += max(abs(c) - teq, 0) ** 2
                else:
                    tot += max(c - tin, 0) ** 2
        return tot

    def objval(e):
        """Standardized objective as an orderable key: scalar, or squared norm for vectors (>=0)."""
        v = _vals(e["outs"].get("f"))
        if v is None or v == "nan":
            return None
        return v

    def strictly_less(a, b):
        # compare as the real numbers they denote; vectors by Euclidean norm
        if len(a) == 1 and len(b) == 1:
            return a[0] < b[0]
        na = sum(c * c for c in a) if len(a) != 1 else None
        nb = sum(c * c for c in b) if len(b) != 1 else None
        if na is not None and nb is not None:
            return na < nb
        raise AssertionError("mixed objective dimensions are not generated")

    feas = [feasible(e) for e in hist]
    idx = obs["opt_idx"]
    if any(feas):
        if not obs["opt_feas"]:
            bad.append(("feasible-exists-flag", "a recorded point is feasible but the solution is flagged infeasible"))
        cands = [i for i, e in enumerate(hist) if feas[i] and objval(e) is not None]
        if idx in ("_", "?", "None"):
            if cands:
                bad.append(("feasible-not-reported", "a feasible point with an objective value exists but no recorded point is reported"))
            else:
                bad.append(("feasible-without-objective", "feasible points exist (none with an objective value) but the reported point is not a recorded point"))
        else:
            i = int(idx)
            if not feas[i]:
                bad.append(("reported-infeasible", f"reported point {i} is not feasible although feasible points exist"))
            elif cands:
                oi = objval(hist[i])
                if oi is None:
                    bad.append(("reported-without-objective", f"reported point {i} has no objective while feasible points with objective exist"))
                else:
                    for j in cands:
                        if strictly_less(objval(hist[j]), oi):
                            bad.append(("not-minimal", f"feasible point {j} has a strictly smaller objective than reported point {i}"))
                            break
    else:
        if obs["opt_feas"]:
            bad.append(("infeasible-flag", "no recorded point is feasible but the solution is flagged feasible"))
        if idx in ("_", "?", "None"):
            bad.append(("infeasible-not-reported", "no recorded point is reported in the infeasible case"))
        else:
            i = int(idx)
            m = [measure(e) for e in hist]
            if not (m[i] <= min(m)):
                bad.append(("not-least-infeasible", f"reported point {i} has violation {m[i]} > minimal {min(m)}"))
    # fields of the very same entry
    if idx not in ("_", "?", "None"):
        e = hist[int(idx)]
        ov = _vals(e["outs"].get("f"))
        f_opt = obs["f_opt"]
        if ov is None:
            if f_opt is not None and not (isinstance(f_opt, float) and math.isinf(f_opt)):
                bad.append(("fopt-mismatch", "objective reported for a point without a recorded objective"))
        elif ov == "nan":
            pass
        else:
            got = None if f_opt is None else np.atleast_1d(np.asarray(f_opt, dtype=float))
            if len(ov) == 1:
                ok = got is not None and got.size == 1 and math.isfinite(got[0]) and F(got[0]) == ov[0]
            else:
                # vector objective: the code reports the norm when feasible, the vector otherwise
                ok = got is not None and (
                    (got.size == len(ov) and all(math.isfinite(g) and F(g) == o for g, o in zip(got, ov)))
                    or (got.size == 1 and math.isfinite(got[0]) and abs(F(got[0]) ** 2 - sum(c * c for c in ov)) <= Fraction(1, 2**30))
                )
            if not ok:
                bad.append(("fopt-mismatch", f"reported objective {f_opt!r} is not the one recorded at the reported point {ov}"))
        c_opt = obs["c_opt"] or {}
        for name, _, _ in case["cstrs"]:
            rec = _vals(e["outs"].get(name))
            got = c_opt.get(name)
            if rec is None:
                if got is not None:
                    bad.append(("copt-mismatch", f"constraint {name} reported but not recorded"))
            elif rec == "nan":
                if got is None or not np.isnan(np.atleast_1d(got)).any():
                    bad.append(("copt-mismatch", f"constraint {name}: NaN recorded, {got!r} reported"))
            else:
                g = None if got is None else np.atleast_1d(np.asarray(got, dtype=float))
                if g is None or g.size != len(rec) or not all(math.isfinite(a) and F(a) == b for a, b in zip(g, rec)):
                    bad.append(("copt-mismatch", f"constraint {name}: recorded {rec}, reported {got!r}"))
        # result object
        if "res_exc" in obs:
            bad.append(("result-raises", f"from_optimization_problem raised {obs['res_exc']}"))
        elif "res" in obs:
            r = obs["res"]
            if r["x_idx"] != idx or r["optimum_index"] != int(idx):
                bad.append(("result-index", f"result x/optimum_index {r['x_idx']}/{r['optimum_index']} differ from the optimum {idx}"))
            if r["is_feasible"] != obs["opt_feas"]:
                bad.append(("result-flag", "result feasibility flag differs from the optimum's"))
            if ov not in (None, "nan") and len(ov) == 1:
                want = ov[0]
                if not case["minimize"] and not case["standardized"]:
                    want = -want
                fo = r["f_opt"]
                if fo is None or not common.is_finite_num(fo) or F(float(np.atleast_1d(fo)[0])) != want:
                    bad.append(("result-sign", f"result f_opt {fo!r} is not the original-sense objective {want}"))
    elif "res_exc" in obs and idx == "_":
        bad.append(("result-raises", f"from_optimization_problem raised {obs['res_exc']}"))
    # last point
    if obs.get("last_idx") != str(len(hist) - 1):
        bad.append(("last-point", "last_point is not the last recorded point"))
    # "the feasibility flag ... [is] recorded for that very point": the flag of the last point is the feasibility of
    # the last recorded entry (a point with a missing constraint value satisfies not every constraint)
    m = re.search(r" last=([01]) ", " " + obs.get("line", "") + " ")
    if m is not None and (m.group(1) == "1") != bool(feasible(hist[-1])):
        bad.append(("last-point-flag", f"last_point.is_feasible is {m.group(1)} but the last recorded point is {'feasible' if feasible(hist[-1]) else 'not feasible'}"))
    return bad


# --------------------------------------------------------------------------- pareto


def gen_pareto(rng: common.Rng):
    n = rng.randint(1, 7)
    m = rng.pick([2, 2, 3])
    objs = [[rng.randint(0, 3) for _ in range(m)] for _ in range(n)]
    feas = [rng.chance(0.75) for _ in range(n)]
    return objs, feas


def pareto_impl(objs, feas) -> str:
    from gemseo.algos.pareto.utils import compute_pareto_optimal_points

    mask = compute_pareto_optimal_points(np.array(objs, dtype=float), np.array(feas))
    return "".join("1" if b else "0" for b in mask)


def pareto_oracle(objs, feas, mask: str) -> str | None:
    for i, b in enumerate(mask):
        if b != "1":
            continue
        if not feas[i]:
            return f"reported Pareto point {i} is infeasible"
        for j in range(len(objs)):
            if j != i and feas[j] and all(a <= c for a, c in zip(objs[j], objs[i])) and any(
                a < c for a, c in zip(objs[j], objs[i])
            ):
                return f"reported Pareto point {i} is dominated by feasible point {j}"
    # completeness is not part of the property (only soundness), but a feasible point that is
    # strictly better than every other must be kept: checked by the model correspondence.
    return None


def pareto_front_impl(case):
    """ParetoFront.from_optimization_problem on a multi-objective history: reported (x, f) optima."""
    from gemseo.algos.pareto.pareto_front import ParetoFront

    pb, _ = build_problem(case)
    pf = ParetoFront.from_optimization_problem(pb)
    return [find_index(case, x) for x in pf.x_optima], [[F(float(t)) for t in row] for row in pf.f_optima]


def mo_rows(case):
    """Objective vectors and feasibility flags of a multi-objective history (for the model)."""
    teq, tin = Fraction(case["tol_eq"]), Fraction(case["tol_in"])
    objs, feas = [], []
    for e in case["hist"]:
        v = e["outs"].get("f")
        ok = v is not None and v != "nan"
        for name, ty, _ in case["cstrs"]:
            c = e["outs"].get(name)
            if c is None or c == "nan":
                ok = False
            else:
                ok = ok and all((abs(Fraction(t)) <= teq) if ty == "e" else (Fraction(t) <= tin) for t in c)
        objs.append([Fraction(t) for t in v] if v not in (None, "nan") else [Fraction(0)] * case["obj_dim"])
        feas.append(ok)
    return objs, feas


# --------------------------------------------------------------------------- run


def suffix_closed(case) -> bool:
    """In-scope for the violation-measure clause: constraints are missing only as a suffix."""
    names = [n for n, _, _ in case["cstrs"]]
    for e in case["hist"]:
        seen_missing = False
        for n in names:
            if n not in e["outs"]:
                seen_missing = True
            elif seen_missing:
                return False
    return True


def check_cases(res: Result, cases: list[dict[str, Any]], in_scope: bool) -> None:
    lines = [case_line(c) for c in cases]
    model = common.run_lean_driver(PID, lines)
    for case, line, m in zip(cases, lines, model):
        res.evaluations += 1
        obs = impl_observe(case)
        n = len(case["hist"])
        res.count(f"len={min(n, 9)}")
        res.count(f"ncstr={len(case['cstrs'])}")
        res.count("feasible-case" if "feas=1" in obs["line"] else ("empty" if obs.get("empty") else "infeasible-case"))
        if case.get("queries_between"):
            res.count("queried-while-recording")
            if any(e.get("split") for e in case["hist"]):
                res.count("queried-between-outputs-of-one-point")
            if any(e.get("tolflip") for e in case["hist"]):
                res.count("queried-under-other-tolerances-in-between")
        if n >= 2:
            res.nontrivial(line)
        res.sample({"protocol_line": line, "impl": obs["line"], "model": m})
        if in_scope:
            for key, msg in oracle(case, obs):
                small = shrink_case(case, key)
                res.violate("oracle", key, msg, {"case": small, "impl": impl_observe(small).get("line")})
        if not same_line(obs["line"], m):
            res.disagreements += 1
            # failing-input search around the disagreement: neighbours of the case
            found = False
            if in_scope:
                for nb in neighbours(case):
                    o2 = impl_observe(nb)
                    bad = oracle(nb, o2) if suffix_closed(nb) else []
                    if bad:
                        key, msg = bad[0]
                        res.violate("oracle", key, msg, {"case": shrink_case(nb, key), "impl": o2.get("line")})
                        found = True
                        break
            if not found and in_scope and not any(v.kind == "oracle" for v in res.violations):
                res.violate(
                    "correspondence",
                    "model-vs-impl",
                    "implementation and Lean model disagree on a recorded history (no property-violating input found among its neighbours)",
                    {"case": case, "protocol_line": line, "impl": obs["line"], "model": m, "correspondence": "Driver/C04.lean `hist`"},
                )
            elif not in_scope:
                res.count("probe-disagreement")
                res.notes.append(f"out-of-scope probe disagreement: impl={obs['line']} model={m} line={line}")
        else:
            res.traces_validated += 1


def same_line(impl: str, model: str) -> bool:
    """Exact on every field but `viol` (norm()**2 goes through a square root: rounded stream, 2^-40)."""
    if impl == model:
        return True
    a, b = impl.split(" "), model.split(" ")
    if len(a) != len(b):
        return False
    if a[0] != b[0] and "feas=0" in (a[1], b[1]) and a[1] == b[1]:
        # infeasible case: numpy.argmin over norm()**2 values may break an exact tie of the
        # rational measures by rounding; accept iff the two indices tie exactly in the model
        try:
            ia, ib = int(a[0][4:]), int(b[0][4:])
            mv = b[-1][5:].split(";")
            if mv[ia] != mv[ib]:
                return False
        except (ValueError, IndexError):
            return False
        a = [b[0], *a[1:]]
    if a[:-1] != b[:-1]:
        return False
    if not (a[-1].startswith("viol=") and b[-1].startswith("viol=")):
        return False
    va, vb = a[-1][5:].split(";"), b[-1][5:].split(";")
    if len(va) != len(vb):
        return False
    for x, y in zip(va, vb):
        if x == y:
            continue
        if "inf" in (x, y):
            return False
        fx, fy = Fraction(x), Fraction(y)
        if not abs(fx - fy) <= Fraction(1, 2**40) * max(abs(fy), 1):
            return False
    return True


def neighbours(case):
    h = case["hist"]
    for i in range(len(h)):
        c = dict(case)
        c["hist"] = h[:i] + h[i + 1 :]
        yield c
    for i in range(len(h) - 1):
        c = dict(case)
        c["hist"] = h[:i] + [h[i + 1], h[i]] + h[i + 2 :]
        yield c
    for flag in ("minimize", "standardized"):
        c = dict(case)
        c[flag] = not case[flag]
        yield c


def shrink_case(case, key):
    def fails(hist):
        c = dict(case)
        c["hist"] = hist
        try:
            return any(k == key for k, _ in oracle(c, impl_observe(c)))
        except Exception:  # noqa: BLE001
            return False

    if len(case["hist"]) <= 1:
        return case
    c = dict(case)
    c["hist"] = common.shrink_list(case["hist"], fails, budget=60)
    return c


def load_corpus() -> list[dict[str, Any]]:
    d = common.CORPUS_DIR / PID
    out = []
    if d.is_dir():
        for p in sorted(d.glob("*.json")):
            out.append(json.loads(p.read_text())["case"])
    return out


def run(ctx) -> Result:
    res = Result(PID)
    res.rule = (
        "random recorded histories (0-12 points, 0-3 scalar/vector eq/ineq constraints, values on a half-integer grid "
        "incl. exact tolerance boundaries, missing values, NaN, min/max, standardized or not); a case is non-trivial when "
        "its history has >= 2 points; distinct by protocol line"
    )
    res.assumptions = [
        "violation-measure clause checked on histories where constraints are missing only as a suffix of the constraint list (interrupted evaluation); other patterns are probed against the model only",
        "objective dimension is constant within a history",
    ]
    rng = ctx.rng
    n = 100000 if ctx.thorough else 4000
    corpus = load_corpus()
    check_cases(res, corpus, True)
    res.count("corpus", len(corpus))
    batch = []
    for _ in range(n):
        batch.append(gen_case(rng, in_scope=True))
    check_cases(res, batch, True)
    probe = [gen_case(rng, in_scope=False) for _ in range(n // 10)]
    check_cases(res, [c for c in probe if not suffix_closed(c)], False)
    if ctx.thorough:
        # exhaustive: histories of <= 3 points over a 4-value grid, one inequality constraint, tolerance 0
        ex = []
        vals = [Fraction(-1), Fraction(0), Fraction(1, 2), Fraction(1)]
        opts = [None, *vals]
        for k in range(1, 4):
            for combo in itertools.product(itertools.product(opts, opts), repeat=k):
                hist = []
                for i, (fv, gv) in enumerate(combo):
                    outs = {}
                    if fv is not None:
                        outs["f"] = [rat(fv)]
                    if gv is not None:
                        outs["g0"] = [rat(gv)]
                    hist.append({"x": [i, 0], "outs": outs, "scalar": {}})
                ex.append({"obj_dim": 1, "minimize": True, "standardized": False, "tol_eq": "0", "tol_in": "0",
                           "cstrs": [["g0", "i", 1]], "hist": hist})
        check_cases(res, ex, True)
        res.count("exhaustive-small", len(ex))
    # multi-objective histories through ParetoFront.from_optimization_problem
    mo_cases, mo_lines = [], []
    for _ in range(n // 5):
        c = gen_case(rng, in_scope=True)
        if c["obj_dim"] < 2 or len(c["hist"]) < 1 or any(e["outs"].get("f") == "nan" for e in c["hist"]):
            continue
        c["minimize"], c["standardized"] = True, False
        objs, feas = mo_rows(c)
        if not any(feas):
            continue
        mo_cases.append((c, objs, feas))
        mo_lines.append("pareto " + ";".join(rats(r) for r in objs) + " " + "".join("1" if b else "0" for b in feas))
    mo_model = common.run_lean_driver(PID, mo_lines)
    for (c, objs, feas), line, m in zip(mo_cases, mo_lines, mo_model):
        res.evaluations += 1
        res.count("pareto-front")
        if len(objs) >= 2:
            res.nontrivial("mo:" + line)
        if "1" not in m:
            res.count("pareto-front-empty(probe)")
            continue  # no Pareto point: ParetoFront raises on an empty front (error branch, out of scope)
        try:
            idxs, fopt = pareto_front_impl(c)
        except Exception as e:  # noqa: BLE001
            res.violate("oracle", "pareto-front-raises", f"ParetoFront.from_optimization_problem raised {e!r}", {"case": c})
            continue
        mask = "".join("1" if str(i) in idxs else "0" for i in range(len(objs)))
        msg = None
        if "?" in idxs or "_" in idxs:
            msg = "a reported Pareto point is not a recorded point"
        else:
            msg = pareto_oracle(objs, feas, mask)
            for i, row in zip(idxs, fopt):
                if msg is None and row != objs[int(i)]:
                    msg = f"objective reported for Pareto point {i} is not the recorded one"
        if msg:
            res.violate("oracle", "pareto-front-dominated", msg, {"case": c, "reported": idxs})
        if mask != m:
            res.disagreements += 1
            if not msg:
                res.violate("correspondence", "pareto-front-model-vs-impl", "ParetoFront optima differ from the model mask",
                            {"case": c, "protocol_line": line, "impl": mask, "model": m, "correspondence": "Driver/C04.lean `pareto`"})
        else:
            res.traces_validated += 1
    # pareto
    lines, cases = [], []
    for _ in range(n // 3):
        objs, feas = gen_pareto(rng)
        cases.append((objs, feas))
        lines.append("pareto " + ";".join(rats(r) for r in objs) + " " + "".join("1" if b else "0" for b in feas))
    model = common.run_lean_driver(PID, lines)
    for (objs, feas), line, m in zip(cases, lines, model):
        res.evaluations += 1
        mask = pareto_impl(objs, feas)
        res.count("pareto")
        if len(objs) >= 2:
            res.nontrivial(line)
        msg = pareto_oracle(objs, feas, mask)
        if msg:
            res.violate("oracle", "pareto-dominated", msg, {"objs": objs, "feasible": feas, "mask": mask})
        if mask != m:
            res.disagreements += 1
            if not msg:
                res.violate("correspondence", "pareto-model-vs-impl", "Pareto mask differs from the model",
                            {"protocol_line": line, "impl": mask, "model": m, "correspondence": "Driver/C04.lean `pareto`"})
        else:
            res.traces_validated += 1
    return res


def replay(path: str) -> int:
    data = json.loads(open(path).read())
    rp = data["replay"]
    if "case" in rp:
        obs = impl_observe(rp["case"])
        bad = oracle(rp["case"], obs)
        print("impl:", obs.get("line"), obs.get("res", obs.get("res_exc")))
        print("model:", common.run_lean_driver(PID, [case_line(rp["case"])])[0])
        for k, m in bad:
            print("ORACLE FAILS:", k, m)
        return 1 if bad else 0
    if "objs" in rp:
        mask = pareto_impl(rp["objs"], rp["feasible"])
        msg = pareto_oracle(rp["objs"], rp["feasible"], mask)
        print(mask, msg)
        return 1 if msg else 0
    print(json.dumps(rp, indent=1))
    return 1
