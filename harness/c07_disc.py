"""Harness disciplines of the C07 check (must live in a real module: GEMSEO's docstring
inheritance needs source access).

`LinDisc`: an affine discipline given by a JSON-able specification

    spec = {"name": str,
            "ins": [name, ...], "outs": [name, ...],          # explicit outputs
            "A": {out: {in: [[ "p/q", ...], ...]}},           # dyadic blocks; a missing block is zero
            "c": {out: ["p/q", ...]},                         # constant terms
            "states": {residual: state},                      # optional residual/state pairs
            "kind": "dense" | "csr_array" | "csr_matrix" | "csc_array" | "csc_matrix" | "coo_array" |
                    "coo_matrix" | "operator" ("sparse" = "csr_array"),   # representation of the partials
            "omit_zero": bool,                                # leave structurally zero blocks out of `jac`
            "Q": {out: [[ "p/q", a, ai, b, bi, row ], ...]},  # optional quadratic terms (round 3):
                                                              #   out[row] += coef * a[ai] * b[bi]  (a, b inputs)
            "default_sizes": {in: n},                         # optional: length of the grammar default of an input
                                                              #   (the values passed may have another length)
            "restrict": bool}                                 # `jac` holds only the requested outputs/inputs

Explicit outputs:   out = c[out] + sum_in A[out][in] @ in.
Residual/state pairs (``states``): the residual is the affine function
``r = c[r] + A[r][w] @ w + sum_in A[r][in] @ in`` of the state ``w`` and of the inputs; the
discipline *solves* it (``A[r][w]`` is diagonal with entries +-2^k, so the solve is exact in
floating point), returns the solved state ``w`` and the residual (zero) as outputs, and its
explicit outputs may depend on ``w``.  The state is also an input (initial guess, ignored).

The Jacobian is the exact constant matrix of partial derivatives in the convention GEMSEO
expects from a discipline with solved state equations:
d out / d (w, in) with w independent, d r / d (w, in), and d w / d in = - A[r][w]^-1 A[r][in],
d w / d w = 0.
"""

from __future__ import annotations

from fractions import Fraction
from typing import Any

import numpy as np
from scipy.sparse import coo_array
from scipy.sparse import coo_matrix
from scipy.sparse import csc_array
from scipy.sparse import csc_matrix
from scipy.sparse import csr_array
from scipy.sparse import csr_matrix

from gemseo.core.derivatives.jacobian_operator import JacobianOperator
from gemseo.core.discipline import Discipline


SPARSE_KINDS = {
    "sparse": csr_array,
    "csr_array": csr_array,
    "csr_matrix": csr_matrix,
    "csc_array": csc_array,
    "csc_matrix": csc_matrix,
    "coo_array": coo_array,
    "coo_matrix": coo_matrix,
}
KINDS = ("dense", "operator", *[k for k in SPARSE_KINDS if k != "sparse"])


def _mat(rows) -> np.ndarray:
    return np.array([[float(Fraction(v)) for v in r] for r in rows], dtype=float)


class _MatOperator(JacobianOperator):
    """A `JacobianOperator` defined by a dense matrix (matrix-free from GEMSEO's viewpoint)."""

    def __init__(self, matrix: np.ndarray) -> None:
        super().__init__(matrix.dtype, matrix.shape)
        self._m = matrix

    def _matvec(self, x):
        return self._m @ x

    def _rmatvec(self, x):
        return self._m.T @ x


class LinDisc(Discipline):
    """An affine discipline with exact dyadic partial derivatives."""

    def __init__(self, spec: dict[str, Any], sizes: dict[str, int]) -> None:
        super().__init__(spec["name"])
        self.spec = spec
        self.sizes = {k: int(v) for k, v in sizes.items()}
        self.states = dict(spec.get("states", {}))  # residual -> state
        self.expl_outs = list(spec["outs"])
        self.in_names = list(spec["ins"])
        state_names = list(self.states.values())
        all_ins = self.in_names + state_names
        all_outs = self.expl_outs + state_names + list(self.states)
        self.io.input_grammar.update_from_names(all_ins)
        self.io.output_grammar.update_from_names(all_outs)
        dsz = {k: int(v) for k, v in (spec.get("default_sizes") or {}).items()}
        self.io.input_grammar.defaults = {n: np.zeros(dsz.get(n, self.sizes[n])) for n in all_ins}
        if self.states:
            self.io.residual_to_state_variable = dict(self.states)
            self.io.state_equations_are_solved = True
        self.kind = spec.get("kind", "dense")
        if self.kind not in KINDS and self.kind != "sparse":
            raise ValueError(f"unknown kind {self.kind!r}")
        self.omit_zero = bool(spec.get("omit_zero", False))
        self.restrict = bool(spec.get("restrict", False))
        self.A = {o: {i: _mat(m) for i, m in blocks.items()} for o, blocks in spec["A"].items()}
        self.c = {o: np.array([float(Fraction(v)) for v in vec]) for o, vec in spec["c"].items()}
        # quadratic terms (exact dyadic coefficients): (coef, a, ai, b, bi, row)
        self.Q = {
            o: [(float(Fraction(t[0])), str(t[1]), int(t[2]), str(t[3]), int(t[4]), int(t[5])) for t in terms]
            for o, terms in (spec.get("Q") or {}).items()
        }
        self.n_lin = 0

    # ---- values
    def _affine(self, o: str, data) -> np.ndarray:
        v = self.c.get(o, np.zeros(self.sizes[o])).copy()
        for i, m in self.A.get(o, {}).items():
            v = v + m @ np.asarray(data[i], dtype=float)
        for coef, a, ai, b, bi, row in self.Q.get(o, ()):
            v[row] += coef * float(np.asarray(data[a], dtype=float)[ai]) * float(np.asarray(data[b], dtype=float)[bi])
        return v

    def _run(self, input_data):
        data = dict(input_data)
        out = {}
        for r, w in self.states.items():
            blocks = self.A[r]
            rhs = self.c.get(r, np.zeros(self.sizes[r])).copy()
            for i, m in blocks.items():
                if i != w:
                    rhs = rhs + m @ np.asarray(data[i], dtype=float)
            wv = -rhs / np.diag(blocks[w])
            data[w] = wv
            out[w] = wv
        for o in self.expl_outs:
            out[o] = self._affine(o, data)
        for r in self.states:
            out[r] = self._affine(r, data)
        return out

    # ---- exact partials
    def block(self, o: str, i: str, data=None) -> np.ndarray | None:
        """The partial d o / d i at the current input data (None when structurally zero)."""
        inv = {w: r for r, w in self.states.items()}
        if o in inv:  # a solved state
            r = inv[o]
            if i == o or i not in self.A[r]:
                return None
            return -(self.A[r][i] / np.diag(self.A[r][o])[:, None])
        m = self.A.get(o, {}).get(i)
        m = None if m is None else m.copy()
        for coef, a, ai, b, bi, row in self.Q.get(o, ()):
            if i not in (a, b):
                continue
            if m is None:
                m = np.zeros((self.sizes[o], self.sizes[i]))
            if i == a:
                m[row, ai] += coef * float(np.asarray(data[b], dtype=float)[bi])
            if i == b:
                m[row, bi] += coef * float(np.asarray(data[a], dtype=float)[ai])
        return m

    def _wrap(self, m: np.ndarray):
        if self.kind in SPARSE_KINDS:
            return SPARSE_KINDS[self.kind](m)
        if self.kind == "operator":
            return _MatOperator(m)
        return m

    def _compute_jacobian(self, input_names=(), output_names=()):
        self.n_lin += 1
        ins = list(self.io.input_grammar)
        outs = list(self.io.output_grammar)
        if self.restrict and input_names and output_names:
            # as most disciplines do: only the requested blocks
            ins = [i for i in ins if i in set(input_names)]
            outs = [o for o in outs if o in set(output_names)]
        jac: dict[str, dict[str, Any]] = {}
        data = self.io.data if self.Q else None
        for o in outs:
            jac[o] = {}
            for i in ins:
                m = self.block(o, i, data)
                if m is None:
                    if self.omit_zero:
                        continue
                    m = np.zeros((self.sizes[o], self.sizes[i]))
                jac[o][i] = self._wrap(m)
        self.jac = jac
