"""C16 — derivative approximations are accurate to their order and respect bounds.

Correspondence: `FirstOrderFD`, `CenteredDifferences`, `ComplexStep` (`f_gradient`, serial and
parallel) are run in-process on integer-coefficient polynomials evaluated exactly
(`harness/c16_funcs.PolyFunction`, which records every call point); the returned Jacobian and the
multiset of call points are compared with the Lean model (Driver/C16.lean) — exactly on the exact
stream (dyadic points, power-of-two steps), up to 2^-51 relative where a float division rounds.
`DisciplineJacApprox.compute_approx_jac`, `Discipline.linearize` in approximation modes and
`check_jacobian(indices=...)` are compared with the model's placement / splitting / comparison.

Oracle (property text, independent of the model and of the code under test): exact partial
derivatives and analytic error bounds in `Fraction` (h/2·sup|f''|, h²/6·sup|f'''|, rounding only +
δ²/6·sup|f'''| for the complex step), shape, finiteness, recorded call points vs upper bounds,
parallel == serial.
"""

from __future__ import annotations

import itertools
import json
import math
import os
import re
import tempfile
from fractions import Fraction
from typing import Any

import numpy as np

from harness import common
from harness.c16_funcs import PolyDiscipline
from harness.c16_funcs import PolyFunction
from harness.c16_funcs import eval_poly
from harness.c16_funcs import is_f64
from harness.c16_funcs import poly_abs_sup
from harness.c16_funcs import poly_partial
from harness.c16_funcs import read_call_log
from harness.common import F
from harness.common import Result
from harness.common import rat

PID = "C16"

TRUSTED_EXTRA = (
    "C16: harness polynomials are evaluated exactly and rounded once (PolyFunction); float subtraction/division of "
    "exactly representable operands is correctly rounded (IEEE 754), so model and code agree exactly on the exact stream "
    "and within 2^-51 relative elsewhere",
    "C16: DesignSpace.normalize_vect / get_upper_bounds are used as given (covered by C02); normalised cases use "
    "power-of-two widths",
    "C16: CallableParallelExecution returns outputs in input order (covered by C13)",
)

RND = Fraction(1, 2**50)  # rounding allowance of the oracle, relative to 1 + |derivative| + bound
TOL = Fraction(1, 2**51)  # model-vs-code tolerance (relative) where a division rounds

# --------------------------------------------------------------------------- helpers


def fr(s: Any) -> Fraction:
    return Fraction(s)


def frl(xs) -> list[Fraction]:
    return [Fraction(v) for v in xs]


def orat(v) -> str:
    return "_" if v is None else rat(Fraction(v))


def poly_str(polys) -> str:
    return ";".join("+".join(f"{rat(Fraction(c))}:{'.'.join(str(e) for e in ex)}" for c, ex in p) for p in polys)


def step_of(case, c: int) -> Fraction:
    """Step declared for input component c (per-component steps have one entry per input component)."""
    st = case["step"]
    return Fraction(st[c]) if isinstance(st, list) else Fraction(st)


def eff_idx(case) -> list[int]:
    return list(case["idx"]) if case["idx"] else list(range(case["n"]))


def work_bounds(case, c: int):
    """Working-space bounds of component c from the property text: a normalised component lives in [0,1]."""
    ds = case.get("ds")
    if not ds:
        return None, None
    lb, ub = ds["lb"][c], ds["ub"][c]
    if ds["normalize"] and lb is not None and ub is not None:
        # t = (x - lb) / (ub - lb); a frozen component (lb == ub) has the single admissible value t = 0
        # (DesignSpace normalises such a component with the factor 1)
        return Fraction(0), (Fraction(0) if Fraction(lb) == Fraction(ub) else Fraction(1))
    return (None if lb is None else Fraction(lb)), (None if ub is None else Fraction(ub))


def blocked_both(case, c: int) -> bool:
    """Neither x + h nor x - h lies inside the working-space bounds of component c."""
    lo, up = work_bounds(case, c)
    if lo is None or up is None:
        return False
    x = Fraction(case["x"][c])
    h = step_of(case, c)
    return x + h > up and x - h < lo


def case_line(case, mode: str | None = None) -> str:
    mode = mode or ("par" if case.get("parallel") else "ser")
    st = case["step"]
    step = "v:" + ",".join(rat(Fraction(s)) for s in st) if isinstance(st, list) else "s:" + rat(Fraction(st))
    ds = case.get("ds")
    if ds:
        dss = ",".join(orat(v) for v in ds["lb"]) + ";" + ",".join(orat(v) for v in ds["ub"]) + ";" + ("1" if ds["normalize"] else "0")
    else:
        dss = "none"
    idx = ",".join(str(i) for i in case["idx"]) or "[]"
    return (
        f"grad {case['scheme']} {mode} x={','.join(rat(Fraction(v)) for v in case['x'])} idx={idx} "
        f"step={step} ds={dss} poly={poly_str(case['polys'])}"
    )


# --------------------------------------------------------------------------- generation


def gen_polys(rng, n: int, m: int, deg: int):
    polys = []
    for _ in range(m):
        p = []
        for _ in range(rng.randint(1, 4)):
            coef = rng.pick([-4, -3, -2, -1, 1, 2, 3, 4])
            exps = [rng.pick([0, 0, 1, 1, 2, 3, 4][: 2 + 2 * min(deg, 2) + max(0, deg - 2)]) for _ in range(n)]
            exps = [min(e, deg) for e in exps]
            p.append([coef, exps])
        polys.append(p)
    return polys


def ordered_subsets(n: int):
    out = [()]
    for k in range(1, n + 1):
        out += list(itertools.permutations(range(n), k))
    return out


TIGHT_KINDS = ["frozen", "frozen", "narrow-ub", "narrow-ub", "narrow-lb", "narrow-in", "mid", "one-step-ub", "one-step-lb"]


def tight_layout(rng, kind: str, lb: Fraction, h: Fraction) -> tuple[Fraction, Fraction]:
    """(upper bound, point) of a component whose admissible interval is short compared with the step h:
    frozen (lb == ub), narrower than the step (point on the upper / lower bound or inside), shorter than two steps
    with the point in the middle (neither x+h nor x-h is inside), exactly one step wide (x±h lands on the other bound)."""
    if kind == "frozen":
        return lb, lb
    if kind == "narrow-ub":
        ub = lb + h * rng.pick([Fraction(1, 2), Fraction(1, 4), Fraction(3, 4)])
        return ub, ub
    if kind == "narrow-lb":
        return lb + h * rng.pick([Fraction(1, 2), Fraction(1, 4), Fraction(3, 4)]), lb
    if kind == "narrow-in":
        return lb + h / 2, lb + h / 4
    if kind == "mid":
        return lb + 3 * h / 2, lb + 3 * h / 4
    if kind == "one-step-ub":
        return lb + h, lb + h
    if kind == "one-step-lb":
        return lb + h, lb
    raise ValueError(kind)


def gen_case(rng, scheme=None, n=None, idx=None, vec=None, with_ds=None, smax_cap: int = 26,
             tight_p: float = 0.2, force_tight: bool = False, norm_frozen_ok: bool = True) -> dict[str, Any]:
    scheme = scheme or rng.pick(["fd", "fd", "cd", "cd", "cs"])
    n = n or rng.pick([1, 2, 2, 3, 3, 4])
    m = rng.pick([1, 1, 2, 3])
    deg = rng.pick([1, 2, 2, 3, 3, 4] if scheme == "cs" else [1, 2, 2, 3])
    polys = gen_polys(rng, n, m, deg)
    if idx is None:
        k = rng.randint(0, n)
        idx = rng.sample(range(n), k)
    idx = list(idx)
    if vec is None:
        vec = rng.chance(0.4)
    if with_ds is None:
        with_ds = rng.chance(0.2 if scheme == "cs" else 0.55)
    smax = min(smax_cap, {1: 26, 2: 20, 3: 13, 4: 10}[deg])
    if scheme == "cs" and rng.chance(0.5):
        exps = [rng.pick([30, 40, 60, 100, 200, 300]) for _ in range(n)]
    else:
        exps = [rng.randint(8, max(8, smax)) for _ in range(n)]
    if not vec:
        exps = [exps[0]] * n
    hs = [Fraction(1, 2**e) for e in exps]
    ds = None
    x: list[Fraction] = []
    if with_ds:
        normalize = rng.chance(0.3 if force_tight else 0.5) and (norm_frozen_ok or not force_tight)
        lbs, ubs = [], []
        forced = rng.pick(idx or list(range(n))) if force_tight else None
        for c in range(n):
            lb = Fraction(rng.randint(-16, 0), 4)
            h = hs[c]
            # a component whose admissible interval around the point is shorter than the step (frozen variable,
            # interval narrower than the step, ...): inside the quantifier ("all points, including points on the bounds")
            if c == forced or rng.chance(tight_p):
                kind = rng.pick(TIGHT_KINDS)
                if normalize or h < Fraction(1, 2**30):
                    # a normalised component lives in [0, 1] whatever its physical width, unless it is frozen
                    kind = "frozen" if (norm_frozen_ok or not normalize) and (c == forced or rng.chance(0.5)) else None
                if kind is not None:
                    ub, v = tight_layout(rng, kind, lb, h)
                    lbs.append(lb)
                    ubs.append(ub)
                    x.append(Fraction(0) if normalize else v)
                    continue
            width = Fraction(rng.pick([1, 1, 2, 4, 8]))
            if rng.chance(0.1) and not normalize:
                width = Fraction(1, 2)
            ub = lb + width
            lb_inf = rng.chance(0.12)
            ub_inf = rng.chance(0.12)
            lbs.append(None if lb_inf else lb)
            ubs.append(None if ub_inf else ub)
            normed = normalize and not lb_inf and not ub_inf
            wl, wu = (Fraction(0), Fraction(1)) if normed else (lb, ub)
            r = rng.random()
            if r < 0.25 and not ub_inf:
                v = wu
            elif r < 0.40 and not lb_inf:
                v = wl
            elif r < 0.55 and not ub_inf and h >= Fraction(1, 2**30):
                v = wu - h / rng.pick([2, 4])  # strictly inside, closer to the bound than one step
            elif r < 0.62 and not lb_inf and h >= Fraction(1, 2**30):
                v = wl + h / rng.pick([2, 4])
            elif r < 0.70 and not ub_inf and h >= Fraction(1, 2**30):
                v = wu - h  # the forward point lands exactly on the bound
            elif r < 0.78 and wl <= 0 <= wu:
                v = Fraction(0)
            else:
                v = wl + (wu - wl) * Fraction(rng.randint(1, 15), 16)
            x.append(v)
        ds = {"lb": [None if v is None else rat(v) for v in lbs], "ub": [None if v is None else rat(v) for v in ubs], "normalize": normalize}
    else:
        for _ in range(n):
            x.append(Fraction(0) if rng.chance(0.25) else Fraction(rng.randint(-16, 16), 4))
    case = {
        "scheme": scheme,
        "n": n,
        "m": m,
        "polys": polys,
        "x": [rat(v) for v in x],
        "idx": idx,
        "step": [rat(h) for h in hs] if vec else rat(hs[0]),
        "ds": ds,
        "parallel": False,
        "scalar_out": m == 1 and rng.chance(0.25),
        "step_via": "ctor" if (not vec and rng.chance(0.2)) else "arg",
        "idx_form": "tuple" if (idx and rng.chance(0.3)) else "list",
    }
    return case


DEFAULT_STEP = {"fd": 1e-6, "cd": 1e-6, "cs": 1e-20}


def gen_rounded_case(rng) -> dict[str, Any]:
    """Rounded stream: decimal points and steps (incl. the default steps), compared up to explicit rounding terms."""
    scheme = rng.pick(["fd", "cd", "cs"])
    n = rng.pick([1, 2, 3, 4])
    m = rng.pick([1, 2])
    deg = rng.pick([1, 2, 3])
    polys = gen_polys(rng, n, m, deg)
    k = rng.randint(0, n)
    idx = rng.sample(range(n), k)
    via = rng.pick(["default", "arg", "arg", "ctor"])
    if via == "default":
        hs = [DEFAULT_STEP[scheme]] * n
        vec = False
    else:
        vec = via == "arg" and rng.chance(0.4)
        pool = [1e-20, 1e-30, 1e-12, 1e-8] if scheme == "cs" else [1e-3, 1e-4, 1e-5, 1e-6, 1e-7, 3e-5]
        hs = [rng.pick(pool) for _ in range(n)]
        if not vec:
            hs = [hs[0]] * n
    ds = None
    x = []
    if rng.chance(0.5):
        normalize = rng.chance(0.5)
        lbs, ubs = [], []
        for c in range(n):
            lb = Fraction(rng.randint(-16, 0), 4)
            h = F(hs[c])
            if rng.chance(0.2):
                # frozen component / interval shorter than the step (bounds and point rounded to floats)
                kind = "frozen" if normalize else rng.pick(["frozen", "narrow-ub", "narrow-lb", "narrow-in", "mid"])
                ub, v = tight_layout(rng, kind, lb, h)
                ub, v = F(float(ub)), F(float(v))
                lbs.append(lb)
                ubs.append(ub)
                x.append(Fraction(0) if normalize else min(max(v, lb), ub))
                continue
            ub = lb + Fraction(rng.pick([1, 2, 4, 8]))
            lb_inf, ub_inf = rng.chance(0.1), rng.chance(0.1)
            lbs.append(None if lb_inf else lb)
            ubs.append(None if ub_inf else ub)
            normed = normalize and not lb_inf and not ub_inf
            wl, wu = (Fraction(0), Fraction(1)) if normed else (lb, ub)
            r = rng.random()
            if r < 0.25 and not ub_inf:
                v = float(wu)
            elif r < 0.4 and not lb_inf:
                v = float(wl)
            elif r < 0.55 and not ub_inf:
                v = float(wu - h / 2)
            elif r < 0.65 and not lb_inf:
                v = float(wl + h / 2)
            else:
                # at least two steps inside the bounds
                v = round(float(wl + (wu - wl) * Fraction(rng.randint(2, 98), 100)), 3)
                v = min(max(v, float(wl + 2 * h) + 0.001), float(wu - 2 * h) - 0.001)
            x.append(F(v))
        ds = {"lb": [None if v is None else rat(v) for v in lbs], "ub": [None if v is None else rat(v) for v in ubs], "normalize": normalize}
    else:
        for _ in range(n):
            x.append(Fraction(0) if rng.chance(0.2) else F(round(rng.uniform(-4, 4), 3)))
    return {
        "scheme": scheme, "n": n, "m": m, "polys": polys, "x": [rat(v) for v in x], "idx": idx,
        "step": [rat(F(h)) for h in hs] if vec else rat(F(hs[0])), "ds": ds, "parallel": False,
        "scalar_out": False, "step_via": via, "stream": "rounded",
        "idx_form": "tuple" if (idx and rng.chance(0.3)) else "list",
    }


def exact_ok(case) -> bool:
    """All function values at x and x ± h e_c (c differentiated) are exactly float64 (not needed for cs)."""
    x = frl(case["x"])
    if not all(is_f64(v) for v in x):
        return False
    if case["scheme"] == "cs" or case.get("stream") == "rounded":
        return True
    pts = [x]
    for c in eff_idx(case):
        h = step_of(case, c)
        for sgn in (1, -1):
            p = list(x)
            p[c] = x[c] + sgn * h
            pts.append(p)
    for p in pts:
        if not all(is_f64(v) for v in p):
            return False
        for poly in case["polys"]:
            if not is_f64(eval_poly(poly, p)):
                return False
    return True


def gen_exact_case(rng, res: Result | None = None, **kw) -> dict[str, Any]:
    cap = 26
    for _ in range(40):
        case = gen_case(rng, smax_cap=cap, **kw)
        if exact_ok(case):
            return case
        if res is not None:
            res.count("gen-rejected-inexact")
        cap = max(8, cap - 2)
    raise RuntimeError("could not generate an exactly representable case")


def in_scope(case) -> bool:
    """The property's quantifier: positive steps, point inside the bounds (of any width, including frozen
    components and intervals narrower than the step), distinct valid indices, one step per input component."""
    n = case["n"]
    idx = case["idx"]
    if len(set(idx)) != len(idx) or any(not (0 <= i < n) for i in idx):
        return False
    st = case["step"]
    if isinstance(st, list) and len(st) != n:
        return False
    x = frl(case["x"])
    for c in range(n):
        h = step_of(case, c)
        if h <= 0:
            return False
        lo, up = work_bounds(case, c)
        if lo is not None and x[c] < lo:
            return False
        if up is not None and x[c] > up:
            return False
    return True


# --------------------------------------------------------------------------- implementation


def make_design_space(case):
    from gemseo.algos.design_space import DesignSpace

    ds = case["ds"]
    n = case["n"]
    space = DesignSpace()
    lb = np.array([-np.inf if v is None else float(Fraction(v)) for v in ds["lb"]])
    ub = np.array([np.inf if v is None else float(Fraction(v)) for v in ds["ub"]])
    space.add_variable("x", size=n, lower_bound=lb, upper_bound=ub)
    return space


def run_impl(case, parallel: str | None = None) -> dict[str, Any]:
    """Run the real approximator. parallel: None (serial) | 'thread' | 'process'."""
    from gemseo.utils.derivatives.centered_differences import CenteredDifferences
    from gemseo.utils.derivatives.complex_step import ComplexStep
    from gemseo.utils.derivatives.finite_differences import FirstOrderFD

    if case.get("level") == "problem":
        return run_problem_impl(case)
    cls = {"fd": FirstOrderFD, "cd": CenteredDifferences, "cs": ComplexStep}[case["scheme"]]
    log_path = None
    log_fd = None
    if parallel == "process":
        fd0, log_path = tempfile.mkstemp(prefix="c16calls")
        os.close(fd0)
        log_fd = os.open(log_path, os.O_WRONLY | os.O_APPEND)
    fn = PolyFunction(case["polys"], scalar_out=bool(case.get("scalar_out")), record_fd=log_fd)
    kwargs: dict[str, Any] = {}
    if case.get("ds"):
        kwargs["design_space"] = make_design_space(case)
        kwargs["normalize"] = bool(case["ds"]["normalize"])
    if parallel:
        kwargs.update(parallel=True, n_processes=2, use_threading=(parallel == "thread"))
    st = case["step"]
    step = np.array([float(Fraction(s)) for s in st]) if isinstance(st, list) else float(Fraction(st))
    out: dict[str, Any] = {}
    try:
        if case.get("step_via") == "default":
            approx = cls(fn, **kwargs)
            jac = approx.f_gradient(np.array([float(Fraction(v)) for v in case["x"]]), x_indices=_idx_arg(case))
        elif case.get("step_via") == "ctor" and not isinstance(st, list):
            approx = cls(fn, step=step, **kwargs)
            jac = approx.f_gradient(np.array([float(Fraction(v)) for v in case["x"]]), x_indices=_idx_arg(case))
        else:
            approx = cls(fn, **kwargs)
            jac = approx.f_gradient(
                np.array([float(Fraction(v)) for v in case["x"]]), step=step, x_indices=_idx_arg(case)
            )
    except Exception as e:  # noqa: BLE001
        out["exc"] = common.exc_class(e)
        out["exc_msg"] = repr(e)[:160]
        out["calls"] = _calls(fn, log_fd, log_path)
        return out
    out["J"] = np.asarray(jac)
    out["calls"] = _calls(fn, log_fd, log_path)
    out["inexact"] = fn.inexact
    out["fmax"] = fn.fmax
    return out


def _calls(fn, log_fd, log_path):
    if log_fd is None:
        return list(fn.calls)
    os.close(log_fd)
    try:
        return read_call_log(log_path)
    finally:
        os.unlink(log_path)


def run_problem_impl(case) -> dict[str, Any]:
    """The same case through OptimizationProblem(differentiation_method=...): the objective is a physical-space
    function, `preprocess_functions(is_function_input_normalized=normalize)` builds the approximator with the design
    space; the Jacobian is evaluated at the working-space point.  Call points are recorded in the working space
    (exact inverse of the normalisation), so oracle and model are those of the approximator level."""
    from gemseo.algos.optimization_problem import OptimizationProblem
    from gemseo.core.mdo_functions.mdo_function import MDOFunction

    ds = case["ds"]
    space = make_design_space(case)
    premap = []
    for lb, ub in zip(ds["lb"], ds["ub"]):
        if ds["normalize"] and lb is not None and ub is not None:
            premap.append((Fraction(lb), Fraction(ub) - Fraction(lb)))
        else:
            premap.append(None)
    fn = PolyFunction(case["polys"], premap=premap)
    out: dict[str, Any] = {}
    try:
        pb = OptimizationProblem(
            space, differentiation_method=MODE[case["scheme"]], differentiation_step=float(Fraction(case["step"]))
        )
        pb.objective = MDOFunction(fn, "f")
        # as the optimisation libraries do: the design space holds a current value, complex for the complex step
        phys = [
            float(Fraction(v)) if pm is None else float(pm[0] + Fraction(v) * pm[1])
            for v, pm in zip(case["x"], premap)
        ]
        space.set_current_value(np.array(phys))
        if case["scheme"] == "cs":
            space.to_complex()
        pb.preprocess_functions(is_function_input_normalized=bool(ds["normalize"]))
        jac = pb.objective.jac(np.array([float(Fraction(v)) for v in case["x"]]))
    except Exception as e:  # noqa: BLE001
        out["exc"] = common.exc_class(e)
        out["exc_msg"] = repr(e)[:160]
        out["calls"] = list(fn.calls)
        return out
    out["J"] = np.atleast_2d(np.asarray(jac))
    out["calls"] = list(fn.calls)
    out["inexact"] = fn.inexact
    out["fmax"] = fn.fmax
    return out


def jac_matrix(case, J: np.ndarray):
    """Impl Jacobian as an (m, k) nested list of floats, or None when the shape is not the expected one."""
    k = len(eff_idx(case))
    m = case["m"]
    if case.get("scalar_out"):
        if J.shape != (k,):
            return None
        return [list(J)]
    if J.shape != (m, k):
        return None
    return [list(r) for r in J]


# --------------------------------------------------------------------------- model answer


def parse_model(ans: str):
    """-> ('err', tag) | ('ok', cols: list[list[Fraction]], calls: sorted list)"""
    if ans.startswith("E:") or ans.startswith("bad"):
        return ("err", ans)
    jpart, cpart = ans.split(" ")
    js = jpart[2:]
    cols = [] if js == "-" else [([] if c == "[]" else [Fraction(t) for t in c.split(",")]) for c in js.split(";")]
    cs = cpart[6:]
    calls = []
    if cs != "-":
        for p in cs.split(";"):
            if "|" in p:
                re, im = p.split("|")
                calls.append((tuple(Fraction(t) for t in re.split(",")), tuple(Fraction(t) for t in im.split(","))))
            else:
                pt = tuple(Fraction(t) for t in p.split(","))
                calls.append((pt, tuple(Fraction(0) for _ in pt)))
    return ("ok", cols, sorted(calls))


def compare(case, impl, ans: str) -> tuple[bool, bool, str]:
    """(agree, exactly_equal, message)"""
    mod = parse_model(ans)
    if "exc" in impl:
        if mod[0] == "err":
            return True, True, ""
        return False, False, f"implementation raised {impl['exc']} ({impl.get('exc_msg')}), model answers {ans[:120]}"
    if mod[0] == "err":
        return False, False, f"model rejects the arguments ({mod[1]}), implementation returned a Jacobian"
    _, cols, mcalls = mod
    M = jac_matrix(case, impl["J"])
    if M is None:
        return False, False, f"Jacobian shape {impl['J'].shape} is not the model's ({case['m']}, {len(cols)})"
    exact = True
    rounded = case.get("stream") == "rounded"
    hmin = min(abs(step_of(case, c)) for c in range(case["n"]))
    slack = Fraction(1, 2**960)  # float64 underflow (complex step with steps down to 2^-300)
    if impl.get("inexact"):
        slack = Fraction(1, 2**49) * impl["fmax"] / hmin
    for k, col in enumerate(cols):
        for j, mv in enumerate(col):
            iv = M[j][k]
            if not math.isfinite(iv):
                return False, False, f"entry [{j},{k}] is {iv}, model {mv}"
            d = abs(F(iv) - mv)
            if d != 0:
                exact = False
                extra = rounding_slack(case, j, eff_idx(case)[k]) if rounded else Fraction(0)
                if not d <= TOL * abs(mv) + slack + extra:
                    return False, False, f"entry [{j},{k}]: implementation {F(iv)}, model {mv}"
    icalls = sorted(impl["calls"])
    if rounded:
        if not calls_close(icalls, mcalls):
            return False, False, f"call points differ beyond rounding: implementation {fmt_calls(icalls)[:300]} model {fmt_calls(mcalls)[:300]}"
        return True, False, ""
    if icalls != mcalls:
        return False, exact, f"call points differ: implementation {fmt_calls(icalls)[:300]} model {fmt_calls(mcalls)[:300]}"
    return True, exact, ""


def calls_close(a, b) -> bool:
    """Rounded stream: call points equal up to one rounding of x ± h (and of x*h for the complex step)."""
    if len(a) != len(b):
        return False
    eps = Fraction(1, 2**51)
    used = [False] * len(b)
    for re, im in a:
        hit = False
        for t, (re2, im2) in enumerate(b):
            if used[t]:
                continue
            if all(abs(u - v) <= eps * (abs(v) + abs(u)) for u, v in zip(re, re2)) and all(
                abs(u - v) <= eps * (abs(v) + abs(u)) for u, v in zip(im, im2)
            ):
                used[t] = True
                hit = True
                break
        if not hit:
            return False
    return True


def rounding_slack(case, j: int, c: int) -> Fraction:
    """Rounded stream: floating-point error of one quotient, from the property's 'numerically safe' reading:
    rounding of x ± h moves the evaluation point (sup|f'| * eps*(|x|+|h|) / |h|), the function values are rounded
    once each and subtracted (cancellation, eps*sup|f| / |h|), the division rounds once."""
    x = frl(case["x"])
    h = abs(step_of(case, c))
    p = case["polys"][j]
    d1 = poly_partial(p, c)
    if case["scheme"] == "cs":
        D = abs(eval_poly(d1, x))
        return Fraction(1, 2**48) * (1 + D)
    s0 = poly_abs_sup(p, x, c, 2 * h)
    s1 = poly_abs_sup(d1, x, c, 2 * h)
    eps = Fraction(1, 2**50)
    return (s1 * eps * (abs(x[c]) + h) + eps * s0) / h + eps * (1 + s1)


def fmt_calls(calls) -> str:
    return "; ".join(
        "(" + ",".join(str(a) + (f"+{b}j" if b else "") for a, b in zip(re, im)) + ")" for re, im in calls
    )


# --------------------------------------------------------------------------- oracle (property text)


def _idx_arg(case):
    """`x_indices` as the case gives it: a list, or a tuple (`Sequence[int]`, like the documented default `()`)."""
    return tuple(case["idx"]) if case.get("idx_form") == "tuple" else list(case["idx"])


def key_tags(case) -> str:
    tags = ["subset" if case["idx"] else "all", "ds" if case.get("ds") else "nods", "vec" if isinstance(case["step"], list) else "scalar"]
    if case.get("idx_form") == "tuple" and case["idx"]:
        tags.append("tuple")
    return ",".join(tags)


def allowed_bound(case, j: int, c: int) -> tuple[Fraction, Fraction, str]:
    """(exact derivative, allowed error, which bound) for output j w.r.t. component c."""
    x = frl(case["x"])
    p = case["polys"][j]
    d1 = poly_partial(p, c)
    d2 = poly_partial(d1, c)
    d3 = poly_partial(d2, c)
    D = eval_poly(d1, x)
    h = abs(step_of(case, c))
    lo, up = work_bounds(case, c)
    scheme = case["scheme"]
    if scheme == "fd":
        bound = h / 2 * poly_abs_sup(d2, x, c, h)
        which = "h/2*sup|f''|"
    elif scheme == "cd":
        one_sided = (up is not None and x[c] + h > up) or (lo is not None and x[c] - h < lo)
        if one_sided:
            # the bounds forbid one of the two points: a one-sided quotient is first order
            bound = h / 2 * poly_abs_sup(d2, x, c, h)
            which = "h/2*sup|f''| (one-sided at a bound)"
        else:
            bound = h * h / 6 * poly_abs_sup(d3, x, c, h)
            which = "h^2/6*sup|f'''|"
    else:
        delta = h * (abs(x[c]) if x[c] != 0 else 1)
        # along the imaginary direction |x_c + i t|^e <= (|x_c| + |t|)^e
        bound = delta * delta / 6 * poly_abs_sup(d3, x, c, delta)
        which = "rounding + delta^2/6*sup|f'''|"
    return D, bound + RND * (1 + abs(D) + bound), which


def oracle(case, impl, impl_par=None) -> list[tuple[str, str]]:
    bad: list[tuple[str, str]] = []
    sch = case["scheme"]
    tags = key_tags(case)
    if "exc" in impl:
        return [(f"{sch}-raises[{tags}]", f"f_gradient raised {impl['exc']}: {impl.get('exc_msg')}")]
    J = impl["J"]
    idx = eff_idx(case)
    M = jac_matrix(case, J)
    if M is None:
        exp = (len(idx),) if case.get("scalar_out") else (case["m"], len(idx))
        bad.append((f"{sch}-shape[{tags}]", f"Jacobian shape {J.shape}, expected {exp}"))
    else:
        done = False
        for k, c in enumerate(idx):
            for j in range(case["m"]):
                v = M[j][k]
                if not math.isfinite(v):
                    bad.append((f"{sch}-nonfinite[{tags}]", f"entry [{j},{k}] (d f_{j}/d x_{c}) is {v}"))
                    done = True
                    break
                D, allowed, which = allowed_bound(case, j, c)
                if case.get("stream") == "rounded":
                    allowed += rounding_slack(case, j, c)
                elif impl.get("inexact") and sch != "cs":
                    # a function value was rounded: cancellation error 2*eps*|f|/h of the quotient
                    allowed += Fraction(1, 2**49) * impl["fmax"] / abs(step_of(case, c))
                err = abs(F(v) - D)
                if not err <= allowed:
                    bad.append((
                        f"{sch}-error-bound[{tags}]",
                        f"entry [{j},{k}] (d f_{j}/d x_{c}) = {float(v)!r}, exact {float(D)!r}: error {float(err):.3e} > {which} = {float(allowed):.3e}",
                    ))
                    done = True
                    break
            if done:
                break
    # bound safety: no recorded call point exceeds the upper bounds (real parts)
    if case.get("ds"):
        for re, _ in impl["calls"]:
            hit = False
            for c, v in enumerate(re):
                _, up = work_bounds(case, c)
                if up is not None and not v <= up:
                    bad.append((
                        f"{sch}-exceeds-upper-bound[{tags}]",
                        f"function called at component {c} = {v} > upper bound {up} (x = {case['x']}, step {case['step']})",
                    ))
                    hit = True
                    break
            if hit:
                break
    if impl_par is not None:
        if "exc" in impl_par:
            bad.append((f"{sch}-parallel-raises[{tags}]", f"parallel f_gradient raised {impl_par['exc']}: {impl_par.get('exc_msg')}"))
        elif not (impl_par["J"].shape == J.shape and np.array_equal(impl_par["J"], J)):
            bad.append((f"{sch}-parallel-differs[{tags}]", f"parallel Jacobian {impl_par['J'].tolist()} != serial {J.tolist()}"))
    return bad


# --------------------------------------------------------------------------- shrinking / neighbours


def simplifications(case):
    """Smaller variants of a case (each a full case)."""
    n, m = case["n"], case["m"]
    if case.get("ds") and case.get("level") != "problem":
        c = dict(case)
        c["ds"] = None
        yield c
    if isinstance(case["step"], list):
        c = dict(case)
        c["step"] = case["step"][0]
        yield c
    if case.get("scalar_out"):
        c = dict(case)
        c["scalar_out"] = False
        yield c
    if case.get("step_via") == "ctor":
        c = dict(case)
        c["step_via"] = "arg"
        yield c
    if m > 1:
        for j in range(m):
            c = dict(case)
            c["polys"] = [case["polys"][j]]
            c["m"] = 1
            yield c
    for j, p in enumerate(case["polys"]):
        if len(p) > 1:
            for t in range(len(p)):
                c = dict(case)
                c["polys"] = [q if i != j else [p[t]] for i, q in enumerate(case["polys"])]
                yield c
    if len(case["idx"]) > 1:
        for t in range(len(case["idx"])):
            c = dict(case)
            c["idx"] = case["idx"][:t] + case["idx"][t + 1 :]
            yield c
    # drop an input component not differentiated (keeps indices consistent by renumbering)
    if n > 1:
        for d in range(n):
            if case["idx"] and d in case["idx"]:
                continue
            if not case["idx"] and n <= 1:
                continue
            c = dict(case)
            c["n"] = n - 1
            c["x"] = case["x"][:d] + case["x"][d + 1 :]
            c["idx"] = [i - (1 if i > d else 0) for i in case["idx"]]
            if isinstance(case["step"], list):
                c["step"] = case["step"][:d] + case["step"][d + 1 :]
            if case.get("ds"):
                c["ds"] = {
                    "lb": case["ds"]["lb"][:d] + case["ds"]["lb"][d + 1 :],
                    "ub": case["ds"]["ub"][:d] + case["ds"]["ub"][d + 1 :],
                    "normalize": case["ds"]["normalize"],
                }
            xd = Fraction(case["x"][d])
            c["polys"] = [
                [[Fraction(co) * xd ** ex[d], ex[:d] + ex[d + 1 :]] for co, ex in p] for p in case["polys"]
            ]
            c["polys"] = [[[rat(co), ex] for co, ex in p] for p in c["polys"]]
            yield c
    for t, v in enumerate(case["x"]):
        if Fraction(v) not in (0, 1):
            for new in ("0", "1"):
                c = dict(case)
                c["x"] = case["x"][:t] + [new] + case["x"][t + 1 :]
                yield c
    for j, p in enumerate(case["polys"]):
        for t, (co, ex) in enumerate(p):
            if Fraction(co) != 1:
                c = dict(case)
                c["polys"] = [q if i != j else [([1, ex] if u == t else mono) for u, mono in enumerate(p)] for i, q in enumerate(case["polys"])]
                yield c


def fails_with(case, key: str, par: str | None = None) -> bool:
    try:
        if not in_scope(case) or not exact_ok(case):
            return False
        impl = run_impl(case)
        ip = run_impl(case, par) if par else None
        return any(k == key for k, _ in oracle(case, impl, ip))
    except Exception:  # noqa: BLE001
        return False


def shrink(case, key: str, par: str | None = None, budget: int = 150):
    if os.environ.get("C16_NOSHRINK"):
        return case
    cur = case
    calls = 0
    progress = True
    while progress and calls < budget:
        progress = False
        for cand in simplifications(cur):
            calls += 1
            if fails_with(cand, key, par):
                cur = cand
                progress = True
                break
            if calls >= budget:
                break
    return cur


def neighbours(case, rng):
    """Failing-input search around a model/code disagreement."""
    yield from simplifications(case)
    n = case["n"]
    problem = case.get("level") == "problem"
    if not problem:
        for sub in ordered_subsets(n):
            c = dict(case)
            c["idx"] = list(sub)
            yield c
    if case.get("ds"):
        for t in range(n):
            _, up = work_bounds(case, t)
            lo, _ = work_bounds(case, t)
            for v in (up, lo):
                if v is not None:
                    c = dict(case)
                    c["x"] = case["x"][:t] + [rat(v)] + case["x"][t + 1 :]
                    yield c
        if not case["ds"]["normalize"]:
            # the interval of one component shrunk around the point: frozen, narrower than the step
            for t in eff_idx(case):
                xt, h = Fraction(case["x"][t]), step_of(case, t)
                for lo2, up2 in ((xt, xt), (xt - h / 2, xt), (xt, xt + h / 2), (xt - h / 4, xt + h / 4)):
                    c = dict(case)
                    c["ds"] = {
                        "lb": case["ds"]["lb"][:t] + [rat(lo2)] + case["ds"]["lb"][t + 1 :],
                        "ub": case["ds"]["ub"][:t] + [rat(up2)] + case["ds"]["ub"][t + 1 :],
                        "normalize": False,
                    }
                    yield c
    for _ in range(60):
        c = gen_exact_case(
            rng,
            scheme=case["scheme"],
            n=n,
            vec=isinstance(case["step"], list),
            with_ds=bool(case.get("ds")),
            **({"idx": [], "norm_frozen_ok": False} if problem else {}),
        )
        if problem:
            c.update(level="problem", scalar_out=False, step_via="arg")
        elif case.get("stream") == "rounded":
            c = gen_rounded_case(rng)
        yield c


# --------------------------------------------------------------------------- sessions (one approximator, many calls)


def sample_x(rng, n: int, ds, hs: list[Fraction]) -> list[Fraction]:
    x = []
    for c in range(n):
        if not ds:
            x.append(Fraction(0) if rng.chance(0.25) else Fraction(rng.randint(-16, 16), 4))
            continue
        lb, ub = ds["lb"][c], ds["ub"][c]
        wl, wu = work_bounds({"ds": ds}, c)
        h = hs[c]
        r = rng.random()
        if r < 0.3 and wu is not None:
            v = wu
        elif r < 0.4 and wl is not None:
            v = wl
        elif r < 0.6 and wu is not None and (wl is None or wu - h / 2 >= wl):
            v = wu - h / 2
        elif wl is not None and wu is not None:
            v = wl + (wu - wl) * Fraction(rng.randint(1, 15), 16)
        elif wu is not None:
            v = wu - Fraction(rng.randint(1, 16), 4)
        elif wl is not None:
            v = wl + Fraction(rng.randint(1, 16), 4)
        else:
            v = Fraction(rng.randint(-16, 16), 4)
        x.append(v)
    return x


def gen_session(rng) -> dict[str, Any]:
    """One approximator object used for several calls: f_gradient with step None / scalar / array and subsets in any
    order, the `step` setter, generate_perturbations, kwargs forwarded to the function, the same input array reused
    in place between the calls, compute_optimal_step (call points only) as the last call."""
    base = gen_exact_case(rng, with_ds=rng.chance(0.6))
    scheme, n = base["scheme"], base["n"]
    ds = base["ds"]
    deg = max(e for p in base["polys"] for _, ex in p for e in ex)
    smax = {0: 20, 1: 20, 2: 14, 3: 10, 4: 9}[deg]

    def rand_step(allow_vec=True):
        if allow_vec and rng.chance(0.35):
            return [rat(Fraction(1, 2 ** rng.randint(8, smax))) for _ in range(n)]
        return rat(Fraction(1, 2 ** rng.randint(8, smax)))

    sess = {"scheme": scheme, "n": n, "m": base["m"], "polys": base["polys"], "ds": ds,
            "ctor_step": rand_step(allow_vec=scheme != "cs"), "ops": [], "parallel": rng.chance(0.15)}
    cur = sess["ctor_step"]
    for _ in range(rng.randint(2, 6)):
        kind = rng.pick(["grad", "grad", "grad", "gen", "setstep"])
        if kind == "setstep":
            st = rand_step(allow_vec=scheme != "cs")
            sess["ops"].append({"op": "setstep", "step": st})
            cur = st
            continue
        for _try in range(10):
            st = None if rng.chance(0.4) else rand_step()
            eff = cur if st is None else st
            hs = [Fraction(v) for v in eff] if isinstance(eff, list) else [Fraction(eff)] * n
            x = sample_x(rng, n, ds, hs)
            idx = rng.sample(range(n), rng.randint(0, n))
            op = {"op": kind, "x": [rat(v) for v in x], "step": st, "idx": idx, "scale": rng.pick([1, 1, 2, 4])}
            eq = session_case(sess, op, cur)
            if in_scope(eq) and exact_ok(eq):
                sess["ops"].append(op)
                break
    if scheme != "cs" and ds and rng.chance(0.3) and not isinstance(cur, list):
        hs = [Fraction(cur)] * n
        sess["ops"].append({"op": "optstep", "x": [rat(v) for v in sample_x(rng, n, ds, hs)]})
    return sess


def session_case(sess, op, cur_step) -> dict[str, Any]:
    """The single-call case equivalent to one op of a session (property text: step None = the default step)."""
    st = op.get("step")
    scale = op.get("scale", 1)
    polys = [[[rat(Fraction(c) * scale), ex] for c, ex in p] for p in sess["polys"]]
    return {"scheme": sess["scheme"], "n": sess["n"], "m": sess["m"], "polys": polys, "x": op["x"],
            "idx": op.get("idx", []), "step": cur_step if st is None else st, "ds": sess["ds"], "parallel": False,
            "scalar_out": False, "step_via": "arg"}


def _step_py(st):
    return np.array([float(Fraction(s)) for s in st]) if isinstance(st, list) else float(Fraction(st))


def run_session(sess) -> list[dict[str, Any]]:
    from gemseo.utils.derivatives.centered_differences import CenteredDifferences
    from gemseo.utils.derivatives.complex_step import ComplexStep
    from gemseo.utils.derivatives.finite_differences import FirstOrderFD

    cls = {"fd": FirstOrderFD, "cd": CenteredDifferences, "cs": ComplexStep}[sess["scheme"]]
    log_fd = log_path = None
    if sess.get("parallel"):
        fd0, log_path = tempfile.mkstemp(prefix="c16sess")
        os.close(fd0)
        log_fd = os.open(log_path, os.O_WRONLY | os.O_APPEND)
    fn = PolyFunction(sess["polys"], record_fd=log_fd)
    kwargs: dict[str, Any] = {}
    if sess["ds"]:
        kwargs["design_space"] = make_design_space(sess)
        kwargs["normalize"] = bool(sess["ds"]["normalize"])
    if sess.get("parallel"):
        kwargs.update(parallel=True, n_processes=2)
    try:
        return _run_session_ops(sess, cls, fn, kwargs, log_path)
    finally:
        if log_fd is not None:
            os.close(log_fd)
            os.unlink(log_path)


def _run_session_ops(sess, cls, fn, kwargs, log_path) -> list[dict[str, Any]]:
    def all_calls():
        return read_call_log(log_path) if log_path else fn.calls

    out = []
    try:
        approx = cls(fn, step=_step_py(sess["ctor_step"]), **kwargs)
    except Exception as e:  # noqa: BLE001
        return [{"exc": common.exc_class(e), "exc_msg": "constructor: " + repr(e)[:140], "calls": []}]
    xbuf = np.zeros(sess["n"])
    for op in sess["ops"]:
        o: dict[str, Any] = {}
        start = len(all_calls())
        try:
            if op["op"] == "setstep":
                approx.step = _step_py(op["step"])
                o["ok"] = True
            else:
                xbuf[:] = [float(Fraction(v)) for v in op["x"]]
                before = xbuf.copy()
                if op["op"] == "grad":
                    kw = {} if op["scale"] == 1 else {"scale": op["scale"]}
                    if op["step"] is None:
                        o["J"] = np.asarray(approx.f_gradient(xbuf, x_indices=list(op["idx"]), **kw))
                    else:
                        o["J"] = np.asarray(approx.f_gradient(xbuf, step=_step_py(op["step"]), x_indices=list(op["idx"]), **kw))
                elif op["op"] == "gen":
                    st = None if op["step"] is None else _step_py(op["step"])
                    perts, steps = approx.generate_perturbations(sess["n"], xbuf, x_indices=list(op["idx"]), step=st)
                    o["P"] = np.asarray(perts)
                    o["S"] = steps
                else:
                    approx.compute_optimal_step(xbuf)
                    o["ok"] = True
                o["mutated"] = not np.array_equal(before, xbuf)
        except Exception as e:  # noqa: BLE001
            o["exc"] = common.exc_class(e)
            o["exc_msg"] = repr(e)[:160]
        o["calls"] = list(all_calls()[start:])
        o["inexact"] = fn.inexact
        o["fmax"] = fn.fmax
        out.append(o)
    return out


def session_lines(sess) -> list[str]:
    def st(s):
        return "v:" + ",".join(s) if isinstance(s, list) else "s:" + s

    lines = ["new " + st(sess["ctor_step"])]
    cur = sess["ctor_step"]
    for op in sess["ops"]:
        if op["op"] == "setstep":
            lines.append("setstep " + st(op["step"]))
            cur = op["step"]
        elif op["op"] in ("grad", "gen"):
            eq = session_case(sess, op, cur)
            line = case_line(eq, "ser")
            if op["step"] is None:
                line = re.sub(r" step=\S+", " step=default", line)
            if op["op"] == "gen":
                line = re.sub(r" poly=\S+", "", line.replace("grad " + sess["scheme"] + " ser", "gen " + sess["scheme"]))
            lines.append(line)
        else:
            lines.append("new " + st(cur))  # compute_optimal_step is not modelled: keeps the driver in step
    return lines


def check_sessions(res: Result, sessions: list[dict[str, Any]]) -> None:
    if not sessions:
        return
    all_lines, spans = [], []
    for sess in sessions:
        ls = session_lines(sess)
        spans.append((len(all_lines), len(ls)))
        all_lines += ls
    answers = common.run_lean_driver(PID, all_lines)
    for sess, (a0, cnt) in zip(sessions, spans):
        res.evaluations += 1
        res.count("session:parallel" if sess.get("parallel") else "session:serial")
        res.nontrivial("session " + " | ".join(all_lines[a0 : a0 + cnt]))
        obs = run_session(sess)
        sch = sess["scheme"]
        if len(obs) != len(sess["ops"]):
            res.violate("oracle", f"{sch}-raises[session]", obs[0].get("exc_msg", "constructor failed"), {"session": sess})
            continue
        cur = sess["ctor_step"]
        agree = True
        for t, (op, o) in enumerate(zip(sess["ops"], obs)):
            ans = answers[a0 + 1 + t]
            res.count("session-op:" + op["op"] + ("" if op.get("step", 0) is not None else ":default-step"))
            bad: list[tuple[str, str]] = []
            msg = ""
            if op["op"] == "setstep":
                cur = op["step"]
                if "exc" in o:
                    bad.append((f"{sch}-raises[session-setstep]", o["exc_msg"]))
            elif op["op"] == "grad":
                eq = session_case(sess, op, cur)
                bad = [(k.replace("[", "[session,"), m) for k, m in oracle(eq, o)]
                ok, _, msg = compare(eq, o, ans)
                msg = "" if ok else msg
            elif op["op"] == "gen":
                eq = session_case(sess, op, cur)
                if "exc" in o:
                    bad.append((f"{sch}-raises[session-gen]", o["exc_msg"]))
                else:
                    msg = compare_gen(eq, o, ans)
                    if sess["ds"] and sch != "cs":
                        for col in o["P"].T:
                            for c, v in enumerate(col):
                                _, up = work_bounds(eq, c)
                                if up is not None and not F(float(np.real(v))) <= up:
                                    bad.append((f"{sch}-exceeds-upper-bound[session-gen]", f"generate_perturbations: component {c} = {F(float(np.real(v)))} > {up}"))
                                    break
            else:
                if "exc" in o:
                    bad.append((f"{sch}-raises[session-optstep]", o["exc_msg"]))
                for rep, _ in o["calls"]:
                    for c, v in enumerate(rep):
                        _, up = work_bounds({"ds": sess["ds"]}, c)
                        if up is not None and not v <= up:
                            bad.append((f"{sch}-exceeds-upper-bound[session-optstep]", f"compute_optimal_step called the function at component {c} = {v} > upper bound {up}"))
                            break
            if o.get("mutated"):
                bad.append((f"{sch}-mutates-input[session]", f"op {t} ({op['op']}) modified the caller's input array"))
            for key, m in bad:
                res.count("oracle-fail:" + key)
                res.violate("oracle", key, m, {"session": sess, "failing_op": t, "what": m})
            if msg:
                agree = False
                res.disagreements += 1
                if not bad and not any(v.kind == "oracle" for v in res.violations):
                    res.violate("correspondence", f"session-model-vs-impl[{sch}]",
                                f"op {t} ({op['op']}) of a session differs from the model: {msg}",
                                {"session": sess, "failing_op": t, "protocol_lines": all_lines[a0 : a0 + cnt], "model": ans,
                                 "correspondence": "Driver/C16.lean new/setstep/grad/gen"})
            if op["op"] == "optstep":
                break
        if agree:
            res.traces_validated += 1


def compare_gen(eq, o, ans: str) -> str:
    """generate_perturbations: columns in order (and the signed steps of forward differences)."""
    if ans.startswith("E:") or ans.startswith("bad"):
        return f"model rejects the arguments ({ans}), implementation returned perturbations"
    ppart, spart = ans.split(" ")
    cols = [] if ppart[2:] == "-" else [[Fraction(t) for t in c.split(",")] for c in ppart[2:].split(";")]
    P = o["P"]
    if P.ndim != 2 or P.shape != (eq["n"], len(cols)):
        return f"perturbation array of shape {P.shape}, model has {len(cols)} columns of {eq['n']} components"
    for k, col in enumerate(cols):
        for c, mv in enumerate(col):
            v = P[c, k]
            got = F(float(v.imag)) if eq["scheme"] == "cs" else F(float(np.real(v)))
            if eq["scheme"] == "cs" and float(v.real) != 0.0:
                return f"complex perturbation [{c},{k}] has a real part {v.real}"
            if got != mv:
                return f"perturbation [{c},{k}]: implementation {got}, model {mv}"
    if spart[2:] not in ("-", "[]") and eq["scheme"] == "fd":
        ms = [Fraction(t) for t in spart[2:].split(",")]
        try:
            got = [F(float(v)) for v in np.broadcast_to(np.asarray(o["S"], dtype=float), (len(ms),))]
        except ValueError:
            return f"steps {o['S']!r} cannot be matched with {len(ms)} perturbations"
        if got != ms:
            return f"signed steps: implementation {got}, model {ms}"
    return ""


# --------------------------------------------------------------------------- discipline level


def gen_disc_case(rng) -> dict[str, Any]:
    """A discipline with named, sized inputs/outputs; polynomial outputs of the flat input vector."""
    n_in = rng.pick([1, 2, 2, 3])
    in_sizes = [[f"x{i}", rng.pick([1, 1, 2, 3])] for i in range(n_in)]
    n = sum(s for _, s in in_sizes)
    while n > 5:
        big = max(range(n_in), key=lambda i: in_sizes[i][1])
        in_sizes[big][1] -= 1
        n = sum(s for _, s in in_sizes)
    n_out = rng.pick([1, 2, 2])
    out_sizes = [[f"y{i}", rng.pick([1, 2, 2])] for i in range(n_out)]
    m = sum(s for _, s in out_sizes)
    scheme = rng.pick(["fd", "cd", "cs"])
    deg = rng.pick([1, 2, 2, 3])
    for _ in range(60):
        polys = gen_polys(rng, n, m, deg)
        x = [Fraction(0) if rng.chance(0.2) else Fraction(rng.randint(-8, 8), 4) for _ in range(n)]
        smax = {1: 20, 2: 16, 3: 12}[deg]
        vec = scheme != "cs" and rng.chance(0.4)
        es = [rng.randint(8, smax) for _ in range(n)]
        if not vec:
            es = [es[0]] * n
        hs = [Fraction(1, 2**e) for e in es]
        base = {"scheme": scheme, "n": n, "m": m, "polys": polys, "x": [rat(v) for v in x], "idx": [],
                "step": [rat(h) for h in hs] if vec else rat(hs[0]), "ds": None}
        if exact_ok(base):
            break
    # selections for check_jacobian(indices=...): per variable None (absent) | int | list | "slice" | "ellipsis"
    sel_in = {}
    for name, s in in_sizes:
        r = rng.random()
        if r < 0.4:
            continue
        if r < 0.55:
            sel_in[name] = rng.randrange(s)
        elif r < 0.85:
            kk = rng.randint(1, s)
            sel_in[name] = rng.sample(range(s), kk)
        elif r < 0.93:
            sel_in[name] = "ellipsis"
        else:
            sel_in[name] = ["slice", 0, rng.randint(1, s)]
    sel_out = {}
    for name, s in out_sizes:
        r = rng.random()
        if r < 0.5:
            continue
        if r < 0.7:
            sel_out[name] = rng.randrange(s)
        else:
            kk = rng.randint(1, s)
            sel_out[name] = sorted(rng.sample(range(s), kk))
    base.update({
        "in_sizes": in_sizes,
        "out_sizes": out_sizes,
        "sel_in": sel_in,
        "sel_out": sel_out,
        "wrong": None,
        "threshold_pow": 0,
    })
    return base


def _sel_to_py(v):
    if v == "ellipsis":
        return Ellipsis
    if isinstance(v, list) and v and v[0] == "slice":
        return slice(v[1], v[2])
    return v


def _sel_local(v, size: int) -> list[int]:
    """Documented meaning of a component selection."""
    if v is None or v == "ellipsis":
        return list(range(size))
    if isinstance(v, int):
        return [v]
    if isinstance(v, list) and v and v[0] == "slice":
        return list(range(size))[v[1] : v[2]]
    return list(v)


def disc_selected(case) -> tuple[list[int], list[int]]:
    """Global (flat) selected input and output component indices from the documented semantics."""
    cols, pos = [], 0
    for name, s in case["in_sizes"]:
        cols += [pos + i for i in _sel_local(case["sel_in"].get(name), s)]
        pos += s
    rows, pos = [], 0
    for name, s in case["out_sizes"]:
        rows += [pos + i for i in _sel_local(case["sel_out"].get(name), s)]
        pos += s
    return rows, cols


MODE = {"fd": "finite_differences", "cd": "centered_differences", "cs": "complex_step"}


def disc_step(case):
    st = case["step"]
    return [float(Fraction(s)) for s in st] if isinstance(st, list) else float(Fraction(st))


def run_disc(case) -> dict[str, Any]:
    """linearize() in the approximation mode, compute_approx_jac with x_indices, check_jacobian with indices."""
    from gemseo.utils.derivatives.derivatives_approx import DisciplineJacApprox

    out: dict[str, Any] = {}
    x0 = frl(case["x"])
    in_sizes = {k: s for k, s in case["in_sizes"]}
    out_sizes = {k: s for k, s in case["out_sizes"]}
    in_names, out_names = list(in_sizes), list(out_sizes)
    # 1. linearize in approximation mode
    try:
        d = PolyDiscipline(in_sizes, out_sizes, case["polys"], x0)
        d.set_jacobian_approximation(jac_approx_type=MODE[case["scheme"]], jax_approx_step=disc_step(case))
        jac = d.linearize(compute_all_jacobians=True)
        out["lin"] = flatten_jac(jac, case)
        out["lin_calls"] = sorted(d.calls)
    except Exception as e:  # noqa: BLE001
        out["lin_exc"] = common.exc_class(e) + ": " + repr(e)[:120]
    # 1b. the same with parallel differentiation (processes) and with differentiated inputs/outputs subsets
    if case.get("parallel_lin"):
        try:
            d = PolyDiscipline(in_sizes, out_sizes, case["polys"], x0)
            d.set_jacobian_approximation(
                jac_approx_type=MODE[case["scheme"]], jax_approx_step=disc_step(case), jac_approx_n_processes=2
            )
            out["lin_par"] = flatten_jac(d.linearize(compute_all_jacobians=True), case)
        except Exception as e:  # noqa: BLE001
            out["lin_par_exc"] = common.exc_class(e) + ": " + repr(e)[:120]
    if case.get("diff_io"):
        try:
            dins, douts = case["diff_io"]
            d = PolyDiscipline(in_sizes, out_sizes, case["polys"], x0)
            d.set_jacobian_approximation(jac_approx_type=MODE[case["scheme"]], jax_approx_step=disc_step(case))
            d.add_differentiated_inputs(dins)
            d.add_differentiated_outputs(douts)
            jac = d.linearize()
            out["lin_io"] = {o: {i_: np.asarray(jac[o][i_]).tolist() for i_ in jac[o]} for o in jac}
        except Exception as e:  # noqa: BLE001
            out["lin_io_exc"] = common.exc_class(e) + ": " + repr(e)[:120]
    # 2. compute_approx_jac with a component subset
    rows, cols = disc_selected(case)
    try:
        d = PolyDiscipline(in_sizes, out_sizes, case["polys"], x0)
        d.execute()
        ap = DisciplineJacApprox(d, approx_method=MODE[case["scheme"]], step=disc_step(case))
        sub = cols if case["sel_in"] else []
        jac = ap.compute_approx_jac(out_names, in_names, sub)
        out["sub"] = flatten_jac(jac, case)
    except Exception as e:  # noqa: BLE001
        out["sub_exc"] = common.exc_class(e) + ": " + repr(e)[:120]
    # 3. check_jacobian(indices=...) on a right / wrong analytic Jacobian
    indices = {k: _sel_to_py(v) for k, v in {**case["sel_in"], **case["sel_out"]}.items()}
    for label, wrong in (("right", None), ("wrong", case.get("wrong"))):
        if label == "wrong" and not wrong:
            continue
        try:
            je = {(wrong["row"], wrong["col"]): Fraction(wrong["delta"])} if wrong else None
            d = PolyDiscipline(in_sizes, out_sizes, case["polys"], x0, jac_error=je)
            ok = d.check_jacobian(
                derr_approx=MODE[case["scheme"]],
                step=disc_step(case),
                threshold=float(Fraction(2) ** case["threshold_pow"]),
                indices=indices,
            )
            out["chk_" + label] = bool(ok)
        except Exception as e:  # noqa: BLE001
            out["chk_" + label + "_exc"] = common.exc_class(e) + ": " + repr(e)[:120]
    return out


def flatten_jac(jac, case):
    """{out:{in: array}} -> ('ok', m x n list of floats) or ('shape', message)."""
    rows = []
    for on, os_ in case["out_sizes"]:
        blocks = []
        for iname, is_ in case["in_sizes"]:
            b = np.asarray(jac[on][iname])
            if b.shape != (os_, is_):
                return ("shape", f"d{on}/d{iname} has shape {b.shape}, expected {(os_, is_)}")
            blocks.append(b)
        full = np.concatenate(blocks, axis=1)
        rows += [list(r) for r in full]
    return ("ok", rows)


def disc_oracle(case, obs) -> list[tuple[str, str]]:
    """Discipline-level wrappers inherit the guarantees: shapes per name, error bounds per entry, unselected
    columns zero, check_jacobian accepts a correct Jacobian and rejects a wrong selected entry."""
    bad = []
    sch = case["scheme"]
    n, m = case["n"], case["m"]
    rows_sel, cols_sel = disc_selected(case)

    def check_matrix(tag, got, cols_expected):
        if got[0] != "ok":
            bad.append((f"disc-{tag}-shape[{sch}]", got[1]))
            return
        M = got[1]
        for c in range(n):
            for j in range(m):
                v = M[j][c]
                if not math.isfinite(v):
                    bad.append((f"disc-{tag}-nonfinite[{sch}]", f"entry [{j},{c}] is {v}"))
                    return
                if c in cols_expected:
                    D, allowed, which = allowed_bound(case, j, c)
                    if not abs(F(v) - D) <= allowed:
                        bad.append((f"disc-{tag}-error-bound[{sch}]",
                                    f"entry [{j},{c}] = {float(v)!r}, exact {float(D)!r}, allowed {which} = {float(allowed):.3e}"))
                        return

    if "lin_exc" in obs:
        bad.append((f"disc-linearize-raises[{sch}]", obs["lin_exc"]))
    else:
        check_matrix("linearize", obs["lin"], set(range(n)))
    if "lin_par_exc" in obs:
        bad.append((f"disc-parallel-linearize-raises[{sch}]", obs["lin_par_exc"]))
    elif "lin_par" in obs and "lin" in obs and obs["lin_par"] != obs["lin"]:
        bad.append((f"disc-parallel-differs[{sch}]", f"parallel linearize {obs['lin_par']} != serial {obs['lin']}"))
    if "lin_io_exc" in obs:
        bad.append((f"disc-linearize-io-raises[{sch}]", obs["lin_io_exc"]))
    elif "lin_io" in obs and "lin" in obs and obs["lin"][0] == "ok":
        dins, douts = case["diff_io"]
        full = obs["lin"][1]
        jac = obs["lin_io"]
        if sorted(jac) != sorted(douts) or any(sorted(jac[o]) != sorted(dins) for o in jac):
            bad.append((f"disc-linearize-io-names[{sch}]", f"linearize returned {{{', '.join(f'{o}: {sorted(jac[o])}' for o in jac)}}} for inputs {dins}, outputs {douts}"))
        else:
            ro = 0
            for on, os_ in case["out_sizes"]:
                co = 0
                for iname, is_ in case["in_sizes"]:
                    if on in douts and iname in dins:
                        want = [row[co : co + is_] for row in full[ro : ro + os_]]
                        if jac[on][iname] != want:
                            bad.append((f"disc-linearize-io-block[{sch}]", f"d{on}/d{iname} = {jac[on][iname]} differs from the block {want} of the full approximated Jacobian"))
                    co += is_
                ro += os_
    if "sub_exc" in obs:
        tag = "vec" if isinstance(case["step"], list) else "scalar"
        bad.append((f"disc-approx-subset-raises[{sch},{tag}]", obs["sub_exc"]))
    else:
        check_matrix("approx-subset", obs["sub"], set(cols_sel) if case["sel_in"] else set(range(n)))
    if "chk_right_exc" in obs:
        bad.append((f"disc-check-raises[{sch}]", obs["chk_right_exc"]))
    elif "chk_right" in obs:
        # analytic Jacobian is exact; the approximation error is far below the threshold by construction
        if obs["chk_right"] is not True:
            bad.append((f"disc-check-rejects-correct[{sch}]", "check_jacobian(indices) rejected the exact analytic Jacobian"))
    if case.get("wrong"):
        w = case["wrong"]
        selected = w["row"] in rows_sel and w["col"] in cols_sel
        if "chk_wrong_exc" in obs:
            bad.append((f"disc-check-raises[{sch}]", obs["chk_wrong_exc"]))
        elif selected and obs.get("chk_wrong") is not False:
            bad.append((f"disc-check-accepts-wrong[{sch}]", f"check_jacobian accepted an analytic Jacobian wrong by {w['delta']} at selected entry [{w['row']},{w['col']}]"))
        elif not selected and obs.get("chk_wrong") is not True:
            bad.append((f"disc-check-unselected[{sch}]", f"check_jacobian rejected because of the unselected entry [{w['row']},{w['col']}]"))
    return bad


def disc_model_lines(case) -> list[str]:
    """Model lines for the discipline level: the flat Jacobian (grad), its placement, the global indices."""
    sch = case["scheme"]
    rows_sel, cols_sel = disc_selected(case)
    sub = cols_sel if case["sel_in"] else []
    c_all = dict(case, idx=[])
    c_sub = dict(case, idx=list(sub))
    sizes_in = ",".join(str(s) for _, s in case["in_sizes"])
    sizes_out = ",".join(str(s) for _, s in case["out_sizes"])

    def sel_str(sizes, sel):
        parts = []
        for name, s in sizes:
            v = sel.get(name)
            parts.append("*" if v is None or v == "ellipsis" else (",".join(str(i) for i in _sel_local(v, s)) or "[]"))
        return ";".join(parts)

    return [
        case_line(c_all, "ser"),
        case_line(c_sub, "ser"),
        f"gidx sizes={sizes_in} sel={sel_str(case['in_sizes'], case['sel_in'])}",
        f"gidx sizes={sizes_out} sel={sel_str(case['out_sizes'], case['sel_out'])}",
    ]


def disc_compare(case, obs, answers: list[str], place_answer: str | None) -> str:
    """'' when code and model agree, else a message."""
    a_all, a_sub, g_in, g_out = answers
    rows_sel, cols_sel = disc_selected(case)
    n, m = case["n"], case["m"]

    def cmp_matrix(got, cols_by_c) -> str:
        if got[0] != "ok":
            return got[1]
        M = got[1]
        for c in range(n):
            for j in range(m):
                mv = cols_by_c.get(c, [Fraction(0)] * m)[j]
                v = M[j][c]
                if not math.isfinite(v) or not abs(F(v) - mv) <= TOL * abs(mv):
                    return f"entry [{j},{c}]: implementation {v!r}, model {mv}"
        return ""

    pm = parse_model(a_all)
    if "lin" in obs and pm[0] == "ok":
        msg = cmp_matrix(obs["lin"], {c: pm[1][c] for c in range(n)})
        if msg:
            return "linearize: " + msg
    elif "lin" not in obs:
        return "linearize raised: " + obs.get("lin_exc", "")
    ps = parse_model(a_sub)
    if "sub" in obs and ps[0] == "ok":
        sub = cols_sel if case["sel_in"] else list(range(n))
        if place_answer is not None:
            full = place_answer[5:]
            cols = [[Fraction(t) for t in c.split(",")] for c in full.split(";")]
            by_c = {c: cols[c] for c in range(n)}
        else:
            by_c = {c: ps[1][k] for k, c in enumerate(sub)}
        msg = cmp_matrix(obs["sub"], by_c)
        if msg:
            return "compute_approx_jac(x_indices): " + msg
    elif "sub" not in obs:
        return "compute_approx_jac raised: " + obs.get("sub_exc", "")
    want_in = ",".join(str(i) for i in cols_sel) or "[]"
    want_out = ",".join(str(i) for i in rows_sel) or "[]"
    if g_in != want_in or g_out != want_out:
        return f"global indices: model {g_in} / {g_out}, documented semantics {want_in} / {want_out}"
    return ""


# --------------------------------------------------------------------------- run


def load_corpus() -> list[dict[str, Any]]:
    d = common.CORPUS_DIR / PID
    out = []
    if d.is_dir():
        for p in sorted(d.glob("*.json")):
            out.append(json.loads(p.read_text()))
    return out


def check_cases(res: Result, cases: list[dict[str, Any]], rng, scope: bool = True, par: str | None = None) -> None:
    if not cases:
        return
    lines = [case_line(c, "par" if par else "ser") for c in cases]
    answers = common.run_lean_driver(PID, lines)
    for case, line, ans in zip(cases, lines, answers):
        res.evaluations += 1
        impl_ser = run_impl(case)
        impl_par = run_impl(case, par) if par else None
        observed = impl_par if par else impl_ser
        k = len(eff_idx(case))
        res.count(f"scheme={case['scheme']}")
        res.count(f"x_indices-form={case.get('idx_form', 'list')}")
        res.count(f"n={case['n']}")
        res.count(f"k={'all' if not case['idx'] else k}")
        res.count("step=vec" if isinstance(case["step"], list) else "step=scalar")
        res.count("ds=none" if not case.get("ds") else ("ds=normalized" if case["ds"]["normalize"] else "ds=physical"))
        if par:
            res.count(f"parallel={par}")
        if not scope:
            res.count("out-of-scope-probe")
        if case.get("ds") and scope:
            x = frl(case["x"])
            for c in eff_idx(case):
                lo, up = work_bounds(case, c)
                h = step_of(case, c)
                if up is not None and x[c] == up:
                    res.count("point:on-upper-bound")
                elif up is not None and x[c] + h > up:
                    res.count("point:within-one-step-of-upper-bound")
                if lo is not None and x[c] == lo:
                    res.count("point:on-lower-bound")
                if lo is not None and up is not None:
                    if lo == up:
                        res.count("ds:frozen-component(lb==ub)")
                    elif up - lo < h:
                        res.count("ds:interval-narrower-than-step")
                    elif up - lo < 2 * h:
                        res.count("ds:interval-narrower-than-two-steps")
                    if blocked_both(case, c):
                        res.count(f"point:x+h>ub-and-x-h<lb[{case['scheme']}{',parallel' if par else ''}{',problem' if case.get('level') == 'problem' else ''}]")
        if any(Fraction(v) == 0 for v in case["x"]):
            res.count("point:has-zero-component")
        if case["n"] >= 2 or case["m"] >= 2:
            res.nontrivial(line)
        res.sample({"protocol_line": line, "model": ans[:200], "impl_J": None if "J" not in impl_ser else impl_ser["J"].tolist()})
        bad = oracle(case, impl_ser, impl_par) if scope else []
        for key, msg in bad:
            res.count("oracle-fail:" + key)
            if any(v.key == key for v in res.violations):
                continue
            small = shrink(case, key, par)
            res.violate("oracle", key, msg, {"case": small, "parallel": par, "protocol_line": case_line(small), "what": msg})
        agree, exact, msg = compare(case, observed, ans)
        if agree:
            res.traces_validated += 1
            res.count("agree:exact" if exact else "agree:within-2^-51")
        else:
            res.disagreements += 1
            res.count("disagree")
            if not scope:
                res.count("probe-disagreement")
                res.notes.append(f"out-of-scope probe disagreement: {msg[:200]} line={line}")
                continue
            if bad or any(v.kind == "oracle" for v in res.violations):
                # a concrete failing input is already reported; finish() subsumes the symptom
                continue
            searches = res.extra.setdefault("failing_input_searches", 0)
            if searches >= 6:
                continue
            res.extra["failing_input_searches"] = searches + 1
            found = False
            for nb in neighbours(case, rng):
                if not in_scope(nb) or not exact_ok(nb):
                    continue
                i2 = run_impl(nb)
                b2 = oracle(nb, i2)
                if b2:
                    key, m2 = b2[0]
                    small = shrink(nb, key)
                    res.violate("oracle", key, m2, {"case": small, "protocol_line": case_line(small), "what": m2, "found_by": "failing-input search"})
                    found = True
                    break
            if not found:
                res.violate(
                    "correspondence",
                    f"model-vs-impl[{case['scheme']}]",
                    "implementation and Lean model disagree (no property-violating input found among the neighbours): " + msg,
                    {"case": case, "protocol_line": line, "model": ans, "impl": None if "J" not in observed else observed["J"].tolist(),
                     "impl_exc": observed.get("exc"), "correspondence": "Driver/C16.lean `grad`"},
                )


def check_disc_cases(res: Result, cases: list[dict[str, Any]]) -> None:
    if not cases:
        return
    lines: list[str] = []
    for c in cases:
        lines += disc_model_lines(c)
    answers = common.run_lean_driver(PID, lines)
    # second round: placement of the partial Jacobians
    place_lines, place_pos = [], {}
    for i, c in enumerate(cases):
        a_sub = answers[4 * i + 1]
        ps = parse_model(a_sub)
        _, cols_sel = disc_selected(c)
        if ps[0] == "ok" and c["sel_in"]:
            place_pos[i] = len(place_lines)
            cols = ";".join(",".join(rat(v) for v in col) for col in ps[1]) or "-"
            place_lines.append(f"place m={c['m']} n={c['n']} idx={','.join(str(k) for k in cols_sel) or '[]'} cols={cols}")
    place_answers = common.run_lean_driver(PID, place_lines) if place_lines else []
    # third round: the verdict of check_jacobian(indices) on the exact / wrong analytic Jacobian
    chk_lines, chk_pos = [], {}
    for i, c in enumerate(cases):
        pm = parse_model(answers[4 * i])
        if pm[0] != "ok":
            continue
        if i in place_pos:
            full = place_answers[place_pos[i]]
            if not full.startswith("full="):
                continue
            cols = [[Fraction(t) for t in col.split(",")] for col in full[5:].split(";")]
        else:
            cols = pm[1]
        n, m = c["n"], c["m"]
        b_rows = [[cols[cc][j] for cc in range(n)] for j in range(m)]
        rows_sel, cols_sel = disc_selected(c)
        x = frl(c["x"])
        exact = [[float(eval_poly(poly_partial(c["polys"][j], cc), x)) for cc in range(n)] for j in range(m)]
        t = rat(Fraction(2) ** c["threshold_pow"])
        for label in ("right", "wrong"):
            if label == "wrong" and not c.get("wrong"):
                continue
            a = [list(r) for r in exact]
            if label == "wrong":
                w = c["wrong"]
                a[w["row"]][w["col"]] = a[w["row"]][w["col"]] + float(Fraction(w["delta"]))
            chk_pos[(i, label)] = len(chk_lines)
            chk_lines.append(
                f"chk t={t} a={';'.join(','.join(rat(v) for v in r) for r in a)} "
                f"b={';'.join(','.join(rat(v) for v in r) for r in b_rows)} "
                f"rows={','.join(str(k) for k in rows_sel) or '[]'} cols={','.join(str(k) for k in cols_sel) or '[]'}"
            )
    chk_answers = common.run_lean_driver(PID, chk_lines) if chk_lines else []
    for i, c in enumerate(cases):
        res.evaluations += 1
        obs = run_disc(c)
        res.count("disc:" + c["scheme"])
        res.count("disc:indices" if (c["sel_in"] or c["sel_out"]) else "disc:no-indices")
        if c.get("wrong"):
            res.count("disc:wrong-analytic-jacobian")
        res.nontrivial("disc " + lines[4 * i + 1] + json.dumps([c["in_sizes"], c["out_sizes"], c["sel_in"], c["sel_out"]]))
        bad = disc_oracle(c, obs)
        for key, msg in bad:
            res.violate("oracle", key, msg, {"disc_case": c, "what": msg, "observed": {k: v for k, v in obs.items() if k.endswith("exc") or k.startswith("chk")}})
        pa = place_answers[place_pos[i]] if i in place_pos else None
        msg = disc_compare(c, obs, answers[4 * i : 4 * i + 4], pa)
        for label in ("right", "wrong"):
            if (i, label) in chk_pos and ("chk_" + label) in obs and not msg:
                want = chk_answers[chk_pos[(i, label)]]
                got = "1" if obs["chk_" + label] else "0"
                res.count("disc:check-verdict-compared")
                if want != got:
                    msg = f"check_jacobian verdict on the {label} analytic Jacobian: implementation {got}, model {want}"
        if msg:
            res.disagreements += 1
            if not bad:
                res.violate("correspondence", f"disc-model-vs-impl[{c['scheme']}]",
                            "discipline-level Jacobian differs from the model: " + msg,
                            {"disc_case": c, "model": answers[4 * i : 4 * i + 4], "correspondence": "Driver/C16.lean grad/place/gidx"})
        else:
            res.traces_validated += 1


def _pow2_at_least(v: Fraction) -> int:
    """Smallest integer p with 2**p >= v (v > 0)."""
    p = -60
    while Fraction(2) ** p < v:
        p += 1
    return p


def disc_threshold(case) -> tuple[int, Fraction, Fraction]:
    """(p, max allowed error, max |derivative|): threshold 2**p >= 4 x the analytic error bound of every entry."""
    maxb, maxd = Fraction(0), Fraction(0)
    for j in range(case["m"]):
        for c in range(case["n"]):
            D, allowed, _ = allowed_bound(case, j, c)
            maxb = max(maxb, allowed)
            maxd = max(maxd, abs(D))
    return max(-20, _pow2_at_least(4 * maxb)), maxb, maxd


def add_threshold(case) -> dict[str, Any]:
    c = dict(case)
    c["threshold_pow"] = disc_threshold(case)[0]
    return c


def add_wrong(case, rng) -> dict[str, Any]:
    """A wrong analytic entry, far outside threshold*(1+|approx|) + approximation error."""
    c = add_threshold(case)
    p, maxb, maxd = disc_threshold(case)
    t = Fraction(2) ** p
    w = 2 * (t * (2 + maxd + maxb) + maxb)
    delta = Fraction(2) ** _pow2_at_least(w) * rng.pick([1, -1])
    c["wrong"] = {"row": rng.randrange(case["m"]), "col": rng.randrange(case["n"]), "delta": rat(delta)}
    return c


def run(ctx) -> Result:
    res = Result(PID)
    res.rule = (
        "approximator cases (exact stream): scheme x ordered component subset (all ordered subsets of n<=4 systematically) x "
        "scalar/per-component power-of-two steps 2^-8..2^-26 (cs also 2^-30..2^-300) passed as argument or to the constructor "
        "x design space none/physical/normalised with points on, within one step of, and inside the bounds, zero components, "
        "tight design spaces (frozen components lb == ub, intervals narrower than one / two steps: neither x+h nor x-h is "
        "admissible; a dedicated stream forces one on a differentiated component, serial and multiprocessing-parallel), "
        "integer polynomials of degree<=3 (cs<=4), 1-3 outputs, scalar outputs, serial and multiprocessing-parallel; the same "
        "cases through OptimizationProblem(differentiation_method) with a physical-space function; sessions (one approximator: "
        "default step, step setter, generate_perturbations, kwargs, input array reused in place, compute_optimal_step call "
        "points); rounded stream (decimal points/steps, default steps) with explicit rounding terms; discipline cases: named "
        "sized inputs/outputs, linearize in approximation mode (serial/parallel, differentiated input/output subsets), "
        "compute_approx_jac(x_indices), check_jacobian(indices) on right and wrong analytic Jacobians; discipline histories: "
        "one DisciplineJacApprox (compute_approx_jac / check_jacobian after execute(point), step attribute changed in between) or "
        "one discipline in an approximation mode (add_differentiated_inputs/outputs + linearize(input_data), "
        "compute_all_jacobians, Discipline.check_jacobian(input_data, input_names, output_names, indices), linearization_mode "
        "setter; default / no / memory-full cache), 2-5 requests with the same or other output names, input names, name "
        "orders, x_indices, steps and points (points differ from the default inputs). "
        "A case is non-trivial when n>=2 or m>=2 (sessions and discipline cases always); distinct by protocol line(s)"
    )
    res.assumptions = [
        "steps are positive (numerically safe range 2^-8..2^-26, decimal 1e-3..1e-7 on the rounded stream); the point lies within its bounds; "
        "the bounds may be of any width, including frozen components (lb == ub) and intervals narrower than the step",
        "centered differences next to a bound (x±h outside the bounds) may fall back to a one-sided quotient: first-order bound there; "
        "forward/centered differences may evaluate below a lower bound when no direction is admissible (the property names upper bounds only)",
        "a frozen component of a normalised design space has the working interval [0, 0] (DesignSpace.normalize_vect divides by 1 when ub == lb)",
        "complex step: the step is relative to the component (x_c*h, or h when x_c = 0) as documented by the code; truncation term delta^2/6*sup|f'''| allowed besides rounding",
        "per-component steps have one entry per input component (DisciplineJacApprox docstring); entry c is the step of component c",
        "rounding: an allowance of 2^-50*(1+|derivative|+bound) is added to every analytic bound",
        "discipline histories: a request is made at the current data of the discipline (every direct compute_approx_jac / "
        "check_jacobian request is preceded by execute(point), linearize and Discipline.check_jacobian receive input_data); "
        "a Jacobian cached by the discipline for the same input data may be served again (cache semantics, C05/C11)",
    ]
    rng = ctx.rng
    corpus = load_corpus()
    approx_corpus = [c["case"] for c in corpus if "case" in c]
    # (batched by evaluation mode: one start of the Lean driver per batch)
    for mode in (None, "process"):
        check_cases(res, [c["case"] for c in corpus if "case" in c and c.get("parallel") == mode], rng, True, mode)
    disc_corpus = [c["disc_case"] for c in corpus if "disc_case" in c]
    check_disc_cases(res, disc_corpus)
    check_sessions(res, [c["session"] for c in corpus if "session" in c])
    if any("hist" in c for c in corpus):
        from harness import c16_hist

        c16_hist.check_hists(res, [c["hist"] for c in corpus if "hist" in c])
    res.count("corpus", len(corpus))
    # systematic: every ordered subset for n <= 4, every scheme, scalar/vector step, with/without design space
    reps = 3 if ctx.thorough else 1
    sysc = []
    for _ in range(reps):
        for n in (1, 2, 3, 4):
            for sub in ordered_subsets(n):
                for scheme in ("fd", "cd", "cs"):
                    for vec in (False, True):
                        for with_ds in (False, True):
                            sysc.append(gen_exact_case(rng, res, scheme=scheme, n=n, idx=sub, vec=vec, with_ds=with_ds))
    check_cases(res, sysc, rng)
    res.count("systematic-subsets", len(sysc))
    # random
    nrand = 12000 if ctx.thorough else 700
    batch = [gen_exact_case(rng, res) for _ in range(nrand)]
    for i in range(0, len(batch), 2000):
        check_cases(res, batch[i : i + 2000], rng)
    # the same approximators reached through OptimizationProblem(differentiation_method=...), physical-space
    # function, normalised or not: bound safety where it matters in practice
    # tight design spaces: at least one differentiated component is frozen (lb == ub) or lives in an interval shorter
    # than one / two steps, so that neither x+h nor x-h is admissible (serial, then multiprocessing-parallel)
    ntight = 2400 if ctx.thorough else 240
    tcs = [gen_exact_case(rng, res, scheme=rng.pick(["fd", "fd", "cd", "cd", "cs"]), with_ds=True, force_tight=True)
           for _ in range(ntight)]
    check_cases(res, tcs, rng)
    res.count("stream=tight-design-space", len(tcs))
    tps = [gen_exact_case(rng, res, scheme=rng.pick(["fd", "fd", "cd"]), with_ds=True, force_tight=True)
           for _ in range(200 if ctx.thorough else 24)]
    check_cases(res, tps, rng, True, "process")
    pcs = []
    for t in range(1500 if ctx.thorough else 150):
        c = gen_exact_case(rng, res, with_ds=True, vec=False, idx=[], norm_frozen_ok=False, force_tight=t % 3 == 0)
        c.update(level="problem", scalar_out=False, step_via="arg")
        pcs.append(c)
    check_cases(res, pcs, rng)
    res.count("level=problem", len(pcs))
    # rounded stream: decimal points/steps and the default steps
    rcs = [gen_rounded_case(rng) for _ in range(3000 if ctx.thorough else 300)]
    rcs = [c for c in rcs if in_scope(c)]
    check_cases(res, rcs, rng)
    res.count("stream=rounded", len(rcs))
    # sessions: one approximator, many calls (default step, setter, generate_perturbations, kwargs, reused array)
    check_sessions(res, [gen_session(rng) for _ in range(2500 if ctx.thorough else 250)])
    # parallel == serial
    npar = 600 if ctx.thorough else 80
    check_cases(res, [gen_exact_case(rng, res) for _ in range(npar)], rng, True, "process")
    # discipline level
    ndisc = 1500 if ctx.thorough else 150
    dcs = []
    for _ in range(ndisc):
        c = gen_disc_case(rng)
        c = add_wrong(c, rng) if rng.chance(0.5) else add_threshold(c)
        if rng.chance(0.15):
            c["parallel_lin"] = True
        if rng.chance(0.5) and not isinstance(c["step"], list):
            # (a per-component step has one entry per *differentiated* input component: scalar steps only here)
            ins = [nm for nm, _ in c["in_sizes"]]
            outs = [nm for nm, _ in c["out_sizes"]]
            c["diff_io"] = [rng.sample(ins, rng.randint(1, len(ins))), rng.sample(outs, rng.randint(1, len(outs)))]
        dcs.append(c)
    check_disc_cases(res, dcs)
    # histories on ONE DisciplineJacApprox / one discipline in an approximation mode: successive requests with the
    # same inputs but other outputs, other input subsets / orders, other steps, x_indices, other points (away from
    # the default inputs), through compute_approx_jac / check_jacobian / linearize / Discipline.check_jacobian
    from harness import c16_hist

    hcs = [c16_hist.gen_hist(rng) for _ in range(2400 if ctx.thorough else 260)]
    for i in range(0, len(hcs), 400):
        c16_hist.check_hists(res, hcs[i : i + 400])
    res.count("stream=discipline-histories", len(hcs))
    # out-of-scope probes (information only)
    probes = []
    for _ in range(60):
        c = gen_exact_case(rng)
        r = rng.random()
        if r < 0.4 and c["n"] >= 2:
            c["idx"] = [rng.randrange(c["n"]) for _ in range(rng.randint(2, 3))]  # duplicates allowed
        elif r < 0.7:
            st = c["step"]
            c["step"] = [rat(-Fraction(s)) for s in st] if isinstance(st, list) else rat(-Fraction(st))
        else:
            c["idx"] = [c["n"] + 1]
        if not in_scope(c):
            probes.append(c)
    check_cases(res, probes, rng, scope=False)
    return res


def replay(path: str) -> int:
    data = json.loads(open(path).read())
    rp = data.get("replay", data)
    common.quiet_gemseo()
    if "case" in rp:
        case = rp["case"]
        par = rp.get("parallel")
        impl = run_impl(case)
        ip = run_impl(case, par) if par else None
        print("case:", case_line(case))
        print("impl:", impl.get("exc") or impl["J"].tolist(), "calls:", fmt_calls(impl["calls"]))
        print("model:", common.run_lean_driver(PID, [case_line(case)])[0])
        bad = oracle(case, impl, ip)
        for k, m in bad:
            print("ORACLE FAILS:", k, m)
        return 1 if bad else 0
    if "disc_case" in rp:
        c = rp["disc_case"]
        obs = run_disc(c)
        print({k: v for k, v in obs.items() if not k.endswith("calls")})
        bad = disc_oracle(c, obs)
        for k, m in bad:
            print("ORACLE FAILS:", k, m)
        return 1 if bad else 0
    if "hist" in rp:
        from harness import c16_hist

        return c16_hist.replay_hist(rp["hist"])
    if "session" in rp:
        sess = rp["session"]
        res = Result(PID)
        check_sessions(res, [sess])
        for ln in session_lines(sess):
            print("line:", ln)
        bad = [v for v in res.violations if v.kind == "oracle"]
        for v in res.violations:
            print(("ORACLE FAILS:" if v.kind == "oracle" else "MODEL DIFFERS:"), v.key, v.what)
        return 1 if bad else 0
    print(json.dumps(rp, indent=1))
    return 1
