"""C19 — independent reference laws (written from the mathematical definitions, not from GEMSEO).

A `Law` is built from the *documented meaning* of the constructor arguments of GEMSEO's
distribution classes (minimum/maximum/mode, mu/sigma, rate/loc, alpha/beta on [minimum, maximum],
location/scale/shape, mean/std or log-mean/log-std of a log-normal, ...).  Closed forms are used
where they exist (exact `Fraction`s for supports, means and variances of the uniform, triangular,
exponential and beta laws); special functions (`ndtr`, `betainc`, `gamma`) come from
`scipy.special` / `math`, i.e. never through GEMSEO's wrappers nor through its parameter mappings.
"""

from __future__ import annotations

import math
from fractions import Fraction
from typing import Any
from typing import Callable

from scipy import special as sc

Fr = Fraction


class Law:
    """A univariate law: support (None = infinite), mean, variance, cdf, inverse cdf."""

    def __init__(
        self,
        name: str,
        lb: Fraction | float | None,
        ub: Fraction | float | None,
        mean: Fraction | float,
        var: Fraction | float,
        cdf: Callable[[float], float],
        icdf: Callable[[float], float],
        sf: Callable[[float], float] | None = None,
    ) -> None:
        self.name = name
        self.lb, self.ub = lb, ub
        self.mean, self.var = mean, var
        self.cdf, self.icdf = cdf, icdf
        self.sf = sf or (lambda x: 1.0 - cdf(x))

    @property
    def std(self) -> float:
        return math.sqrt(float(self.var))

    def affine(self, a: float, b: float) -> Law:
        """Law of a*X + b (a != 0)."""
        if a > 0:
            lb = None if self.lb is None else a * self.lb + b
            ub = None if self.ub is None else a * self.ub + b
            return Law(
                f"{a}*{self.name}+{b}", lb, ub, a * self.mean + b, a * a * self.var,
                lambda x: self.cdf((x - b) / a), lambda p: a * self.icdf(p) + b,
                lambda x: self.sf((x - b) / a),
            )
        lb = None if self.ub is None else a * self.ub + b
        ub = None if self.lb is None else a * self.lb + b
        return Law(
            f"{a}*{self.name}+{b}", lb, ub, a * self.mean + b, a * a * self.var,
            lambda x: self.sf((x - b) / a), lambda p: a * self.icdf(1.0 - p) + b,
            lambda x: self.cdf((x - b) / a),
        )


def uniform(a, b) -> Law:
    a, b = Fr(a), Fr(b)
    fa, fb = float(a), float(b)
    return Law(
        "uniform", a, b, (a + b) / 2, (b - a) ** 2 / 12,
        lambda x: min(max((x - fa) / (fb - fa), 0.0), 1.0),
        lambda p: fa + p * (fb - fa),
        lambda x: min(max((fb - x) / (fb - fa), 0.0), 1.0),
    )


def triangular(a, m, b) -> Law:
    a, m, b = Fr(a), Fr(m), Fr(b)
    fa, fm, fb = float(a), float(m), float(b)

    def cdf(x):
        if x <= fa:
            return 0.0
        if x >= fb:
            return 1.0
        if x <= fm:
            return (x - fa) ** 2 / ((fb - fa) * (fm - fa))
        return 1.0 - (fb - x) ** 2 / ((fb - fa) * (fb - fm))

    def sf(x):
        if x <= fa:
            return 1.0
        if x >= fb:
            return 0.0
        if x <= fm:
            return 1.0 - (x - fa) ** 2 / ((fb - fa) * (fm - fa))
        return (fb - x) ** 2 / ((fb - fa) * (fb - fm))

    pm = (fm - fa) / (fb - fa)

    def icdf(p):
        if p <= pm:
            return fa + math.sqrt(p * (fb - fa) * (fm - fa))
        return fb - math.sqrt((1.0 - p) * (fb - fa) * (fb - fm))

    return Law(
        "triangular", a, b, (a + m + b) / 3,
        (a * a + b * b + m * m - a * b - a * m - b * m) / 18, cdf, icdf, sf,
    )


def exponential(rate, loc) -> Law:
    rate, loc = Fr(rate), Fr(loc)
    fr, fl = float(rate), float(loc)
    return Law(
        "exponential", loc, None, loc + 1 / rate, 1 / rate**2,
        lambda x: -math.expm1(-fr * (x - fl)) if x > fl else 0.0,
        lambda p: fl - math.log1p(-p) / fr,
        lambda x: math.exp(-fr * (x - fl)) if x > fl else 1.0,
    )


def normal(mu, sigma) -> Law:
    fm, fs = float(mu), float(sigma)
    return Law(
        "normal", None, None, Fr(mu), Fr(sigma) ** 2,
        lambda x: float(sc.ndtr((x - fm) / fs)),
        lambda p: fm + fs * float(sc.ndtri(p)),
        lambda x: float(sc.ndtr(-(x - fm) / fs)),
    )


def beta(alpha, beta_, a, b) -> Law:
    al, be, a, b = Fr(alpha), Fr(beta_), Fr(a), Fr(b)
    fal, fbe, fa, fb = float(al), float(be), float(a), float(b)
    return Law(
        "beta", a, b, a + (b - a) * al / (al + be),
        (b - a) ** 2 * al * be / ((al + be) ** 2 * (al + be + 1)),
        lambda x: float(sc.betainc(fal, fbe, min(max((x - fa) / (fb - fa), 0.0), 1.0))),
        lambda p: fa + (fb - fa) * float(sc.betaincinv(fal, fbe, p)),
        lambda x: float(sc.betainc(fbe, fal, min(max((fb - x) / (fb - fa), 0.0), 1.0))),
    )


def weibull_min(location, scale, shape) -> Law:
    g, s, k = float(location), float(scale), float(shape)
    g1 = math.gamma(1.0 + 1.0 / k)
    g2 = math.gamma(1.0 + 2.0 / k)
    return Law(
        "weibull_min", Fr(location), None, g + s * g1, s * s * (g2 - g1 * g1),
        lambda x: -math.expm1(-(((x - g) / s) ** k)) if x > g else 0.0,
        lambda p: g + s * (-math.log1p(-p)) ** (1.0 / k),
        lambda x: math.exp(-(((x - g) / s) ** k)) if x > g else 1.0,
    )


def weibull_max(location, scale, shape) -> Law:
    """The mirror image of the Weibull law: support ]-inf, location]."""
    base = weibull_min(0, scale, shape)
    law = base.affine(-1.0, float(location))
    law.name = "weibull_max"
    law.ub = Fr(location)
    return law


def lognormal_log(mu_log, sigma_log, location) -> Law:
    """location + exp(N(mu_log, sigma_log^2))."""
    m, s, g = float(mu_log), float(sigma_log), float(location)
    mean = g + math.exp(m + s * s / 2)
    var = math.expm1(s * s) * math.exp(2 * m + s * s)
    return Law(
        "lognormal", Fr(location), None, mean, var,
        lambda x: float(sc.ndtr((math.log(x - g) - m) / s)) if x > g else 0.0,
        lambda p: g + math.exp(m + s * float(sc.ndtri(p))),
        lambda x: float(sc.ndtr(-(math.log(x - g) - m) / s)) if x > g else 1.0,
    )


def lognormal_moments(mean, std, location) -> Law:
    """The shifted log-normal law whose mean and standard deviation are given."""
    mu, sd, g = Fr(mean), Fr(std), Fr(location)
    ratio2 = float((sd / (mu - g)) ** 2)
    s2 = math.log1p(ratio2)
    m = math.log(float(mu - g)) - s2 / 2
    law = lognormal_log(m, math.sqrt(s2), float(g))
    law.lb = g
    law.mean, law.var = mu, sd * sd  # by definition of the parametrisation
    return law


def dirac(value) -> Law:
    v = Fr(value)
    fv = float(v)
    return Law("dirac", v, v, v, Fr(0), lambda x: 1.0 if x >= fv else 0.0, lambda p: fv)


def truncated(law: Law, lo, hi) -> Law:
    """Law of X conditioned on lo <= X <= hi (None = no truncation on that side); numeric moments."""
    flo = -math.inf if lo is None else float(lo)
    fhi = math.inf if hi is None else float(hi)
    c_lo = 0.0 if lo is None else law.cdf(flo)
    c_hi = 1.0 if hi is None else law.cdf(fhi)
    mass = c_hi - c_lo
    lb = law.lb if lo is None else (Fr(lo) if law.lb is None else max(Fr(lo), Fr(law.lb)))
    ub = law.ub if hi is None else (Fr(hi) if law.ub is None else min(Fr(hi), Fr(law.ub)))

    def cdf(x):
        if x <= flo:
            return 0.0
        if x >= fhi:
            return 1.0
        return (law.cdf(x) - c_lo) / mass

    def icdf(p):
        return law.icdf(c_lo + p * mass)

    # moments through the quantile function: E[g(X)] = int_0^1 g(Q(p)) dp (adaptive QAGS, which copes
    # with the integrable end-point singularities of unbounded laws); the error estimates are kept
    from scipy.integrate import quad

    m1, e1 = quad(icdf, 0.0, 1.0, epsabs=1e-13, epsrel=1e-13, limit=400)
    m2, e2 = quad(lambda p: (icdf(p) - m1) ** 2, 0.0, 1.0, epsabs=1e-13, epsrel=1e-13, limit=400)
    out = Law(f"trunc({law.name})", lb, ub, m1, max(m2, 0.0), cdf, icdf)
    out.numeric_moments = True
    out.moment_error = max(e1, e2)
    return out


# --------------------------------------------------------------------------- families of GEMSEO


def law_of(family: str, params: dict[str, Any]) -> Law:
    """The law documented for a GEMSEO family and its constructor arguments (defaults as documented)."""
    p = dict(params)
    if family == "Uniform":
        return uniform(p.get("minimum", 0), p.get("maximum", 1))
    if family == "Normal":
        return normal(p.get("mu", 0), p.get("sigma", 1))
    if family == "Triangular":
        return triangular(p.get("minimum", 0), p.get("mode", Fr(1, 2)), p.get("maximum", 1))
    if family == "Exponential":
        return exponential(p.get("rate", 1), p.get("loc", 0))
    if family == "Beta":
        return beta(p.get("alpha", 2), p.get("beta", 2), p.get("minimum", 0), p.get("maximum", 1))
    if family == "Weibull":
        f = weibull_min if p.get("use_weibull_min", True) else weibull_max
        return f(p.get("location", 0), p.get("scale", 1), p.get("shape", 1))
    if family == "LogNormal":
        if p.get("set_log", False):
            law = lognormal_log(p.get("mu", 1), p.get("sigma", 1), p.get("location", 0))
            law.lb = Fr(p.get("location", 0))
            return law
        return lognormal_moments(p.get("mu", 1), p.get("sigma", 1), p.get("location", 0))
    if family == "Dirac":
        return dirac(p.get("variable_value", 0))
    raise KeyError(family)


# generic interfaced distributions: (SciPy name, SciPy kwargs) / (OpenTURNS name, OpenTURNS args)
# the native parameters are the user's; the reference is the textbook law.


def gumbel(loc, scale) -> Law:
    m, b = float(loc), float(scale)
    euler = 0.57721566490153286061
    return Law(
        "gumbel", None, None, m + b * euler, (math.pi * b) ** 2 / 6,
        lambda x: math.exp(-math.exp(-(x - m) / b)),
        lambda p: m - b * math.log(-math.log(p)),
        lambda x: -math.expm1(-math.exp(-(x - m) / b)),
    )


def logistic(loc, scale) -> Law:
    m, s = float(loc), float(scale)
    return Law(
        "logistic", None, None, Fr(loc), (math.pi * s) ** 2 / 3,
        lambda x: float(sc.expit((x - m) / s)),
        lambda p: m + s * float(sc.logit(p)),
        lambda x: float(sc.expit(-(x - m) / s)),
    )


def gamma(shape, rate, loc) -> Law:
    k, r, g = Fr(shape), Fr(rate), Fr(loc)
    fk, fr, fg = float(k), float(r), float(g)
    return Law(
        "gamma", g, None, g + k / r, k / r**2,
        lambda x: float(sc.gammainc(fk, max(x - fg, 0.0) * fr)),
        lambda p: fg + float(sc.gammaincinv(fk, p)) / fr,
        lambda x: float(sc.gammaincc(fk, max(x - fg, 0.0) * fr)),
    )


def rayleigh(loc, scale) -> Law:
    g, s = float(loc), float(scale)
    return Law(
        "rayleigh", Fr(loc), None, g + s * math.sqrt(math.pi / 2), (4 - math.pi) / 2 * s * s,
        lambda x: -math.expm1(-(((x - g) / s) ** 2) / 2) if x > g else 0.0,
        lambda p: g + s * math.sqrt(-2 * math.log1p(-p)),
        lambda x: math.exp(-(((x - g) / s) ** 2) / 2) if x > g else 1.0,
    )
