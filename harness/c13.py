"""C13 — parallel execution is order-preserving and equivalent to sequential execution.

Correspondence: the real `CallableParallelExecution.execute` is run with *harness-gated* tasks
(every task blocks until the harness releases it), so that the harness forces a chosen completion
order, for the thread and the (forked) process back-ends.  Every observed event (a worker takes a
task, a callback is called, the call returns/raises) is turned into a transition of the Lean
worker-pool model (Driver/C13.lean) and the model state is compared with what was observed after
every transition.  Higher layers (DOE, MDOParallelChain, DiscParallelLinearization, parallel
finite differences, shared MemoryFullCache) are compared with their sequential counterparts.
Histories of several `execute()` calls on ONE executor object are run call by call against the session
model (`call` lines), and workers sharing one full cache that execute then linearize are run under forced
interleavings of the cache writes, the real cache being compared with the `JCache` model after every write.
Tasks that are not pure — calls of `_Functor.__call__` on discipline objects (execution status left by a failed
task, `execute=False/True`, failures in `_run` or `_compute_jacobian`, the same object used again in the same call
and in the next one) and disciplines working in place on the input array they are handed (MDOParallelChain with
use_deep_copy on/off, DiscParallelExecution/Linearization) — are run against the effectful executor of the model
(`einit`/`ecall` lines: the objects' status and array after every transition).
No verdict depends on wall-clock time (see `unusable`, `usable_run`, `SKIP`).
Oracle: written from the property text (sequential map, callback multiset, failure isolation,
no hang), never from the model.
"""

from __future__ import annotations

import contextlib
import io
import itertools
import json
import queue
import threading
import time
from collections import Counter
from typing import Any

from harness import common
from harness.common import Result
from harness.common import rat
from harness.common import rats

PID = "C13"
SHRINK_S = 40.0  # wall-clock budget of one shrinking loop (a smaller replay is a convenience, not a verdict)
EVENT_WAIT_S = 20.0  # an expected event later than this: the harness stops steering the run (no verdict by itself)

TRUSTED_EXTRA = (
    "C13: queue.Queue / multiprocessing.Manager().Queue are FIFO exactly-once channels (assumed, exercised)",
    "C13: the OS scheduler is not modelled; only the set of schedules of the worker-pool transition system is "
    "(theorems quantify over all of them); gated tasks make the real code realise chosen schedules",
    "C13: pickling of workers/results through the manager queues (process back-end) is outside the model (C20)",
)

# ----------------------------------------------------------------------------- pool mirror
# The mirror is *test control* only: it tells the harness which tasks can be released next and
# which event to wait for.  It is neither the oracle nor the Lean model.


class Mirror:
    def __init__(self, n: int, n_procs: int, outcomes: list[str], lazy: bool, reraise: bool = True) -> None:
        self.n = n
        self.w = min(n, n_procs)
        self.outcomes = outcomes
        self.lazy = lazy
        self.reraise = reraise
        self.not_started = list(range(n))
        self.busy: list[int] = []
        self.qo: list[int] = []
        self.cb_blocked: int | None = None
        self.stopped = False
        self.unsynced: int | None = None
        for _ in range(self.w):
            self.busy.append(self.not_started.pop(0))

    def copy(self) -> Mirror:
        m = Mirror.__new__(Mirror)
        m.__dict__.update(self.__dict__)
        m.not_started = list(self.not_started)
        m.busy = list(self.busy)
        m.qo = list(self.qo)
        return m

    def actions(self) -> list[tuple]:
        acts: list[tuple] = []
        if self.unsynced is None:
            acts += [("F", k) for k in self.busy]
        if self.lazy and self.cb_blocked is not None:
            acts.append(("C",))
        return acts

    def _advance_collector(self) -> list[int]:
        consumed = []
        while self.cb_blocked is None and self.qo and not self.stopped:
            k = self.qo.pop(0)
            consumed.append(k)
            if k == self.unsynced:
                self.unsynced = None
            if self.outcomes[k] == "ok":
                if self.lazy:
                    self.cb_blocked = k
            elif self.outcomes[k] == "S" and self.reraise:
                self.stopped = True
        return consumed

    def apply(self, act: tuple) -> dict[str, Any]:
        """Apply an action; return which start event and which collector steps follow from it."""
        if act[0] == "F":
            k = act[1]
            self.busy.remove(k)
            self.qo.append(k)
            started = False
            if self.not_started:
                self.busy.append(self.not_started.pop(0))
                started = True
            if self.lazy and self.outcomes[k] == "ok" and not started and self.cb_blocked is not None:
                # nothing observable proves that this result reached queue_out: do not release another
                # task before the collector has consumed it (otherwise their order would be a race)
                self.unsynced = k
            return {"start": started, "consumed": self._advance_collector()}
        self.cb_blocked = None
        return {"start": False, "consumed": self._advance_collector()}

    def done(self) -> bool:
        return not self.busy and not self.not_started and self.cb_blocked is None


def all_scripts(n: int, n_procs: int, outcomes: list[str], lazy: bool, reraise: bool = True, cap: int = 200000):
    """Every action sequence the pool allows (exhaustive, depth-first)."""
    out: list[list[tuple]] = []

    def rec(m: Mirror, acc: list[tuple]) -> None:
        if len(out) >= cap:
            return
        if m.done():
            out.append(list(acc))
            return
        for a in m.actions():
            m2 = m.copy()
            m2.apply(a)
            acc.append(a)
            rec(m2, acc)
            acc.pop()

    rec(Mirror(n, n_procs, outcomes, lazy, reraise), [])
    return out


def random_script(rng: common.Rng, n: int, n_procs: int, outcomes: list[str], lazy: bool, reraise: bool, bias: str):
    m = Mirror(n, n_procs, outcomes, lazy, reraise)
    acc = []
    while not m.done():
        acts = m.actions()
        fs = [a for a in acts if a[0] == "F"]
        if bias == "reverse" and fs:
            a = max(fs, key=lambda t: t[1])  # always finish the most recently started task first
        elif bias == "pile" and fs and rng.chance(0.8):
            a = rng.pick(fs)  # let results pile up in queue_out before collecting
        else:
            a = rng.pick(acts)
        m.apply(a)
        acc.append(a)
    return acc


# ----------------------------------------------------------------------------- gated run of the real code
# case: {"xs": [distinct ints], "callables": [[a,b],...] (1 or n), "n_procs": int,
#        "outcomes": ["ok"|"F"|"S"], "backend": "thread"|"process", "lazy": bool,
#        "script": [["F",k]|["C"]], "reraise": bool, "wait": float, "submitted_cb": bool}


def init_line(case: dict[str, Any]) -> str:
    xs = case["xs"]
    out = case["outcomes"]
    reraise = case.get("reraise", True)
    specs = []
    multi = len(case["callables"]) > 1
    for j, (a, b) in enumerate(case["callables"]):
        ks = [j] if multi else range(len(xs))
        fails = [xs[k] for k in ks if k < len(xs) and (out[k] == "F" or (out[k] == "S" and not reraise))]
        stops = [xs[k] for k in ks if k < len(xs) and out[k] == "S" and reraise]
        specs.append(f"{a}:{b}:{'|'.join(map(str, fails)) or '-'}:{'|'.join(map(str, stops)) or '-'}")
    return f"init {case['n_procs']} {rats(xs)} {';'.join(specs) or '[]'}"


class _Callback:
    def __init__(self, lazy: bool) -> None:
        self.lazy = lazy
        self.log: list[tuple[int, Any]] = []
        self.events: queue.Queue = queue.Queue()
        self.sem = threading.Semaphore(0)
        self.timed_out = False

    def __call__(self, index: int, output: Any) -> None:
        self.log.append((index, output))
        self.events.put(index)
        if self.lazy and not self.sem.acquire(timeout=150.0):
            self.timed_out = True  # recorded: the run is then discarded (never a verdict)


def _worker_alive(ident: tuple[int, int], use_proc: bool) -> bool:
    pid, tid = ident
    if use_proc:
        try:
            with open(f"/proc/{pid}/stat") as fh:
                return fh.read().rsplit(")", 1)[1].split()[0] not in ("Z", "X")
        except OSError:
            return False
    return any(t.ident == tid for t in threading.enumerate())


def fmt_cbs(log) -> str:
    return ";".join(f"{i}:{rat(v)}" for i, v in log) or "[]"


class Hang(Exception):
    """The real run left the scripted schedule.  `timeout=True`: an expected event did not arrive within
    EVENT_WAIT_S (wall-clock: never a verdict by itself); `timeout=False`: an observed event contradicts
    the schedule the mirrored pool allows."""

    def __init__(self, msg: str, timeout: bool = True) -> None:
        super().__init__(msg)
        self.timeout = timeout


SKIP = "skip: an expected event timed out, the schedule could not be forced (no verdict)"


@contextlib.contextmanager
def short_waits(seconds: float = 4.0):
    """While a failing case is being shrunk an expected event is awaited for `seconds` only.  Harmless: a
    candidate whose schedule could not be forced in time is judged on its results alone (assertions that hold
    for every schedule), and a smaller replay is a convenience, never a verdict."""
    global EVENT_WAIT_S  # noqa: PLW0603
    old = EVENT_WAIT_S
    EVENT_WAIT_S = min(old, seconds)
    try:
        yield
    finally:
        EVENT_WAIT_S = old


def unusable(obs: dict[str, Any]) -> str | None:
    """Reason why a gated run cannot give any verdict (time-outs of the machinery), or None."""
    if obs.get("hang") is not None:
        return f"the call did not return in time ({obs['hang']})"
    if obs.get("gate_timeouts"):
        return f"{obs['gate_timeouts']} gated task(s) were not released in time and aborted"
    return None


def usable_run(res: Result, stream: str, runner, case):
    """Run a gated case; a run lost to time-outs is repeated once with doubled waits.  Returns the
    observations, or None when both attempts timed out (counted; the check then exits 2, not 0/1)."""
    global EVENT_WAIT_S  # noqa: PLW0603
    obs = runner(case)
    why = unusable(obs)
    if why is None:
        return obs
    res.count(f"{stream}:timed-out-once")
    old = EVENT_WAIT_S
    EVENT_WAIT_S = 2 * old
    try:
        obs = runner(case)
    finally:
        EVENT_WAIT_S = old
    why = unusable(obs)
    if why is None:
        return obs
    res.count(f"{stream}:skipped-timeout")
    res.extra.setdefault("unresolved_timeouts", []).append(f"{stream}: {why}")
    return None


def run_gated(case: dict[str, Any], launch, n: int, first_lines: list[str]) -> dict[str, Any]:
    """Run `launch(gate, cb)` (code under test, in a thread) under the case's script.

    `launch` must make the code under test process `n` gated tasks (task k signals its start on
    `gate.started` and blocks on `gate.release[k]`) with a pool of `case["n_procs"]` workers and
    call `cb(index, value)` as the result callback.  Returns the observations and the protocol
    lines of the corresponding transitions of the Lean worker-pool model.
    """
    from harness.c13_tasks import Gate

    outcomes = case["outcomes"]
    use_proc = case["backend"] == "process"
    lazy = bool(case.get("lazy"))
    reraise = bool(case.get("reraise", True))
    ack = bool(case.get("ack_done"))
    gate = Gate(n, use_proc, with_done=ack)
    cb = _Callback(lazy)
    obs: dict[str, Any] = {"hang": None, "notes": []}
    lines = list(first_lines) + ["S"] * n
    checks: list[tuple[int, str, str]] = []  # (line index, field, expected value of the field)
    box: dict[str, Any] = {}
    done = threading.Event()

    def runner() -> None:
        try:
            box["result"] = ("returned", launch(gate, cb))
        except BaseException as e:  # noqa: BLE001
            box["result"] = ("raised", e)
        finally:
            done.set()

    idents: list[tuple[int, int]] = []
    busy_wid: dict[int, int] = {}
    started_all: list[int] = []

    def get_start() -> tuple[int, int]:
        try:
            k, pid, tid = gate.started.get(timeout=EVENT_WAIT_S)
        except queue.Empty:
            raise Hang("no worker started the next task") from None
        if (pid, tid) not in idents:
            idents.append((pid, tid))
        started_all.append(k)
        return k, idents.index((pid, tid))

    def emit_take(k: int, wid: int) -> None:
        lines.append(f"T {wid}")
        checks.append((len(lines) - 1, "busy", f"{wid}:B{k}"))
        busy_wid[k] = wid

    def wait_cb(k: int) -> None:
        try:
            got = cb.events.get(timeout=EVENT_WAIT_S)
        except queue.Empty:
            raise Hang(f"callback for task {k} never called") from None
        if got != k:
            obs["notes"].append(f"callback for index {got} while {k} was expected")
        checks.append((len(lines) - 1, "cb", fmt_cbs(cb.log)))

    mirror = Mirror(n, case["n_procs"], outcomes, lazy, reraise)
    th = threading.Thread(target=runner, daemon=True)
    stderr = io.StringIO()
    with contextlib.redirect_stderr(stderr):
        th.start()
        try:
            for k, wid in sorted(get_start() for _ in range(mirror.w)):
                emit_take(k, wid)
            for act in case["script"]:
                act = tuple(act)
                if act not in mirror.actions():
                    raise Hang(f"script action {act} impossible in the mirrored pool state", timeout=False)
                if act[0] == "F":
                    k = act[1]
                    if k not in busy_wid:
                        raise Hang(f"task {k} was never started although the pool should run it", timeout=False)
                    eff = mirror.apply(act)
                    gate.release[k].set()
                    lines.append(f"F {busy_wid.pop(k)}")
                    if ack:
                        # tasks writing into their inputs: the body of task k is over before the next one is released
                        try:
                            got_k = gate.done.get(timeout=EVENT_WAIT_S)
                        except queue.Empty:
                            raise Hang(f"the body of task {k} did not report its end") from None
                        if got_k != k:
                            raise Hang(f"the body of task {got_k} ended while task {k} was released", timeout=False)
                    if eff["start"]:
                        emit_take(*get_start())
                else:
                    eff = mirror.apply(act)
                    cb.sem.release()
                for j in eff["consumed"]:
                    lines.append("C")
                    if outcomes[j] == "ok" and not case.get("no_cb"):
                        wait_cb(j)
                    elif outcomes[j] == "S" and reraise:
                        lines.append("X")
                        if not eff["start"]:
                            # the sentinels make the idle workers return: wait for that, it proves
                            # that the exception reached queue_out before any later result
                            t_end = time.time() + EVENT_WAIT_S
                            busy_now = set(busy_wid.values())
                            idle = [idents[w] for w in range(len(idents)) if w not in busy_now]
                            while any(_worker_alive(i, use_proc) for i in idle):
                                if time.time() > t_end:
                                    raise Hang("idle workers did not return after a re-raised exception")
                                time.sleep(0.0005)
            if not done.wait(EVENT_WAIT_S):
                raise Hang("the call did not return after every task was released")
        except Hang as h:
            # The real run left the scripted schedule (or an expected event never came): stop steering,
            # open every gate and let the call finish; it is a hang only if it still does not return.
            obs["deviation"] = str(h)
            obs["timeout"] = h.timeout
            gate.open_all()
            for _ in range(4 * n + 4):
                cb.sem.release()
            if not done.wait(EVENT_WAIT_S):
                obs["hang"] = str(h)
    if obs["hang"] is None and "deviation" not in obs:
        if "X" not in lines:
            lines.append("X")
        lines.extend(f"T {wid}" for wid in range(len(idents)))
        lines.append("result")
    extra_starts = []
    while True:
        try:
            k, _, _ = gate.started.get(timeout=0.02 if use_proc else 0.0)
            extra_starts.append(k)
        except queue.Empty:
            break
    obs["started"] = started_all + extra_starts
    obs["gate_timeouts"] = gate.timeouts + int(cb.timed_out)
    obs["cb_log"] = list(cb.log)
    obs["result"] = box.get("result", ("hang", None))
    obs["lines"] = lines
    obs["checks"] = checks
    return obs


def run_pool_case(case: dict[str, Any]) -> dict[str, Any]:
    """Gated run of the real `CallableParallelExecution.execute`."""
    from gemseo.core.parallel_execution.callable_parallel_execution import CallableParallelExecution

    from harness.c13_tasks import GatedCallable
    from harness.c13_tasks import StopError

    xs = case["xs"]
    key_of = {x: k for k, x in enumerate(xs)}
    sub_calls: list[float] = []

    def launch(gate, cb):
        callables = [GatedCallable(gate, a, b, key_of, case["outcomes"]) for a, b in case["callables"]]
        ex = CallableParallelExecution(
            callables,
            n_processes=case["n_procs"],
            use_threading=case["backend"] != "process",
            wait_time_between_fork=case.get("wait", 0.0),
            exceptions_to_re_raise=(StopError,) if case.get("reraise", True) else (),
        )
        kw = {}
        if case.get("submitted_cb"):
            kw["task_submitted_callback"] = lambda: sub_calls.append(time.time())
        return ex.execute(xs, exec_callback=cb, **kw)

    obs = run_gated(case, launch, len(xs), [init_line(case)])
    obs["submitted_calls"] = len(sub_calls)
    return obs


# ----------------------------------------------------------------------------- oracle (property text)


def expected_outputs(case: dict[str, Any]) -> list[Any]:
    """Sequential map: position i holds callable_i(x_i), None where the task raises."""
    multi = len(case["callables"]) > 1
    out = []
    for k, x in enumerate(case["xs"]):
        a, b = case["callables"][k if multi else 0]
        out.append(a * x + b if case["outcomes"][k] == "ok" else None)
    return out


def pool_oracle(case: dict[str, Any], obs: dict[str, Any]) -> list[tuple[str, str]]:
    from harness.c13_tasks import StopError

    bad: list[tuple[str, str]] = []
    n = len(case["xs"])
    exp = expected_outputs(case)
    reraise = case.get("reraise", True)
    stops = [k for k, o in enumerate(case["outcomes"]) if o == "S"] if reraise else []
    if unusable(obs):
        return []
    kind, val = obs["result"]
    exp_cbs = sorted((k, v) for k, v in enumerate(exp) if v is not None)
    log = obs["cb_log"]
    if not stops:
        if kind != "returned":
            bad.append(("unexpected-exception", f"execute raised {val!r} although no task raises a re-raised exception"))
        else:
            ok = isinstance(val, list) and len(val) == n and all(
                (e is None and v is None) or (e is not None and v is not None and v == e) for v, e in zip(val, exp)
            )
            if not ok:
                bad.append(("positional-results", f"returned {val!r}, the sequential map gives {exp!r}"))
        if not (sorted(log) == exp_cbs):
            bad.append(("callbacks", f"callback calls {log!r} are not exactly once per successful task with the matching index {exp_cbs!r}"))
    else:
        if not (kind == "raised" and isinstance(val, StopError) and val.args and val.args[0] in stops):
            bad.append(("reraise", f"a task raised an exception to re-raise but execute gave {kind} {val!r}"))
        if not (len(set(log)) == len(log) and all(e in exp_cbs for e in log)):
            bad.append(("callbacks", f"callback calls {log!r} are not at most once per successful task with the matching index"))
    cnt = Counter(obs["started"])
    if any(c > 1 for c in cnt.values()) or any(k not in range(n) for k in cnt):
        bad.append(("task-once", f"tasks were started {dict(cnt)!r}: some task was processed more than once"))
    elif not all(cnt.get(k, 0) == 1 for k in range(n)):
        bad.append(("task-once", f"tasks were started {dict(cnt)!r}: some task was never processed"))
    if case.get("submitted_cb") and obs["submitted_calls"] != 1:
        bad.append(("submitted-callback", f"task_submitted_callback called {obs['submitted_calls']} times"))
    return bad


# ----------------------------------------------------------------------------- model comparison


def parse_state(ans: str) -> dict[str, str]:
    return dict(tok.split("=", 1) for tok in ans.split(" ") if "=" in tok)


def result_string(obs: dict[str, Any]) -> str:
    from harness.c13_tasks import StopError

    kind, val = obs["result"]
    if kind == "returned":
        try:
            return "final=1 returned " + (",".join(common.orat(v) for v in val) or "[]")
        except Exception:  # noqa: BLE001
            return f"final=1 returned?{val!r}"
    if kind == "raised":
        return "final=1 raised" if isinstance(val, StopError) else "final=1 raised:" + common.exc_class(val)
    return "hang"


def compare_with_model(obs: dict[str, Any], answers: list[str]) -> str | None:
    """First difference between the observed run and the model run on the same transitions."""
    lines = obs["lines"]
    if obs.get("deviation") and obs.get("timeout"):
        return SKIP
    if obs.get("deviation"):
        return f"the real run left the schedule the model allows: {obs['deviation']} (observed starts {obs.get('started')})"
    for ln, a in zip(lines, answers):
        if a in ("disabled", "no-init", "bad-op", "bad-init"):
            return f"model answers `{a}` to transition `{ln}` observed in the real run"
    for idx, fld, want in obs["checks"]:
        st = parse_state(answers[idx])
        if fld == "busy":
            wid, b = want.split(":")
            ws = st.get("w", "").split(",")
            got = ws[int(wid)] if int(wid) < len(ws) else "?"
            if got != b:
                return f"after `{lines[idx]}` (line {idx}) the model has worker {wid} in state {got}, the real worker runs {b}"
        elif fld == "cb" and st.get("cb") != want:
            return f"after `{lines[idx]}` (line {idx}) the model callback log is {st.get('cb')}, the real one {want}"
    if obs["hang"] is None:
        want = result_string(obs)
        if answers[-1] != want:
            return f"model result `{answers[-1]}`, real `{want}`"
    return None


# ----------------------------------------------------------------------------- case generation


def make_case(xs, callables, n_procs, outcomes, backend, lazy, script, reraise=True, wait=0.0, submitted_cb=False):
    return {
        "xs": list(xs), "callables": [list(c) for c in callables], "n_procs": n_procs, "outcomes": list(outcomes),
        "backend": backend, "lazy": lazy, "script": [list(a) for a in script], "reraise": reraise, "wait": wait,
        "submitted_cb": submitted_cb,
    }


def distinct_inputs(rng: common.Rng, n: int) -> list[int]:
    xs: list[int] = []
    while len(xs) < n:
        x = rng.randint(-9, 9)
        if x not in xs:
            xs.append(x)
    return xs


def gen_callables(rng: common.Rng, n: int, multi: bool):
    if multi and n > 1:
        cs = []
        while len(cs) < n:
            c = [rng.randint(1, 4), rng.randint(-3, 3)]
            if c not in cs:
                cs.append(c)
        return cs
    return [[rng.randint(1, 4), rng.randint(-3, 3)]]


def exhaustive_cases(rng: common.Rng, max_n: int, alphabet: str, backend: str = "thread", spare_worker_upto: int = 99):
    """All scripts x all outcome assignments x worker counts 1..n+1 for n <= max_n (greedy collector); the count n+1
    (more workers than tasks) is only used for n <= spare_worker_upto."""
    cases = []
    for n in range(0, max_n + 1):
        for n_procs in range(1, n + 2):
            if n_procs > max(n, 1) + 1 or (n_procs > max(n, 1) and n > spare_worker_upto):
                continue
            for outs in itertools.product(alphabet, repeat=n):
                outcomes = [{"o": "ok", "F": "F", "S": "S"}[c] for c in outs]
                for script in all_scripts(n, n_procs, outcomes, False):
                    multi = rng.chance(0.5)
                    cases.append(make_case(distinct_inputs(rng, n), gen_callables(rng, n, multi), n_procs, outcomes,
                                           backend, False, script))
    return cases


def random_case(rng: common.Rng, backend: str, n_lo: int = 4, n_hi: int = 8) -> dict[str, Any]:
    n = rng.randint(n_lo, n_hi)
    n_procs = rng.pick([1, 2, 2, 3, 3, 4, n, n + 2])
    style = rng.pick(["ok", "ok", "fail", "fail", "stop"])
    if style == "ok":
        outcomes = ["ok"] * n
    elif style == "fail":
        outcomes = [rng.pick(["ok", "ok", "F"]) for _ in range(n)]
    else:
        outcomes = [rng.pick(["ok", "ok", "ok", "F", "S"]) for _ in range(n)]
    has_s = "S" in outcomes
    reraise = True if not has_s else rng.chance(0.8)
    lazy = (not (has_s and reraise)) and rng.chance(0.5)
    bias = rng.pick(["uniform", "reverse", "pile"])
    script = random_script(rng, n, n_procs, outcomes, lazy, reraise, bias)
    return make_case(distinct_inputs(rng, n), gen_callables(rng, n, rng.chance(0.5)), n_procs, outcomes, backend, lazy,
                     script, reraise=reraise, wait=rng.pick([0.0, 0.0, 0.0, 0.001]), submitted_cb=rng.chance(0.3))


def completion_order(case: dict[str, Any]) -> list[int]:
    return [a[1] for a in case["script"] if a[0] == "F"]


# ----------------------------------------------------------------------------- checking pool cases


def neighbours_pool(case: dict[str, Any], rng: common.Rng):
    """Neighbours of a case for the failing-input search."""
    n = len(case["xs"])
    for n_procs in {1, 2, n, n + 1} - {case["n_procs"]}:
        if n_procs >= 1:
            c = dict(case, n_procs=n_procs)
            for bias in ("reverse", "uniform"):
                c2 = dict(c, lazy=False, script=[list(a) for a in random_script(rng, n, n_procs, c["outcomes"], False, c.get("reraise", True), bias)])
                yield c2
    for k in range(n):
        outs = list(case["outcomes"])
        outs[k] = "ok" if outs[k] != "ok" else "F"
        yield dict(case, outcomes=outs, lazy=False,
                   script=[list(a) for a in random_script(rng, n, case["n_procs"], outs, False, case.get("reraise", True), "reverse")])
    for _ in range(10):
        yield random_case(rng, case["backend"], 2, 5)


def shrink_pool_case(case: dict[str, Any], key: str) -> dict[str, Any]:
    """Smaller case on which the oracle still reports `key` (drop tasks, fewer workers, simpler modes)."""

    def fails(c) -> bool:
        try:
            return any(k == key for k, _ in pool_oracle(c, run_pool_case(c)))
        except Exception:  # noqa: BLE001
            return False

    cur = case
    rng = common.make_rng(0, "shrink")
    improved = True
    budget = 40
    while improved and budget > 0:
        improved = False
        n = len(cur["xs"])
        cands = []
        for k in range(n):
            xs = cur["xs"][:k] + cur["xs"][k + 1:]
            outs = cur["outcomes"][:k] + cur["outcomes"][k + 1:]
            cs = cur["callables"] if len(cur["callables"]) == 1 else cur["callables"][:k] + cur["callables"][k + 1:]
            if len(cs) == 1 and len(cur["callables"]) > 1 and n - 1 > 1:
                continue
            for bias in ("reverse", "uniform"):
                cands.append(dict(cur, xs=xs, outcomes=outs, callables=cs, lazy=False, wait=0.0, submitted_cb=cur.get("submitted_cb", False),
                                  script=[list(a) for a in random_script(rng, n - 1, cur["n_procs"], outs, False, cur.get("reraise", True), bias)]))
        if cur["n_procs"] > 1:
            for bias in ("reverse", "uniform"):
                cands.append(dict(cur, n_procs=cur["n_procs"] - 1, lazy=False,
                                  script=[list(a) for a in random_script(rng, n, cur["n_procs"] - 1, cur["outcomes"], False, cur.get("reraise", True), bias)]))
        if cur["backend"] == "process":
            cands.append(dict(cur, backend="thread"))
        for k in range(n):
            if cur["outcomes"][k] != "ok":
                outs = list(cur["outcomes"])
                outs[k] = "ok"
                cands.append(dict(cur, outcomes=outs, lazy=False,
                                  script=[list(a) for a in random_script(rng, n, cur["n_procs"], outs, False, cur.get("reraise", True), "reverse")]))
        for c in cands:
            budget -= 1
            if budget <= 0:
                break
            if fails(c):
                cur = c
                improved = True
                break
    return cur


def describe(case: dict[str, Any]) -> str:
    return (f"{case['backend']} n={len(case['xs'])} n_processes={case['n_procs']} outcomes={''.join(o[0] for o in case['outcomes']) or '-'} "
            f"completion={completion_order(case)} lazy_collector={int(bool(case.get('lazy')))}")


def check_pool_cases(res: Result, cases: list[dict[str, Any]], rng: common.Rng, stream: str, deadline: float) -> None:
    runs = []
    for case in cases:
        if time.time() > deadline:
            res.notes.append(f"{stream}: stopped at the time limit after {len(runs)} of {len(cases)} cases")
            break
        obs = usable_run(res, stream, run_pool_case, case)
        if obs is not None:
            runs.append((case, obs))
    all_lines: list[str] = []
    for _, obs in runs:
        all_lines.extend(obs["lines"])
    answers = common.run_lean_driver(PID, all_lines)
    pos = 0
    for case, obs in runs:
        ans = answers[pos: pos + len(obs["lines"])]
        pos += len(obs["lines"])
        res.evaluations += 1
        n = len(case["xs"])
        order = completion_order(case)
        res.count(f"{stream}:n={n}")
        res.count(f"{stream}:workers={min(case['n_procs'], 4)}{'+' if case['n_procs'] > 4 else ''}")
        res.count(f"{stream}:{'out-of-order' if order != sorted(order) else 'in-order'}-completion")
        if any(o != "ok" for o in case["outcomes"]):
            res.count(f"{stream}:with-failing-tasks")
        if "S" in case["outcomes"] and case.get("reraise", True):
            res.count(f"{stream}:with-reraised-exception")
        if case.get("lazy"):
            res.count(f"{stream}:lazy-collector")
        if n >= 2:
            res.nontrivial((stream, obs["lines"][0], tuple(order), bool(case.get("lazy")), json.dumps(case["script"])))
        res.sample({"stream": stream, "case": describe(case), "protocol_head": obs["lines"][:1] + obs["lines"][n + 1: n + 8],
                    "impl_result": result_string(obs), "model_result": ans[-1] if ans else None})
        bad = pool_oracle(case, obs)
        for key, msg in bad:
            small = shrink_pool_case(case, key)
            msg = dict(pool_oracle(small, run_pool_case(small))).get(key, msg) if small is not case else msg
            res.violate("oracle", f"pool-{key}", f"{msg} [{describe(small)}]", {"kind": "pool", "case": small})
        diff = compare_with_model(obs, ans)
        if diff is None:
            res.traces_validated += 1
            continue
        if diff == SKIP:
            res.count(f"{stream}:schedule-not-forced-timeout")
            continue
        res.disagreements += 1
        if bad:
            continue
        found = False
        for nb in neighbours_pool(case, rng):
            o2 = run_pool_case(nb)
            b2 = pool_oracle(nb, o2)
            if b2:
                key, msg = b2[0]
                small = shrink_pool_case(nb, key)
                res.violate("oracle", f"pool-{key}", f"{msg} [{describe(small)}]", {"kind": "pool", "case": small})
                found = True
                break
        if not found:
            res.violate("correspondence", "pool-model-vs-impl",
                        f"worker-pool model and implementation disagree: {diff} [{describe(case)}]",
                        {"kind": "pool", "case": case, "protocol_lines": obs["lines"], "model_answers": ans,
                         "difference": diff, "correspondence": "Driver/C13.lean transitions S/T/F/C/X"})


# ----------------------------------------------------------------------------- DOE stream
# case: {"kind": "doe", "samples": [["p/q",..],..], "coeffs": [ints], "c0": int, "q": int, "fail": [sample indices],
#        "n_procs": int, "mode": "gated"|"ladder", "script": [...], "lazy": bool, "eval_jac": bool,
#        "constraint": bool, "wait": float, "sleep": [seconds per sample] (ladder)}

from fractions import Fraction  # noqa: E402


def _doe_samples(case):
    import numpy as np

    return np.array([[float(Fraction(t)) for t in row] for row in case["samples"]], dtype=float)


def _doe_keys(case) -> dict[tuple, int]:
    """Sample value -> key of its gate/failure flag = index of its first occurrence."""
    keys: dict[tuple, int] = {}
    for i, row in enumerate(_doe_samples(case)):
        keys.setdefault(tuple(float(v) for v in row), i)
    return keys


def _doe_fail_keys(case) -> tuple[int, ...]:
    keys = _doe_keys(case)
    smp = _doe_samples(case)
    return tuple(sorted({keys[tuple(float(v) for v in smp[i])] for i in case["fail"]}))


def build_doe_problem(case, token=None, sleep_of=None):
    from gemseo.algos.design_space import DesignSpace
    from gemseo.algos.optimization_problem import OptimizationProblem
    from gemseo.core.mdo_functions.mdo_function import MDOFunction

    from harness.c13_disc import GatedFunction

    d = len(case["samples"][0]) if case["samples"] else len(case["coeffs"])
    ds = DesignSpace()
    ds.add_variable("x", size=d, lower_bound=-64.0, upper_bound=64.0)
    pb = OptimizationProblem(ds)
    f = GatedFunction(case["coeffs"], case["c0"], case["q"], token, _doe_keys(case), _doe_fail_keys(case), sleep_of)
    pb.objective = MDOFunction(f, "f", jac=f.jac)
    if case.get("constraint"):
        g = GatedFunction([1.0] * d, -1.0, 1.0)
        pb.add_constraint(MDOFunction(g, "g", jac=g.jac), constraint_type="ineq")
    return pb


def db_snapshot(problem) -> list:
    import numpy as np

    out = []
    for k, vals in problem.database.items():
        out.append([
            [float(v) for v in k.unwrap()],
            {n: [float(t) for t in np.atleast_1d(v).ravel()] for n, v in sorted(vals.items())},
        ])
    return out


def _doe_execute(case, pb, n_procs, cb):
    from gemseo.algos.doe.factory import DOELibraryFactory

    lib = DOELibraryFactory().create("CustomDOE")
    kw = {}
    if n_procs > 1 and case.get("wait"):
        kw["wait_time_between_samples"] = case["wait"]
    lib.execute(pb, samples=_doe_samples(case), n_processes=n_procs, eval_jac=bool(case.get("eval_jac")),
                callbacks=[lambda i, data: cb(i, float(data[0]["f"]))], **kw)
    return db_snapshot(pb)


def run_doe_sequential(case) -> dict[str, Any]:
    log: list = []
    pb = build_doe_problem(case)
    try:
        snap = _doe_execute(case, pb, 1, lambda i, v: log.append((i, v)))
        return {"db": snap, "cb_log": log, "error": None}
    except Exception as e:  # noqa: BLE001
        return {"db": None, "cb_log": log, "error": repr(e)}


def doe_pool_view(case) -> dict[str, Any]:
    """The DOE's internal pool seen as a pool case (for the mirror and the model lines)."""
    n = len(case["samples"])
    outcomes = ["F" if i in case["fail"] else "ok" for i in range(n)]
    return {"n_procs": case["n_procs"], "outcomes": outcomes, "backend": "process", "lazy": case.get("lazy", False),
            "script": case.get("script", []), "reraise": False}


def run_doe_parallel(case) -> dict[str, Any]:
    from harness import c13_disc

    n = len(case["samples"])
    if case["mode"] == "gated":
        view = doe_pool_view(case)
        tok: list[int] = []

        def launch(gate, cb):
            tok.append(c13_disc.register(gate))
            pb = build_doe_problem(case, tok[0])
            return _doe_execute(case, pb, case["n_procs"], cb)

        xs = [Fraction(r[0]) for r in case["samples"]]
        a, b = case["coeffs"][0], case["c0"]
        fails = [rat(xs[i]) for i in case["fail"]]
        first = f"init {case['n_procs']} {rats(xs)} {a}:{b}:{'|'.join(fails) or '-'}:-"
        try:
            obs = run_gated(view, launch, n, [first])
        finally:
            for t in tok:
                c13_disc.unregister(t)
        kind, val = obs["result"]
        obs["db"] = val if kind == "returned" else None
        obs["error"] = None if kind == "returned" else repr(val)
        # the model's `result` line does not apply to a DOE (nothing is returned): drop it
        if obs["lines"] and obs["lines"][-1] == "result":
            obs["lines"].pop()
        return obs
    # duration ladder: nothing is gated, the completion order is whatever the sleeps produce
    log: list = []
    sleep_of = {k: case["sleep"][k] for k in range(n)}
    pb = build_doe_problem(case, None, sleep_of)
    with contextlib.redirect_stderr(io.StringIO()):
        try:
            snap = _doe_execute(case, pb, case["n_procs"], lambda i, v: log.append((i, v)))
            return {"db": snap, "cb_log": log, "error": None, "hang": None, "lines": [], "checks": []}
        except Exception as e:  # noqa: BLE001
            return {"db": None, "cb_log": log, "error": repr(e), "hang": None, "lines": [], "checks": []}


def doe_value(case, row) -> Fraction:
    x = [Fraction(t) for t in row]
    return Fraction(case["c0"]) + sum(Fraction(c) * v for c, v in zip(case["coeffs"], x)) + Fraction(case["q"]) * x[0] ** 2


def doe_oracle(case, par: dict[str, Any], seq: dict[str, Any]) -> list[tuple[str, str]]:
    """Property text: the parallel DOE produces the same database as the sequential one, which holds
    the non-failing samples in sample order with the exact function values; callbacks once per
    successful sample with the matching index."""
    bad: list[tuple[str, str]] = []
    if unusable(par):
        return []
    if par["error"] is not None:
        return [("raises", f"the parallel DOE raised {par['error']}")]
    if seq["error"] is not None:
        return [("sequential-raises", f"the sequential DOE raised {seq['error']}")]
    smp = [[float(Fraction(t)) for t in row] for row in case["samples"]]
    fail_rows = {tuple(smp[i]) for i in case["fail"]}
    exp_keys: list[tuple] = []
    for row in smp:
        if tuple(row) not in fail_rows and tuple(row) not in exp_keys:
            exp_keys.append(tuple(row))
    for name, snap in (("parallel", par["db"]), ("sequential", seq["db"])):
        keys = [tuple(e[0]) for e in snap]
        if keys != exp_keys:
            bad.append((f"{name}-db-keys", f"{name} database points {keys} are not the successful samples in sample order {exp_keys}"))
            continue
        for row, vals in snap:
            want = doe_value(case, [Fraction(v) for v in row])
            got = vals.get("f")
            if not (got is not None and len(got) == 1 and common.is_finite_num(got[0]) and common.F(got[0]) == want):
                bad.append((f"{name}-db-values", f"{name} database holds f={got} at {row}, exact value {want}"))
                break
    if not (par["db"] == seq["db"]):
        bad.append(("db-differs", f"parallel database {par['db']} differs from the sequential database {seq['db']}"))
    exp_cbs = sorted((i, float(doe_value(case, case["samples"][i]))) for i in range(len(smp)) if tuple(smp[i]) not in fail_rows)
    for name, log in (("parallel", par["cb_log"]), ("sequential", seq["cb_log"])):
        if not (sorted(log) == exp_cbs):
            bad.append((f"{name}-callbacks", f"{name} DOE callbacks {log} are not once per successful sample with the matching index {exp_cbs}"))
    return bad


def doe_model_line(case, cb_log) -> str:
    """`doe` line of the driver: samples are named by the index of their first occurrence."""
    keys = _doe_keys(case)
    smp = _doe_samples(case)
    ids = [keys[tuple(float(v) for v in row)] for row in smp]
    fails = sorted({ids[i] for i in case["fail"]})
    cbs = [i for i, _ in cb_log]
    return f"doe 1 0 {rats(ids)} {'|'.join(map(str, fails)) or '-'} {','.join(map(str, cbs)) or '[]'}"


def doe_keys_as_ids(case, snap) -> str:
    keys = _doe_keys(case)
    return ";".join(f"{keys[tuple(e[0])]}:{keys[tuple(e[0])]}" for e in snap) or "[]"


def gen_doe_case(rng: common.Rng, mode: str) -> dict[str, Any]:
    gated = mode == "gated"
    d = 1 if gated else rng.pick([1, 1, 2])
    n = rng.randint(2, 5) if gated else rng.randint(3, 6)
    rows: list[list[str]] = []
    while len(rows) < n:
        row = [rat(Fraction(rng.randint(-12, 12), 4)) for _ in range(d)]
        if row in rows and (gated or not rng.chance(0.5)):
            continue
        rows.append(row)
    if not gated and rng.chance(0.4) and n >= 3:
        rows[rng.randint(1, n - 1)] = list(rows[0])  # a repeated sample
    style = rng.pick(["ok", "ok", "fail"])
    fail = sorted(set(rng.subset(range(n), 0.35))) if style == "fail" else []
    # a repeated sample fails (or not) at all its occurrences: the function is deterministic
    vals = [tuple(r) for r in rows]
    fail = sorted({i for i in range(n) if any(vals[i] == vals[j] for j in fail)})
    n_procs = rng.pick([2, 2, 3, 4])
    case = {"kind": "doe", "samples": rows, "coeffs": [rng.randint(1, 3) for _ in range(d)], "c0": rng.randint(-2, 2),
            "q": 0 if gated else rng.pick([0, 1]), "fail": fail, "n_procs": n_procs, "mode": mode,
            "eval_jac": rng.chance(0.3), "constraint": rng.chance(0.3), "wait": rng.pick([0.0, 0.0, 0.002])}
    if gated:
        view = doe_pool_view(case)
        case["lazy"] = rng.chance(0.3)
        case["script"] = [list(a) for a in random_script(rng, n, n_procs, view["outcomes"], case["lazy"], False,
                                                         rng.pick(["reverse", "uniform", "pile"]))]
    else:
        # later samples finish first
        case["sleep"] = [round(0.03 * (n - i), 3) for i in range(n)]
    return case


def describe_doe(case) -> str:
    return (f"DOE {case['mode']} samples={[','.join(r) for r in case['samples']]} failing={case['fail']} "
            f"n_processes={case['n_procs']} eval_jac={int(bool(case.get('eval_jac')))} "
            f"completion={[a[1] for a in case.get('script', []) if a[0] == 'F'] or 'ladder'}")


def shrink_doe_case(case, key: str):
    def fails(c) -> bool:
        try:
            return any(k == key for k, _ in doe_oracle(c, run_doe_parallel(c), run_doe_sequential(c)))
        except Exception:  # noqa: BLE001
            return False

    cur = case
    rng = common.make_rng(0, "shrink-doe")
    budget = 25
    improved = True
    while improved and budget > 0:
        improved = False
        n = len(cur["samples"])
        cands = []
        for k in range(n):
            if n <= 1:
                break
            c = dict(cur, samples=cur["samples"][:k] + cur["samples"][k + 1:],
                     fail=[i - (i > k) for i in cur["fail"] if i != k])
            if c["mode"] == "gated":
                view = doe_pool_view(c)
                c["lazy"] = False
                c["script"] = [list(a) for a in random_script(rng, n - 1, c["n_procs"], view["outcomes"], False, False, "reverse")]
            else:
                c["sleep"] = [round(0.03 * (n - 1 - i), 3) for i in range(n - 1)]
            cands.append(c)
        for fld, val in (("eval_jac", False), ("constraint", False), ("wait", 0.0)):
            if cur.get(fld):
                cands.append(dict(cur, **{fld: val}))
        for c in cands:
            budget -= 1
            if budget <= 0:
                break
            if fails(c):
                cur = c
                improved = True
                break
    return cur


def check_doe_cases(res: Result, cases: list[dict[str, Any]], deadline: float) -> None:
    runs = []
    for case in cases:
        if time.time() > deadline:
            res.notes.append(f"doe: stopped at the time limit after {len(runs)} of {len(cases)} cases")
            break
        par = usable_run(res, "doe", run_doe_parallel, case)
        if par is not None:
            runs.append((case, par, run_doe_sequential(case)))
    lines: list[str] = []
    spans = []
    for case, par, _ in runs:
        start = len(lines)
        lines.extend(par["lines"])
        lines.append(doe_model_line(case, par["cb_log"]))
        spans.append((start, len(lines)))
    answers = common.run_lean_driver(PID, lines)
    for (case, par, seq), (lo, hi) in zip(runs, spans):
        res.evaluations += 1
        order = [i for i, _ in par["cb_log"]]
        res.count(f"doe-{case['mode']}:n={len(case['samples'])}")
        res.count(f"doe-{case['mode']}:{'out-of-order' if order != sorted(order) else 'in-order'}-completion")
        if case["fail"]:
            res.count(f"doe-{case['mode']}:with-failing-samples")
        if len({tuple(r) for r in case["samples"]}) < len(case["samples"]):
            res.count(f"doe-{case['mode']}:with-repeated-samples")
        res.nontrivial(("doe", json.dumps(case, sort_keys=True)))
        res.sample({"stream": "doe", "case": describe_doe(case), "parallel_db": par["db"], "callback_order": order})
        bad = doe_oracle(case, par, seq)
        for key, msg in bad:
            small = shrink_doe_case(case, key)
            if small is not case:
                msg = dict(doe_oracle(small, run_doe_parallel(small), run_doe_sequential(small))).get(key, msg)
            res.violate("oracle", f"doe-{key}", f"{msg} [{describe_doe(small)}]"[:900], {"kind": "doe", "case": small})
        ans = answers[lo:hi]
        diff = None
        if par["lines"]:
            fake = dict(par, hang="skip-result" if par["hang"] is None else par["hang"])
            diff = compare_with_model(fake, ans[:-1])
        if diff is None and par["db"] is not None:
            want = f"par={doe_keys_as_ids(case, par['db'])} seq={doe_keys_as_ids(case, seq['db'] or [])}"
            if ans[-1] != want:
                diff = f"DOE layer: model `{ans[-1]}`, real `{want}` (points named by first-occurrence index) for `{lines[hi - 1]}`"
        if diff is None:
            res.traces_validated += 1
        elif diff == SKIP:
            res.count("doe:schedule-not-forced-timeout")
        else:
            res.disagreements += 1
            if not bad:
                res.violate("correspondence", "doe-model-vs-impl", f"DOE model and implementation disagree: {diff} [{describe_doe(case)}]",
                            {"kind": "doe", "case": case, "protocol_lines": lines[lo:hi], "model_answers": ans, "difference": diff,
                             "correspondence": "Driver/C13.lean `doe` + pool transitions"})


# ----------------------------------------------------------------------------- discipline streams
# case: {"kind": "disc", "api": "exec"|"exec1"|"lin"|"chain"|"chainlin", "backend": "thread"|"process",
#        "n_procs": int, "discs": [[a, b, out_name], ...], "xs": ["p/q", ...] (one scalar input per task),
#        "fail": [task indices], "script": [...], "gate_on": "run"|"jac" (which method of the discipline is gated)}
# exec/lin: task i = discipline i on input i; exec1: one discipline, task i = input i (forked workers);
# chain/chainlin: MDOParallelChain, every discipline gets the same input xs[0].


def disc_pool_view(case) -> dict[str, Any]:
    n = disc_n(case)
    outcomes = ["F" if i in case["fail"] else "ok" for i in range(n)]
    return {"n_procs": case["n_procs"], "outcomes": outcomes, "backend": case["backend"], "lazy": False,
            "script": case["script"], "reraise": False, "no_cb": case["api"] in ("chain", "chainlin"),
            "ack_done": any(disc_scale(d) is not None for d in case["discs"])}


def disc_n(case) -> int:
    return len(case["xs"]) if case["api"] in ("exec1", "lin1") else len(case["discs"])


def disc_scale(d) -> Fraction | None:
    """In-place factor of a discipline spec `[a, b, out]` / `[a, b, out, c]` (None: the discipline only reads)."""
    return Fraction(d[3]) if len(d) > 3 and d[3] is not None else None


# --- protocol lines of the executor of discipline tasks (Model/C13.lean section 6, `einit` / `ecall`)


def eff_task(j: int, own, kind: str, c, a, b, fault: str) -> str:
    """`j:own:kind:c:a:b:fault` — task run on object `j`; own input (or `_`: the array the object holds);
    kind E|L|X; in-place factor (or `_`); output a*x+b / Jacobian a; fault o|r|j|R|J."""
    return f"{j}:{'_' if own is None else rat(Fraction(own))}:{kind}:{'_' if c is None else rat(Fraction(c))}:{rat(Fraction(a))}:{rat(Fraction(b))}:{fault}"


def eff_obj(val=0, failed: bool = False, writable: bool = True) -> str:
    return f"{rat(Fraction(val))}:{int(failed)}:{int(writable)}"


def eff_init_line(threaded: bool, n_procs: int, objs: list[str], tasks: list[str]) -> str:
    return f"einit {int(threaded)} {n_procs} {';'.join(objs) or '[]'} {';'.join(tasks) or '[]'}"


def eff_kind(api: str, execute: bool) -> str:
    return "E" if api in ("exec", "exec1", "chain") else ("L" if execute else "X")


def model_failed_flags(answers: list[str]) -> list[bool] | None:
    """`failed` flags of the objects in the last state the effectful executor printed."""
    for a in reversed(answers):
        st = parse_state(a)
        if "mem" in st:
            if st["mem"] == "[]":
                return []
            return [tok.split(":")[1] == "1" for tok in st["mem"].split(";")]
    return None


def disc_inputs(case) -> list[Fraction]:
    xs = [Fraction(t) for t in case["xs"]]
    if case["api"] in ("chain", "chainlin"):
        return [xs[0]] * len(case["discs"])
    return xs


def disc_init_line(case) -> str:
    xs = disc_inputs(case)
    specs = []
    lin = case["api"] in ("lin", "chainlin")
    api = case["api"]
    if api in ("exec", "exec1", "lin", "lin1"):
        # tasks = calls of `_Functor.__call__` on discipline objects (status, in-place input): effectful executor
        one = api in ("exec1", "lin1")
        kind = eff_kind(api, case.get("execute", True))
        fault = "j" if (kind != "E" and case.get("gate_on", "run") == "jac") else "r"
        tasks = []
        for i in range(disc_n(case)):
            d = case["discs"][0 if one else i]
            tasks.append(eff_task(0 if one else i, xs[i], kind, disc_scale(d), d[0], d[1], fault if i in case["fail"] else "o"))
        return eff_init_line(case["backend"] == "thread", case["n_procs"], [eff_obj()] * len(case["discs"]), tasks)
    if case["api"] == "exec1":
        a, b, _ = case["discs"][0]
        fails = [rat(xs[i]) for i in case["fail"]]
        specs.append(f"{a}:{b}:{'|'.join(fails) or '-'}:-")
    else:
        for j, (a, b, _) in enumerate(case["discs"]):
            fails = [rat(xs[j])] if j in case["fail"] else []
            specs.append((f"0:{a}" if lin else f"{a}:{b}") + f":{'|'.join(fails) or '-'}:-")
    return f"init {case['n_procs']} {rats(xs)} {';'.join(specs)}"


def _scalar(v) -> float | None:
    import numpy as np

    if v is None:
        return None
    arr = np.asarray(v.toarray() if hasattr(v, "toarray") else v, dtype=float).ravel()
    return float(arr[0]) if arr.size == 1 else None


def run_disc_case(case) -> dict[str, Any]:
    from gemseo.core.chains.parallel_chain import MDOParallelChain
    from gemseo.core.parallel_execution.disc_parallel_execution import DiscParallelExecution
    from gemseo.core.parallel_execution.disc_parallel_linearization import DiscParallelLinearization
    from numpy import array

    from harness import c13_disc
    from harness.c13_disc import GatedAffine

    api = case["api"]
    n = disc_n(case)
    xs = disc_inputs(case)
    thr = case["backend"] == "thread"
    tok: list[int] = []
    made: dict[str, Any] = {}

    opts = case.get("opts", {})
    made["cb2"], made["submitted"] = [], []

    def launch(gate, cb):
        tok.append(c13_disc.register(gate))
        inpl = [None if disc_scale(d) is None else float(disc_scale(d)) for d in case["discs"]]
        if api in ("exec1", "lin1"):
            a, b, out = case["discs"][0][:3]
            key_of = {(float(x),): i for i, x in enumerate(xs)}
            ds = [GatedAffine("D0", a, b, out, tok[0], key_of=key_of, fail_keys=tuple(case["fail"]),
                              gate_on=case.get("gate_on", "run"), inplace=inpl[0])]
        else:
            ds = [GatedAffine(f"D{i}", d[0], d[1], d[2], tok[0], key=i, fail_keys=(i,) if i in case["fail"] else (),
                              gate_on=case.get("gate_on", "run"), inplace=inpl[i])
                  for i, d in enumerate(case["discs"])]
        made["ds"] = ds
        inputs = [{"x": array([float(x)])} for x in xs]
        kw: dict[str, Any] = {}
        if opts.get("wait"):
            kw["wait_time_between_fork"] = opts["wait"]
        ekw: dict[str, Any] = {}
        if opts.get("submitted_cb"):
            ekw["task_submitted_callback"] = lambda: made["submitted"].append(1)

        def cbs(first):
            # `exec_callback` may be one callable or an iterable of callables (every one is called per result)
            return [first, lambda i, _o: made["cb2"].append(i)] if opts.get("cb_list") else first

        if api in ("exec", "exec1"):
            out_of = (lambda i: ds[0].out_name) if api == "exec1" else (lambda i: ds[i].out_name)
            pe = DiscParallelExecution(ds, n_processes=case["n_procs"], use_threading=thr, **kw)
            return pe.execute(inputs, exec_callback=cbs(lambda i, data: cb(i, _scalar(data[out_of(i)]))), **ekw)
        if api in ("lin", "lin1"):
            for d in ds:
                d.add_differentiated_inputs(["x"])
                d.add_differentiated_outputs([d.out_name])
            out_of = (lambda i: ds[0].out_name) if api == "lin1" else (lambda i: ds[i].out_name)
            pl = DiscParallelLinearization(ds, n_processes=case["n_procs"], use_threading=thr,
                                           execute=case.get("execute", True), **kw)
            return pl.execute(inputs, exec_callback=cbs(lambda i, wd: cb(i, _scalar(wd.jacobian[out_of(i)]["x"]))), **ekw)
        chain = MDOParallelChain(ds, use_threading=thr, n_processes=case["n_procs"])
        made["chain"] = chain
        if api == "chain":
            return dict(chain.execute(inputs[0]))
        return chain.linearize(inputs[0], compute_all_jacobians=True)

    try:
        obs = run_gated(disc_pool_view(case), launch, n, [disc_init_line(case)])
    finally:
        for t in tok:
            c13_disc.unregister(t)
    ds = made.get("ds", [])
    obs["disc_data"] = [{k: _scalar(v) for k, v in d.io.data.items()} for d in ds]
    obs["disc_jac"] = [{o: {i: _scalar(m) for i, m in row.items()} for o, row in (d.jac or {}).items()} for d in ds]
    obs["failed_status"] = [d.execution_status.value == d.execution_status.Status.FAILED for d in ds]
    obs["cb2"], obs["submitted"] = list(made["cb2"]), len(made["submitted"])
    return obs


def disc_result_string(case, obs) -> str:
    """Canonical form of what the API returned, comparable with the model's `result` line."""
    kind, val = obs["result"]
    if kind != "returned":
        return "hang" if kind == "hang" else "final=1 raised:" + common.exc_class(val)
    api = case["api"]
    try:
        if api in ("exec", "exec1"):
            outs = [case["discs"][0 if api == "exec1" else i][2] for i in range(len(val))]
            vals = [None if d is None else _scalar(d[o]) for d, o in zip(val, outs)]
        elif api in ("lin", "lin1"):
            vals = []
            for j in val:
                if j is None:
                    vals.append(None)
                else:
                    (o, row), = j.items()
                    vals.append(_scalar(row["x"]))
        elif api == "chain":
            vals = [obs["disc_data"][i].get(case["discs"][i][2]) for i in range(len(case["discs"]))]
        else:
            vals = [obs["disc_jac"][i].get(case["discs"][i][2], {}).get("x") for i in range(len(case["discs"]))]
        return "final=1 returned " + (",".join(common.orat(v) for v in vals) or "[]")
    except Exception as e:  # noqa: BLE001
        return f"final=1 returned?{type(e).__name__}"


def disc_oracle(case, obs) -> list[tuple[str, str]]:
    """Property text: results positionally matched to the inputs, a failure affects only its own slot,
    parallel chains/linearisation give the data and Jacobians of the sequential computation."""
    bad: list[tuple[str, str]] = []
    api = case["api"]
    if unusable(obs):
        return []
    kind, val = obs["result"]
    xs = disc_inputs(case)
    n = disc_n(case)
    dd = case["discs"]
    one = api in ("exec1", "lin1")
    lin = api in ("lin", "lin1")
    spec = [dd[0] if one else dd[i] for i in range(n)]
    okk = [i not in case["fail"] for i in range(n)]

    def out_value(i) -> Fraction:
        """What discipline i computes alone from ITS input: a x + b, of the input scaled in place if it works in place."""
        c = disc_scale(spec[i])
        return Fraction(spec[i][0]) * (xs[i] if c is None else c * xs[i]) + Fraction(spec[i][1])

    if api in ("exec", "exec1", "lin", "lin1"):
        if kind != "returned":
            return [("raises", f"{api} raised {val!r}")]
        if not (isinstance(val, list) and len(val) == n):
            return [("positional-results", f"{api}: {len(val) if isinstance(val, list) else val!r} results for {n} inputs "
                     f"(failing tasks {case['fail']}): results are not positionally matched to the inputs")]
        for i in range(n):
            a, b, out = spec[i][:3]
            if not okk[i]:
                if val[i] is not None:
                    bad.append(("positional-results", f"{api}: slot {i} of a failing task holds {val[i]!r}"))
                continue
            if val[i] is None:
                bad.append(("positional-results", f"{api}: slot {i} is None although task {i} succeeds: the failure of "
                                                  f"another task (failing tasks {case['fail']}) leaked into it"))
                continue
            if lin:
                got = _scalar(val[i].get(out, {}).get("x")) if isinstance(val[i], dict) else None
                want = Fraction(a)
            else:
                got = _scalar(val[i].get(out))
                want = out_value(i)
                gx = _scalar(val[i].get("x"))
                if disc_scale(spec[i]) is None and not (gx is not None and common.F(gx) == xs[i]):
                    bad.append(("positional-results", f"{api}: slot {i} holds the input {gx}, expected {xs[i]}"))
            if not (got is not None and common.is_finite_num(got) and common.F(got) == want):
                bad.append(("positional-results", f"{api}: slot {i} holds {got}, the sequential computation gives {want}"))
        exp_cbs = sorted((i, float(Fraction(spec[i][0]) if lin else out_value(i))) for i in range(n) if okk[i])
        if not (sorted(obs["cb_log"]) == exp_cbs):
            bad.append(("callbacks", f"{api}: callback calls {obs['cb_log']} are not once per successful task with the matching index {exp_cbs}"))
        if case.get("opts", {}).get("cb_list") and not (sorted(obs["cb2"]) == [i for i, _ in exp_cbs]):
            bad.append(("callbacks", f"{api}: the second callback of the list was called for {sorted(obs['cb2'])}, expected once per "
                                     f"successful task {[i for i, _ in exp_cbs]}"))
        if case.get("opts", {}).get("submitted_cb") and obs["submitted"] != 1:
            bad.append(("submitted-callback", f"{api}: task_submitted_callback called {obs['submitted']} times"))
        if not one:
            for i in range(n):
                if not okk[i]:
                    continue
                a, b, out = spec[i][:3]
                if api == "exec" or (lin and case.get("execute", True)):
                    got = obs["disc_data"][i].get(out)
                    want = out_value(i)
                    if not (got is not None and common.F(got) == want):
                        bad.append(("discipline-state", f"{api}: discipline {i} holds {out}={got} after the parallel run, expected {want}"))
                if lin:
                    got = obs["disc_jac"][i].get(out, {}).get("x")
                    want = Fraction(a)
                    if not (got is not None and common.F(got) == want):
                        bad.append(("discipline-state", f"{api}: discipline {i} holds the Jacobian {got} after the parallel run, expected {want}"))
    else:
        if kind != "returned":
            return [("raises", f"{api} raised {val!r}")]
        # sequential semantics: every discipline sees the chain input; a later discipline wins a shared output name
        exp: dict[str, Fraction] = {}
        for a, b, out in (d[:3] for d in dd):
            exp[out] = Fraction(a) if api == "chainlin" else Fraction(a) * xs[0] + Fraction(b)
        for out, want in exp.items():
            got = _scalar(val.get(out)) if api == "chain" else _scalar((val.get(out) or {}).get("x"))
            if not (got is not None and common.is_finite_num(got) and common.F(got) == want):
                bad.append(("chain-data" if api == "chain" else "chain-jacobian",
                            f"{api}: `{out}` is {got}, the sequential chain gives {want}"))
    cnt = Counter(obs["started"])
    if any(cnt.get(k, 0) != 1 for k in range(n)) or any(k not in range(n) for k in cnt):
        bad.append(("task-once", f"{api}: tasks were started {dict(cnt)!r}, expected each exactly once"))
    return bad


def gen_disc_case(rng: common.Rng, api: str | None = None, execute: bool | None = None, fail_some: bool = False,
                  n_procs: int | None = None) -> dict[str, Any]:
    api = api or rng.pick(["exec", "exec", "exec1", "lin", "lin", "lin1", "chain", "chainlin"])
    one = api in ("exec1", "lin1")
    backend = "process" if one else rng.pick(["thread", "thread", "process"])
    n = rng.randint(2, 5)
    names = ["y0", "y1", "y2", "y3", "y4"]
    discs = []
    for i in range(1 if one else n):
        out = rng.pick(names[: max(2, n - 1)]) if api in ("chain", "chainlin") else names[i]
        discs.append([rng.randint(1, 5), rng.randint(-3, 3), out])
    if api in ("chain", "chainlin"):
        # distinct (a, b) so that a mix-up between disciplines sharing an output name is visible
        for i, d in enumerate(discs):
            d[0] = i + 2
    xs: list[str] = []
    while len(xs) < (1 if api in ("chain", "chainlin") else n):
        t = rat(Fraction(rng.randint(-12, 12), 4))
        if t not in xs:
            xs.append(t)
    fail = sorted(rng.subset(range(n), 0.3)) if api in ("exec", "exec1", "lin", "lin1") and rng.chance(0.5) else []
    if fail_some and api in ("exec", "exec1", "lin", "lin1"):
        # at least one failing task followed (in submission order) by a succeeding one
        fail = sorted(set(fail) - {n - 1}) or [rng.randint(0, n - 2)]
    n_procs = n_procs or rng.pick([1, 2, 2, 3, n])
    lin = api in ("lin", "lin1")
    if execute is None:
        execute = not (lin and rng.chance(0.5))
    gate_on = "jac" if api == "chainlin" or (lin and (not execute or rng.chance(0.5))) else "run"
    case = {"kind": "disc", "api": api, "backend": backend, "n_procs": n_procs, "discs": discs, "xs": xs, "fail": fail,
            "gate_on": gate_on}
    if lin:
        case["execute"] = bool(execute)
    if api in ("exec", "exec1", "lin", "lin1"):
        # disciplines working in place on their input array (only where `_run` is gated: the bodies are serialised;
        # the task of an input is looked up from its value before the scaling)
        if gate_on == "run" and (execute or not lin) and rng.chance(0.4):
            for d in discs:
                if rng.chance(0.6):
                    d.append(rat(Fraction(rng.pick([2, -1, 3, Fraction(1, 2)]))))
        opts = {}
        if rng.chance(0.25):
            opts["cb_list"] = True
        if rng.chance(0.2):
            opts["submitted_cb"] = True
        if rng.chance(0.2):
            opts["wait"] = 0.001
        if opts:
            case["opts"] = opts
    view = disc_pool_view(dict(case, script=[]))
    case["script"] = [list(a) for a in random_script(rng, n, n_procs, view["outcomes"], False, False, rng.pick(["reverse", "uniform"]))]
    return case


def describe_disc(case) -> str:
    return (f"{case['api']} {case['backend']} discs(a, b, output[, in-place factor])={case['discs']} xs={case['xs']} failing={case['fail']} "
            f"{'execute=' + str(case['execute']) + ' ' if 'execute' in case else ''}raising-in={'_compute_jacobian' if case.get('gate_on') == 'jac' else '_run'} "
            f"{'options=' + str(case['opts']) + ' ' if case.get('opts') else ''}"
            f"n_processes={case['n_procs']} completion={[a[1] for a in case['script'] if a[0] == 'F']}")


def shrink_disc_case(case, key: str):
    def fails(c) -> bool:
        try:
            with short_waits():
                return any(k == key for k, _ in disc_oracle(c, run_disc_case(c)))
        except Exception:  # noqa: BLE001
            return False

    cur = case
    rng = common.make_rng(0, "shrink-disc")
    budget = 25
    t_end = time.time() + SHRINK_S
    improved = True
    while improved and budget > 0 and time.time() < t_end:
        improved = False
        n = disc_n(cur)
        cands = []
        for k in range(n):
            if n <= 1:
                break
            c = dict(cur, fail=[i - (i > k) for i in cur["fail"] if i != k])
            if cur["api"] in ("exec1", "lin1"):
                c["xs"] = cur["xs"][:k] + cur["xs"][k + 1:]
            elif cur["api"] in ("chain", "chainlin"):
                c["discs"] = cur["discs"][:k] + cur["discs"][k + 1:]
            else:
                c["xs"] = cur["xs"][:k] + cur["xs"][k + 1:]
                c["discs"] = cur["discs"][:k] + cur["discs"][k + 1:]
            view = disc_pool_view(dict(c, script=[]))
            c["script"] = [list(a) for a in random_script(rng, n - 1, c["n_procs"], view["outcomes"], False, False, "reverse")]
            cands.append(c)
        if cur["backend"] == "process" and cur["api"] not in ("exec1", "lin1"):
            cands.append(dict(cur, backend="thread"))
        if cur.get("opts"):
            cands.append({k: v for k, v in cur.items() if k != "opts"})
        for c in cands:
            budget -= 1
            if budget <= 0:
                break
            if fails(c):
                cur = c
                improved = True
                break
    return cur


def check_disc_cases(res: Result, cases: list[dict[str, Any]], deadline: float) -> None:
    runs = []
    for case in cases:
        if time.time() > deadline:
            res.notes.append(f"disc: stopped at the time limit after {len(runs)} of {len(cases)} cases")
            break
        obs = usable_run(res, "disc", run_disc_case, case)
        if obs is not None:
            runs.append((case, obs))
    lines: list[str] = []
    for _, obs in runs:
        lines.extend(obs["lines"])
    answers = common.run_lean_driver(PID, lines)
    pos = 0
    for case, obs in runs:
        ans = answers[pos: pos + len(obs["lines"])]
        pos += len(obs["lines"])
        res.evaluations += 1
        order = [a[1] for a in case["script"] if a[0] == "F"]
        st = f"disc-{case['api']}"
        res.count(f"{st}:{case['backend']}")
        res.count(f"{st}:{'out-of-order' if order != sorted(order) else 'in-order'}-completion")
        if case["fail"]:
            res.count(f"{st}:with-failing-tasks")
            if case["api"] in ("exec1", "lin1") and any(i + 1 not in case["fail"] and i + 1 < disc_n(case) for i in case["fail"]):
                res.count(f"{st}:discipline-used-again-after-a-failing-task")
        if "execute" in case:
            res.count(f"{st}:execute={case['execute']}")
            res.count(f"{st}:raising-in-{'_compute_jacobian' if case.get('gate_on') == 'jac' else '_run'}")
        if any(disc_scale(d) is not None for d in case["discs"]):
            res.count(f"{st}:with-disciplines-writing-into-their-input")
        for o in sorted(case.get("opts", {})):
            res.count(f"{st}:option-{o}")
        res.nontrivial(("disc", json.dumps(case, sort_keys=True)))
        res.sample({"stream": st, "case": describe_disc(case), "impl_result": disc_result_string(case, obs),
                    "model_result": ans[-1] if ans else None}, cap=12)
        bad = disc_oracle(case, obs)
        small, small_bad = case, dict(bad)
        for key, msg in bad:
            if key not in small_bad:
                small, small_bad = case, dict(bad)
            if small is case:
                small = shrink_disc_case(case, key)
                if small is not case:
                    with short_waits():
                        small_bad = dict(disc_oracle(small, run_disc_case(small)))
                    if key not in small_bad:
                        small, small_bad = case, dict(bad)
            msg = small_bad.get(key, msg)
            res.violate("oracle", f"disc-{case['api']}-{key}", f"{msg} [{describe_disc(small)}]"[:900], {"kind": "disc", "case": small})
        diff = compare_with_model(dict(obs, hang=obs["hang"] or "skip-result"), ans)
        if diff is None and obs["hang"] is None:
            want = disc_result_string(case, obs)
            if ans[-1] != want:
                diff = f"model result `{ans[-1]}`, real `{want}`"
        if diff is None and obs["hang"] is None and case["backend"] == "thread" and case["api"] in ("exec", "lin"):
            # threads run the caller's discipline objects: their execution status after the call is the model's
            flags = model_failed_flags(ans)
            if flags != obs["failed_status"]:
                diff = f"execution status FAILED of the disciplines after the call: model {flags}, real {obs['failed_status']}"
        if diff is None:
            res.traces_validated += 1
        elif diff == SKIP:
            res.count("disc:schedule-not-forced-timeout")
        else:
            res.disagreements += 1
            if not bad:
                res.violate("correspondence", f"disc-{case['api']}-model-vs-impl",
                            f"worker-pool model and implementation disagree: {diff} [{describe_disc(case)}]",
                            {"kind": "disc", "case": case, "protocol_lines": obs["lines"], "model_answers": ans,
                             "difference": diff, "correspondence": "Driver/C13.lean (einit |init) + transitions S/T/F/C/X + result"})


# ----------------------------------------------------------------------------- parallel chain of disciplines writing into their input
# case: {"kind": "chainip", "api": "chain"|"chainlin", "backend": "thread"|"process", "n_procs": int, "deep": bool
#        (use_deep_copy), "x0": "p/q" (the chain input, non-zero), "discs": [[a, b, out, c|None], ...] (distinct output
#        names; c: the discipline multiplies its input array IN PLACE by c before computing a x + b), "cache": bool
#        (disciplines keep their default cache / have none), "script": [...]}
# MDOParallelChain hands every discipline "a copy of the input data": with use_deep_copy=True (the option made for
# disciplines working in place) or forked workers (the data are pickled) the disciplines are independent of each other,
# so whatever the order in which their bodies run each one computes what it computes ALONE on the chain input.
# `chain`: the gate is at the start of `_run`, before the input is read or written, and the end of `_run` is acknowledged
# before the next gate is opened: the script is the order of the bodies.  `chainlin`: chain.linearize — the first phase
# (chain.execute) is not steered, the script is the order of the `_compute_jacobian` calls of the second phase.
# Out of the quantifier (probe, never a verdict): use_deep_copy=False with threads and a writing discipline (the arrays
# are then shared read-only: the writer raises).


def chainip_writers(case) -> list[int]:
    return [i for i, d in enumerate(case["discs"]) if disc_scale(d) is not None]


def chainip_in_scope(case) -> bool:
    return bool(case["deep"]) or case["backend"] == "process" or not chainip_writers(case)


def chainip_pool_view(case) -> dict[str, Any]:
    n = len(case["discs"])
    ro = not chainip_in_scope(case)
    outcomes = ["F" if (ro and i in chainip_writers(case)) else "ok" for i in range(n)]
    return {"n_procs": case["n_procs"], "outcomes": outcomes, "backend": case["backend"], "lazy": False,
            "script": case["script"], "reraise": False, "no_cb": True, "ack_done": True}


def chainip_init_line(case) -> str:
    n = len(case["discs"])
    thr = case["backend"] == "thread"
    kind = eff_kind(case["api"], True)
    x0 = Fraction(case["x0"])
    # threads: object i = discipline i with the array the chain handed to it (a private writable copy with
    # use_deep_copy, else the shared array made read-only); processes: the input travels with the task (pickled)
    objs = [eff_obj(x0, False, bool(case["deep"])) if thr else eff_obj() for _ in range(n)]
    tasks = [eff_task(i, None if thr else x0, kind, disc_scale(d), d[0], d[1], "o") for i, d in enumerate(case["discs"])]
    return eff_init_line(thr, case["n_procs"], objs, tasks)


def run_chainip_case(case) -> dict[str, Any]:
    from gemseo.core.chains.parallel_chain import MDOParallelChain
    from numpy import array

    from harness import c13_disc
    from harness.c13_disc import GatedAffine

    api = case["api"]
    n = len(case["discs"])
    thr = case["backend"] == "thread"
    x0 = Fraction(case["x0"])
    tok: list[int] = []
    made: dict[str, Any] = {}

    def build(token, gated: bool):
        ds = []
        for i, d in enumerate(case["discs"]):
            c = disc_scale(d)
            g = GatedAffine(f"D{i}", d[0], d[1], d[2], token, key=i if gated else None,
                            gate_on="run" if api == "chain" else "jac", inplace=None if c is None else float(c))
            if not case.get("cache", True):
                g.cache = None
            ds.append(g)
        return ds

    def launch(gate, cb):  # noqa: ARG001
        tok.append(c13_disc.register(gate))
        ds = build(tok[0], True)
        made["ds"] = ds
        chain = MDOParallelChain(ds, use_threading=thr, n_processes=case["n_procs"], use_deep_copy=bool(case["deep"]))
        made["chain"] = chain
        x = array([float(x0)])
        made["x"] = x
        if api == "chain":
            return dict(chain.execute({"x": x}))
        return chain.linearize({"x": x}, compute_all_jacobians=True)

    try:
        obs = run_gated(chainip_pool_view(case), launch, n, [chainip_init_line(case)])
    finally:
        for t in tok:
            c13_disc.unregister(t)
    ds = made.get("ds", [])
    obs["disc_data"] = [{k: _scalar(v) for k, v in d.io.data.items()} for d in ds]
    obs["disc_jac"] = [{o: {i: _scalar(m) for i, m in row.items()} for o, row in (d.jac or {}).items()} for d in ds]
    obs["failed_status"] = [d.execution_status.value == d.execution_status.Status.FAILED for d in ds]
    obs["caller_x"] = _scalar(made["x"]) if "x" in made else None
    obs["chain_x"] = _scalar(made["chain"].io.data.get("x")) if "chain" in made else None
    # the sequential counterpart: a fresh discipline of the same kind, run alone on a private copy of the chain input
    twin = []
    try:
        for g in build(None, False):
            out = g.execute({"x": array([float(x0)])})
            val = _scalar(out[g.out_name])
            jac = None
            if api == "chainlin":
                jac = _scalar(g.linearize({"x": array([float(x0)])}, compute_all_jacobians=True)[g.out_name]["x"])
            twin.append((val, jac))
    except Exception as e:  # noqa: BLE001
        obs["twin_error"] = f"{common.exc_class(e)}: {e}"
    obs["twin"] = twin
    return obs


def chainip_result_string(case, obs) -> str:
    kind, val = obs["result"]
    if kind != "returned":
        return "hang" if kind == "hang" else "final=1 raised:" + common.exc_class(val)
    try:
        if case["api"] == "chain":
            vals = [obs["disc_data"][i].get(d[2]) for i, d in enumerate(case["discs"])]
        else:
            vals = [obs["disc_jac"][i].get(d[2], {}).get("x") for i, d in enumerate(case["discs"])]
        return "final=1 returned " + (",".join(common.orat(v) for v in vals) or "[]")
    except Exception as e:  # noqa: BLE001
        return f"final=1 returned?{type(e).__name__}"


def chainip_oracle(case, obs) -> list[tuple[str, str]]:
    """Property text: a parallel chain produces the same data and Jacobians as its sequential counterpart, for any
    completion order — every discipline gives what it gives alone on (its own copy of) the chain input, the
    disciplines do not see each other's in-place work, the chain input is what the caller passed."""
    if unusable(obs) or not chainip_in_scope(case):
        return []
    api = case["api"]
    kind, val = obs["result"]
    if kind != "returned":
        return [("raises", f"{api} raised {val!r}")]
    if "twin_error" in obs:
        return [("twin", f"the sequential counterpart raised {obs['twin_error']}")]
    bad: list[tuple[str, str]] = []
    x0 = Fraction(case["x0"])
    n = len(case["discs"])

    def eq(g, w) -> bool:
        return g is not None and common.is_finite_num(g) and common.F(g) == w

    for i, d in enumerate(case["discs"]):
        a, b, out = d[:3]
        c = disc_scale(d)
        want = Fraction(a) * (x0 if c is None else c * x0) + Fraction(b)
        who = f"discipline {i} ({'scales its input in place by ' + str(c) + ', ' if c is not None else 'reads its input, '}{out} = {a} x + {b})"
        tv, tj = obs["twin"][i]
        if not (eq(tv, want) and (api == "chain" or eq(tj, Fraction(a)))):
            bad.append(("twin", f"{who} run alone on x={x0} gives {tv} (Jacobian {tj}), closed form {want} ({a})"))
            continue
        if api == "chain":
            got = _scalar(val.get(out))
            if not eq(got, want):
                bad.append(("chain-data", f"the chain gives {out} = {got}; {who} run alone on the chain input x={x0} gives {want}: "
                                          f"its result depends on which other discipline ran before"))
        else:
            got = _scalar((val.get(out) or {}).get("x"))
            if not eq(got, Fraction(a)):
                bad.append(("chain-jacobian", f"the chain gives d{out}/dx = {got}; {who} linearized alone gives {a}"))
        got = obs["disc_data"][i].get(out)
        if not eq(got, want):
            bad.append(("discipline-data", f"after the parallel {api}, {who} holds {out} = {got}; run alone on the chain input x={x0} it holds {want}"))
    if not (eq(obs["chain_x"], x0) and eq(obs["caller_x"], x0)):
        bad.append(("chain-input-modified", f"the chain input x={x0} became {obs['chain_x']} in the chain data and {obs['caller_x']} in the caller's array"))
    cnt = Counter(obs["started"])
    if any(cnt.get(k, 0) != 1 for k in range(n)) or any(k not in range(n) for k in cnt):
        bad.append(("task-once", f"{api}: tasks were started {dict(cnt)!r}, expected each exactly once"))
    seen: dict[str, str] = {}
    for key, msg in bad:
        seen.setdefault(key, msg)
    return list(seen.items())


def gen_chainip_case(rng: common.Rng, backend: str | None = None, deep: bool | None = None, api: str | None = None,
                     n_procs: int | None = None, writer_first: bool = False) -> dict[str, Any]:
    backend = backend or rng.pick(["thread", "thread", "thread", "process"])
    api = api or rng.pick(["chain", "chain", "chain", "chainlin"])
    deep = rng.chance(0.8) if deep is None else deep
    n = rng.randint(2, 4)
    discs: list[list] = [[i + 2, rng.randint(-3, 3), f"y{i}", None] for i in range(n)]
    writers = [0] if writer_first else [rng.randint(0, n - 1)]
    for i in range(n):
        if i not in writers and rng.chance(0.25) and len(writers) < n - 1:
            writers.append(i)
    if not deep and backend == "thread":
        if rng.chance(0.5):
            writers = []  # in the quantifier: the shared read-only arrays are only read
        else:
            api = "chain"  # probe; chain.linearize would stop in its first, ungated, phase
    for i in writers:
        discs[i][3] = rat(Fraction(rng.pick([2, -1, 3, Fraction(1, 2), -2])))
    x0 = Fraction(rng.pick([-1, 1]) * rng.randint(1, 12), 4)
    n_procs = n_procs or rng.pick([1, 2, n, n])
    case = {"kind": "chainip", "api": api, "backend": backend, "n_procs": n_procs, "deep": bool(deep), "x0": rat(x0),
            "discs": discs, "cache": rng.chance(0.5)}
    view = chainip_pool_view(dict(case, script=[]))
    if writer_first:
        script = random_script(rng, n, n_procs, view["outcomes"], False, False, "uniform")
        m = Mirror(n, n_procs, view["outcomes"], False, False)
        script = []
        while not m.done():
            a = min(a for a in m.actions() if a[0] == "F")  # bodies in submission order: the writer runs first
            m.apply(a)
            script.append(a)
    else:
        script = random_script(rng, n, n_procs, view["outcomes"], False, False, rng.pick(["reverse", "uniform", "uniform"]))
    case["script"] = [list(a) for a in script]
    return case


def describe_chainip(case) -> str:
    return (f"MDOParallelChain({case['api']}) {case['backend']} use_deep_copy={case['deep']} n_processes={case['n_procs']} x={case['x0']} "
            f"discs(a, b, output, in-place factor)={case['discs']} {'default caches' if case.get('cache', True) else 'no cache'} "
            f"order of the bodies={[a[1] for a in case['script'] if a[0] == 'F']}")


def shrink_chainip_case(case, key: str):
    def fails(c) -> bool:
        try:
            with short_waits():
                return any(k == key for k, _ in chainip_oracle(c, run_chainip_case(c)))
        except Exception:  # noqa: BLE001
            return False

    cur = case
    rng = common.make_rng(0, "shrink-chainip")
    budget = 12
    t_end = time.time() + SHRINK_S
    improved = True
    while improved and budget > 0 and time.time() < t_end:
        improved = False
        n = len(cur["discs"])
        cands = []
        for k in range(n):
            if n <= 2:
                break
            c = dict(cur, discs=cur["discs"][:k] + cur["discs"][k + 1:])
            if not chainip_writers(c):
                continue
            order = [a[1] - (a[1] > k) for a in cur["script"] if a[0] == "F" and a[1] != k]
            m = Mirror(n - 1, c["n_procs"], ["ok"] * (n - 1), False, False)
            ok = True
            for j in order:
                if ("F", j) not in m.actions():
                    ok = False
                    break
                m.apply(("F", j))
            c["script"] = [["F", j] for j in order] if ok and m.done() else [
                list(a) for a in random_script(rng, n - 1, c["n_procs"], ["ok"] * (n - 1), False, False, "uniform")]
            cands.append(c)
        for c in cands:
            budget -= 1
            if budget <= 0 or time.time() > t_end:
                break
            if fails(c):
                cur = c
                improved = True
                break
    return cur


def check_chainip_cases(res: Result, cases: list[dict[str, Any]], deadline: float) -> None:
    runs = []
    failing: set[str] = set()
    for case in cases:
        if time.time() > deadline:
            res.notes.append(f"chainip: stopped at the time limit after {len(runs)} of {len(cases)} cases")
            break
        obs = usable_run(res, "chainip", run_chainip_case, case)
        if obs is not None:
            runs.append((case, obs))
            failing.update(k for k, _ in chainip_oracle(case, obs))
            if len(failing) >= 3:
                res.notes.append(f"chainip: stopped after {len(runs)} of {len(cases)} cases, oracle failures {sorted(failing)} are reported")
                break
    lines: list[str] = []
    for _, obs in runs:
        lines.extend(obs["lines"])
    answers = common.run_lean_driver(PID, lines)
    pos = 0
    reported: set[str] = set()
    for case, obs in runs:
        ans = answers[pos: pos + len(obs["lines"])]
        pos += len(obs["lines"])
        res.evaluations += 1
        order = [a[1] for a in case["script"] if a[0] == "F"]
        st = f"chainip-{case['api']}"
        scope = chainip_in_scope(case)
        res.count(f"{st}:{case['backend']}:use_deep_copy={case['deep']}" + ("" if scope else ":probe-writer-on-shared-read-only-array"))
        res.count(f"chainip:n_processes={'1' if case['n_procs'] == 1 else ('all' if case['n_procs'] >= len(case['discs']) else 'fewer-than-disciplines')}")
        ws = chainip_writers(case)
        if any(order.index(w) < order.index(r) for w in ws for r in range(len(order)) if r not in ws):
            res.count(f"{st}:a-writer-runs-before-a-reader")
        if len(ws) > 1:
            res.count(f"{st}:several-writers")
        if not case.get("cache", True):
            res.count(f"{st}:disciplines-without-cache")
        res.nontrivial(("chainip", json.dumps(case, sort_keys=True)))
        res.sample({"stream": st, "case": describe_chainip(case), "impl_result": chainip_result_string(case, obs),
                    "model_result": ans[-1] if ans else None, "in_scope": scope}, cap=10)
        bad = chainip_oracle(case, obs)
        small, small_bad = case, dict(bad)
        for key, msg in bad:
            if f"{st}-{key}" in reported:
                continue  # one replay per kind of failure is enough (each shrink re-runs the chain several times)
            reported.add(f"{st}-{key}")
            if key not in small_bad:
                small, small_bad = case, dict(bad)
            if small is case:
                small = shrink_chainip_case(case, key)
                if small is not case:
                    with short_waits():
                        small_bad = dict(chainip_oracle(small, run_chainip_case(small)))
                    if key not in small_bad:
                        small, small_bad = case, dict(bad)
            msg = small_bad.get(key, msg)
            res.violate("oracle", f"{st}-{key}", f"{msg} [{describe_chainip(small)}]"[:1100], {"kind": "chainip", "case": small})
        diff = compare_with_model(dict(obs, hang=obs["hang"] or "skip-result"), ans)
        if diff is None and obs["hang"] is None and scope:
            want = chainip_result_string(case, obs)
            if ans[-1] != want:
                diff = f"model result `{ans[-1]}`, real `{want}`"
        if diff is None and obs["hang"] is None and case["backend"] == "thread":
            flags = model_failed_flags(ans)
            if flags != obs["failed_status"]:
                diff = f"execution status FAILED of the disciplines after the call: model {flags}, real {obs['failed_status']}"
        if diff is None:
            res.traces_validated += 1
        elif diff == SKIP:
            res.count("chainip:schedule-not-forced-timeout")
        else:
            res.disagreements += 1
            if not scope:
                res.count("chainip:probe-differs-from-model")
                res.notes.append(f"chainip probe (no verdict): {diff} [{describe_chainip(case)}]"[:400])
            elif not bad:
                res.violate("correspondence", f"{st}-model-vs-impl",
                            f"model of the discipline tasks and implementation disagree: {diff} [{describe_chainip(case)}]"[:1100],
                            {"kind": "chainip", "case": case, "protocol_lines": obs["lines"], "model_answers": ans,
                             "difference": diff, "correspondence": "Driver/C13.lean einit + transitions S/T/F/C/X + result"})


# ----------------------------------------------------------------------------- derivative approximation stream
# case: {"kind": "fd", "method": "fd"|"centered"|"complex", "x": ["p/q",..], "h_pow": k (step 2**-k),
#        "coef": [[ints]], "c0": [ints], "q": [ints], "indices": [ints] ([] = all), "n_procs": int, "script": [...]}


def fd_task_inputs(case) -> list[list[complex]]:
    """The inputs of the tasks of the parallel approximation, in submission order."""
    x = [Fraction(t) for t in case["x"]]
    h = Fraction(1, 2 ** case["h_pow"])
    idx = case["indices"] or list(range(len(x)))
    m = case["method"]

    def pert(i, dh):
        return [complex(float(v + (dh if j == i else 0)), 0.0) for j, v in enumerate(x)]

    if m == "fd":
        return [[complex(float(v), 0.0) for v in x]] + [pert(i, h) for i in idx]
    if m == "centered":
        return [pert(i, h) for i in idx] + [pert(i, -h) for i in idx]
    if m == "optstep":
        return [[complex(float(v), 0.0) for v in x]] + [pert(i, h) for i in idx] + [pert(i, -h) for i in idx]
    # ComplexStep perturbs component i by 1j * x_i * step (1j * step when x_i = 0)
    return [[complex(float(v), float((v if v != 0 else 1) * h) if j == i else 0.0) for j, v in enumerate(x)] for i in idx]


def fd_pool_view(case) -> dict[str, Any]:
    n = len(fd_task_inputs(case))
    return {"n_procs": case["n_procs"], "outcomes": ["ok"] * n, "backend": "process", "lazy": False,
            "script": case["script"], "reraise": False, "no_cb": True}


def _fd_approximator(case, fun, parallel: bool):
    from gemseo.utils.derivatives.centered_differences import CenteredDifferences
    from gemseo.utils.derivatives.complex_step import ComplexStep
    from gemseo.utils.derivatives.finite_differences import FirstOrderFD

    cls = {"fd": FirstOrderFD, "centered": CenteredDifferences, "complex": ComplexStep, "optstep": FirstOrderFD}[case["method"]]
    kw = {"parallel": True, "n_processes": case["n_procs"]} if parallel else {}
    return cls(fun, step=2.0 ** -case["h_pow"], **kw)


def _fd_gradient(case, approx):
    import numpy as np

    x = np.array([float(Fraction(t)) for t in case["x"]])
    if case["method"] == "optstep":
        steps, errors = approx.compute_optimal_step(x)
        return [[float(v) for v in np.atleast_1d(steps)], [float(v) for v in np.atleast_1d(errors)]]
    g = approx.f_gradient(x, x_indices=list(case["indices"])) if case["indices"] else approx.f_gradient(x)
    return [[float(v) for v in row] for row in np.atleast_2d(np.asarray(g, dtype=float))]


def run_fd_case(case) -> dict[str, Any]:
    from harness import c13_disc
    from harness.c13_disc import GatedVecFunction

    tasks = fd_task_inputs(case)
    key_of = {tuple((c.real, c.imag) for c in t): k for k, t in enumerate(tasks)}
    tok: list[int] = []

    def launch(gate, cb):
        tok.append(c13_disc.register(gate))
        fun = GatedVecFunction(case["coef"], case["c0"], case["q"], tok[0], key_of)
        return _fd_gradient(case, _fd_approximator(case, fun, True))

    first = f"init {case['n_procs']} {rats(range(len(tasks)))} " + ";".join(f"0:{k}:-:-" for k in range(len(tasks)))
    try:
        obs = run_gated(fd_pool_view(case), launch, len(tasks), [first])
    finally:
        for t in tok:
            c13_disc.unregister(t)
    try:
        fun = GatedVecFunction(case["coef"], case["c0"], case["q"])
        obs["sequential"] = ("returned", _fd_gradient(case, _fd_approximator(case, fun, False)))
    except Exception as e:  # noqa: BLE001
        obs["sequential"] = ("raised", e)
    return obs


def fd_exact(case) -> list[list[Fraction]]:
    """Closed form of the approximation of f_j = c0_j + sum c_ji x_i + q_j x_0^2 (rows: outputs)."""
    x = [Fraction(t) for t in case["x"]]
    h = Fraction(1, 2 ** case["h_pow"])
    idx = case["indices"] or list(range(len(x)))
    out = []
    for row, q in zip(case["coef"], case["q"]):
        r = []
        for i in idx:
            v = Fraction(row[i])
            if i == 0:
                v += Fraction(q) * (2 * x[0] + (h if case["method"] == "fd" else 0))
            r.append(v)
        out.append(r)
    return out


def fd_oracle(case, obs) -> list[tuple[str, str]]:
    if unusable(obs):
        return []
    kind, val = obs["result"]
    skind, sval = obs["sequential"]
    if kind != "returned":
        return [("raises", f"the parallel approximation raised {val!r} (sequential: {skind} {sval!r})")]
    bad = []
    same = val == sval or (case["method"] == "optstep" and repr(val) == repr(sval))  # optstep error estimates may be NaN in both
    if not (skind == "returned" and same):
        bad.append(("differs-from-sequential", f"parallel Jacobian {val} differs from the sequential one {skind} {sval}"))
    want = fd_exact(case)
    ok = case["method"] == "optstep" or len(val) == len(want) and all(
        len(r) == len(w) and all(common.is_finite_num(a) and common.F(a) == b for a, b in zip(r, w)) for r, w in zip(val, want))
    if not ok:
        bad.append(("wrong-jacobian", f"parallel Jacobian {val} is not the exact value {[[str(v) for v in r] for r in want]} of the approximation formula"))
    cnt = Counter(obs["started"])
    n = len(fd_task_inputs(case))
    if any(cnt.get(k, 0) != 1 for k in range(n)):
        bad.append(("task-once", f"function evaluations per task {dict(cnt)!r}, expected each exactly once"))
    return bad


def gen_fd_case(rng: common.Rng) -> dict[str, Any]:
    method = rng.pick(["fd", "fd", "centered", "complex", "optstep"])
    d = rng.randint(1, 4)
    m = rng.randint(1, 2)
    x = [rat(Fraction(rng.randint(-8, 8), 4)) for _ in range(d)]
    coef = [[rng.randint(-3, 3) for _ in range(d)] for _ in range(m)]
    for j in range(m):  # distinct columns so that a permutation of the columns is visible
        for i in range(d):
            coef[j][i] = coef[j][i] + 4 * i
    idx = [] if method in ("complex", "optstep") or rng.chance(0.6) or d == 1 else sorted(rng.sample(range(d), rng.randint(1, d - 1)))
    case = {"kind": "fd", "method": method, "x": x, "h_pow": rng.randint(2, 4), "coef": coef, "c0": [rng.randint(-2, 2) for _ in range(m)],
            "q": [rng.randint(0, 2) for _ in range(m)], "indices": idx, "n_procs": rng.pick([2, 2, 3, 4])}
    n = len(fd_task_inputs(case))
    case["script"] = [list(a) for a in random_script(rng, n, case["n_procs"], ["ok"] * n, False, False, rng.pick(["reverse", "uniform"]))]
    return case


def describe_fd(case) -> str:
    return (f"{case['method']} x={case['x']} step=2^-{case['h_pow']} coef={case['coef']} q={case['q']} indices={case['indices'] or 'all'} "
            f"n_processes={case['n_procs']} completion={[a[1] for a in case['script'] if a[0] == 'F']}")


def check_fd_cases(res: Result, cases: list[dict[str, Any]], deadline: float) -> None:
    runs = []
    for case in cases:
        if time.time() > deadline:
            res.notes.append(f"fd: stopped at the time limit after {len(runs)} of {len(cases)} cases")
            break
        obs = usable_run(res, "fd", run_fd_case, case)
        if obs is not None:
            runs.append((case, obs))
    lines: list[str] = []
    for _, obs in runs:
        lines.extend(obs["lines"])
    answers = common.run_lean_driver(PID, lines)
    pos = 0
    for case, obs in runs:
        ans = answers[pos: pos + len(obs["lines"])]
        pos += len(obs["lines"])
        res.evaluations += 1
        order = [a[1] for a in case["script"] if a[0] == "F"]
        res.count(f"fd-{case['method']}:{'out-of-order' if order != sorted(order) else 'in-order'}-completion")
        res.nontrivial(("fd", json.dumps(case, sort_keys=True)))
        res.sample({"stream": "fd", "case": describe_fd(case), "parallel": obs["result"][1] if obs["result"][0] == "returned" else repr(obs["result"][1])}, cap=15)
        bad = fd_oracle(case, obs)
        for key, msg in bad:
            res.violate("oracle", f"fd-{case['method']}-{key}", f"{msg} [{describe_fd(case)}]"[:900], {"kind": "fd", "case": case})
        diff = compare_with_model(dict(obs, hang=obs["hang"] or "skip-result"), ans)
        if diff is None:
            res.traces_validated += 1
        elif diff == SKIP:
            res.count("fd:schedule-not-forced-timeout")
        else:
            res.disagreements += 1
            if not bad:
                res.violate("correspondence", "fd-model-vs-impl", f"worker-pool model and implementation disagree: {diff} [{describe_fd(case)}]",
                            {"kind": "fd", "case": case, "protocol_lines": obs["lines"], "model_answers": ans, "difference": diff,
                             "correspondence": "Driver/C13.lean transitions S/T/F/C/X"})


# ----------------------------------------------------------------------------- shared cache stream
# case: {"kind": "cache", "mode": "process"|"thread", "gated": bool, "n_procs": int, "a": int, "b": int,
#        "xs": ["p/q",..] (distinct when gated), "fail": [task indices], "script": [...]}
# process: one discipline with a shared-memory MemoryFullCache, forked workers, task i = input i;
# thread: one discipline object per task (same function), all sharing one MemoryFullCache object.


def cache_pool_view(case) -> dict[str, Any]:
    n = len(case["xs"])
    outcomes = ["F" if i in case["fail"] else "ok" for i in range(n)]
    return {"n_procs": case["n_procs"], "outcomes": outcomes, "backend": case["mode"], "lazy": False,
            "script": case.get("script", []), "reraise": False}


def run_cache_case(case) -> dict[str, Any]:
    import multiprocessing

    from gemseo.caches.memory_full_cache import MemoryFullCache
    from gemseo.core.parallel_execution.disc_parallel_execution import DiscParallelExecution
    from numpy import array

    from harness import c13_disc
    from harness.c13_disc import GatedAffine

    xs = [Fraction(t) for t in case["xs"]]
    n = len(xs)
    proc = case["mode"] == "process"
    tok: list[int] = []
    made: dict[str, Any] = {}
    counter = multiprocessing.get_context("fork").Value("i", 0)
    inputs = [{"x": array([float(x)])} for x in xs]

    def build(token):
        cache = MemoryFullCache(is_memory_shared=proc)
        if proc:
            key_of = {(float(x),): i for i, x in enumerate(xs)} if case["gated"] else None
            fk = tuple(case["fail"])
            if not case["gated"]:
                key_of = {(float(x),): i for i, x in reversed(list(enumerate(xs)))}
                fk = tuple({key_of[(float(xs[i]),)] for i in case["fail"]})
            ds = [GatedAffine("D", case["a"], case["b"], "y", token, key_of=key_of, fail_keys=fk, counter=counter,
                              sleep_of=None if case["gated"] else {i: 0.02 * (n - i) for i in range(n)})]
        else:
            ds = [GatedAffine(f"D{i}", case["a"], case["b"], "y", token, key=i, fail_keys=(i,) if i in case["fail"] else (),
                              counter=counter) for i in range(n)]
        for d in ds:
            d.cache = cache
        made["ds"], made["cache"] = ds, cache
        return ds

    def launch(gate, cb):
        tok.append(c13_disc.register(gate))
        ds = build(tok[0])
        pe = DiscParallelExecution(ds, n_processes=case["n_procs"], use_threading=not proc)
        return pe.execute(inputs, exec_callback=lambda i, data: cb(i, _scalar(data["y"])))

    if case["gated"]:
        a, b = case["a"], case["b"]
        fails = [rat(xs[i]) for i in case["fail"]]
        if proc:
            first = f"init {case['n_procs']} {rats(xs)} {a}:{b}:{'|'.join(fails) or '-'}:-"
        else:
            first = f"init {case['n_procs']} {rats(xs)} " + ";".join(
                f"{a}:{b}:{rat(xs[i]) if i in case['fail'] else '-'}:-" for i in range(n))
        try:
            obs = run_gated(cache_pool_view(case), launch, n, [first])
        finally:
            for t in tok:
                c13_disc.unregister(t)
    else:
        log: list = []
        obs = {"hang": None, "lines": [], "checks": [], "started": [], "notes": []}
        with contextlib.redirect_stderr(io.StringIO()):
            try:
                ds = build(None)
                pe = DiscParallelExecution(ds, n_processes=case["n_procs"], use_threading=not proc)
                obs["result"] = ("returned", pe.execute(inputs, exec_callback=lambda i, data: log.append((i, _scalar(data["y"])))))
            except Exception as e:  # noqa: BLE001
                obs["result"] = ("raised", e)
        obs["cb_log"] = log
    cache = made.get("cache")
    obs["entries"] = None
    obs["lookups"] = None
    obs["runs_parallel"] = counter.value
    if cache is not None and obs["hang"] is None:
        try:
            obs["entries"] = [(_scalar(e.inputs.get("x")), _scalar(e.outputs.get("y")) if e.outputs else None)
                              for e in cache.get_all_entries()]
            obs["lookups"] = [_scalar(cache[{"x": array([float(x)])}].outputs.get("y")) if cache[{"x": array([float(x)])}].outputs else None
                              for x in xs]
            obs["len"] = len(cache)
            # transparency: executing again from the main process must be served by the cache
            d0 = made["ds"][0]
            before = counter.value
            again = []
            for i, x in enumerate(xs):
                if i in case["fail"]:
                    again.append(None)
                    continue
                if d0.execution_status.value == d0.execution_status.Status.FAILED:
                    d0.execution_status.value = d0.execution_status.Status.DONE
                d0.key_of, d0.key = None, None  # no gate, no failure on the second pass
                again.append(_scalar(d0.execute({"x": array([float(x)])})["y"]))
            obs["again"] = again
            obs["runs_again"] = counter.value - before
        except Exception as e:  # noqa: BLE001
            obs["cache_error"] = repr(e)
    return obs


def cache_oracle(case, obs) -> list[tuple[str, str]]:
    """Property text: workers sharing a cache give the same data as the sequential computation;
    the shared cache ends up with exactly the successful inputs, each with its own outputs."""
    if unusable(obs):
        return []
    kind, val = obs["result"]
    if kind != "returned":
        return [("raises", f"the parallel execution raised {val!r}")]
    if "cache_error" in obs:
        return [("cache-raises", f"reading the shared cache raised {obs['cache_error']}")]
    bad = []
    xs = [Fraction(t) for t in case["xs"]]
    n = len(xs)
    fail_x = {xs[i] for i in case["fail"]}
    want = [None if x in fail_x else Fraction(case["a"]) * x + case["b"] for x in xs]

    def same(got, w):
        return (got is None and w is None) or (got is not None and w is not None and common.is_finite_num(got) and common.F(got) == w)

    got = [None if d is None else _scalar(d.get("y")) for d in val] if isinstance(val, list) else None
    if not (got is not None and len(got) == n and all(same(g, w) for g, w in zip(got, want))):
        bad.append(("positional-results", f"outputs {got} differ from the sequential map {[None if w is None else str(w) for w in want]}"))
    if not all(same(g, w) for g, w in zip(obs["lookups"], want)):
        bad.append(("lookup", f"cache look-ups {obs['lookups']} at the inputs differ from {[None if w is None else str(w) for w in want]}"))
    exp_entries = {x: Fraction(case["a"]) * x + case["b"] for x in xs if x not in fail_x}
    with_out = [(common.F(i), o) for i, o in obs["entries"] if o is not None and i is not None]
    if not (len(with_out) == len(exp_entries) and all(k in exp_entries and common.F(o) == exp_entries[k] for k, o in with_out)
            and len({k for k, _ in with_out}) == len(with_out)):
        bad.append(("entries", f"cache entries {obs['entries']} are not exactly one per successful input {sorted(map(str, exp_entries))}"))
    if not all(same(g, w) for g, w in zip(obs["again"], want)) or obs["runs_again"] != 0:
        bad.append(("not-transparent", f"re-executing the cached inputs gave {obs['again']} with {obs['runs_again']} new runs (expected the cached values and 0 runs)"))
    return bad


def gen_cache_case(rng: common.Rng) -> dict[str, Any]:
    mode = rng.pick(["process", "process", "thread"])
    gated = mode == "thread" or rng.chance(0.6)
    n = rng.randint(2, 5)
    xs: list[str] = []
    while len(xs) < n:
        t = rat(Fraction(rng.randint(-12, 12), 4))
        if t not in xs or (not gated and rng.chance(0.5)):
            xs.append(t)
    if not gated and n >= 3 and rng.chance(0.6):
        xs[rng.randint(1, n - 1)] = xs[0]
    fail = sorted(rng.subset(range(n), 0.3)) if rng.chance(0.4) else []
    vals = list(xs)
    fail = sorted({i for i in range(n) if any(vals[i] == vals[j] for j in fail)})
    case = {"kind": "cache", "mode": mode, "gated": gated, "n_procs": rng.pick([2, 2, 3]), "a": rng.randint(1, 4), "b": rng.randint(-3, 3),
            "xs": xs, "fail": fail}
    if gated:
        view = cache_pool_view(case)
        case["script"] = [list(a) for a in random_script(rng, n, case["n_procs"], view["outcomes"], False, False, rng.pick(["reverse", "uniform"]))]
    return case


def describe_cache(case) -> str:
    return (f"shared MemoryFullCache {case['mode']} {'gated' if case['gated'] else 'ladder'} y={case['a']}x+{case['b']} xs={case['xs']} "
            f"failing={case['fail']} n_processes={case['n_procs']} completion={[a[1] for a in case.get('script', []) if a[0] == 'F'] or 'ladder'}")


def check_cache_cases(res: Result, cases: list[dict[str, Any]], deadline: float) -> None:
    runs = []
    for case in cases:
        if time.time() > deadline:
            res.notes.append(f"cache: stopped at the time limit after {len(runs)} of {len(cases)} cases")
            break
        obs = usable_run(res, "cache", run_cache_case, case)
        if obs is not None:
            runs.append((case, obs))
    lines: list[str] = []
    spans = []
    for case, obs in runs:
        lo = len(lines)
        lines.extend(obs["lines"])
        if case["gated"]:
            order = [a[1] for a in case["script"] if a[0] == "F" and a[1] not in case["fail"]]
            lines.append("cache " + (rats([Fraction(case["xs"][k]) for k in order]) if order else "[]"))
        spans.append((lo, len(lines)))
    answers = common.run_lean_driver(PID, lines)
    for (case, obs), (lo, hi) in zip(runs, spans):
        ans = answers[lo:hi]
        res.evaluations += 1
        st = f"cache-{case['mode']}-{'gated' if case['gated'] else 'ladder'}"
        res.count(st)
        if case["fail"]:
            res.count(f"{st}:with-failing-tasks")
        if len(set(case["xs"])) < len(case["xs"]):
            res.count(f"{st}:with-repeated-inputs")
        res.nontrivial(("cache", json.dumps(case, sort_keys=True)))
        res.sample({"stream": "cache", "case": describe_cache(case), "entries": obs.get("entries")}, cap=18)
        bad = cache_oracle(case, obs)
        for key, msg in bad:
            res.violate("oracle", f"cache-{key}", f"{msg} [{describe_cache(case)}]"[:900], {"kind": "cache", "case": case})
        diff = None
        if case["gated"]:
            diff = compare_with_model(dict(obs, hang=obs["hang"] or "skip-result"), ans[:-1])
            if diff is None and obs.get("entries") is not None:
                real = ",".join(rat(i) for i, o in obs["entries"] if o is not None) or "[]"
                if real != ans[-1]:
                    diff = f"cache layer: model entry order `{ans[-1]}`, real `{real}` for `{lines[hi - 1]}`"
        if diff is None:
            res.traces_validated += 1
        elif diff == SKIP:
            res.count("cache:schedule-not-forced-timeout")
        else:
            res.disagreements += 1
            if not bad:
                res.violate("correspondence", "cache-model-vs-impl", f"model and implementation disagree: {diff} [{describe_cache(case)}]",
                            {"kind": "cache", "case": case, "protocol_lines": lines[lo:hi], "model_answers": ans, "difference": diff,
                             "correspondence": "Driver/C13.lean `cache` + pool transitions"})


# ----------------------------------------------------------------------------- histories: successive execute() on ONE executor
# case: {"kind": "hist", "api": "callable"|"exec"|"exec1"|"lin"|"lin1", "backend": "thread"|"process", "n_procs": int,
#        "callables": [[a, b], ...] (api callable: one, or at least as many as the largest call),
#        "discs": [[a, b, out], ...] (other apis: n disciplines, or one for exec1/lin1), "gate_on": "run"|"jac",
#        "calls": [{"xs": [...], "outcomes": ["ok"|"F"|"S", ...], "script": [...], "lazy": bool}, ...]}
# The executor object is created once (exceptions_to_re_raise=(StopError,)); call k runs `execute(xs_k)` on it under
# its own forced schedule.  Input values are distinct over the whole history, so that a result of an earlier call
# showing up in a later one is visible, and so that "the outcome of a task" is a function of its input value.


def hist_multi(case) -> bool:
    return len(case["callables"] if case["api"] == "callable" else case["discs"]) > 1


def hist_value(case, i: int, x) -> Fraction:
    """What task `i` on input `x` must produce (callable: a x + b; exec: the output a x + b; lin: the Jacobian a)."""
    api = case["api"]
    if api == "callable":
        a, b = case["callables"][i if hist_multi(case) else 0]
        return Fraction(a) * Fraction(x) + Fraction(b)
    a, b, _ = case["discs"][i if hist_multi(case) else 0]
    return Fraction(a) if api in ("lin", "lin1") else Fraction(a) * Fraction(x) + Fraction(b)


def hist_init_line(case, k: int) -> str:
    """`init` line of the Lean driver for call `k`; the failing/stopping input values of every call are listed
    (the outcome of a task is a function of its input value), so that `call` lines can follow."""
    api = case["api"]
    multi = hist_multi(case)
    specs_src = case["callables"] if api == "callable" else [d[:2] for d in case["discs"]]
    specs = []
    for j, (a, b) in enumerate(specs_src):
        fails, stops = [], []
        for call in case["calls"]:
            for i, (x, o) in enumerate(zip(call["xs"], call["outcomes"])):
                if multi and i != j:
                    continue
                if o == "F":
                    fails.append(rat(Fraction(x)))
                elif o == "S":
                    stops.append(rat(Fraction(x)))
        ab = f"0:{a}" if api in ("lin", "lin1") else f"{a}:{b}"
        specs.append(f"{ab}:{'|'.join(fails) or '-'}:{'|'.join(stops) or '-'}")
    xs = [Fraction(x) for x in case["calls"][k]["xs"]]
    return f"init {case['n_procs']} {rats(xs)} {';'.join(specs)}"


def hist_eff_tasks(case, k: int) -> list[str]:
    """Tasks of call `k` of a history of a discipline executor, for the `einit` / `ecall` lines (Model section 6)."""
    call = case["calls"][k]
    multi = hist_multi(case)
    kind = eff_kind(case["api"], case.get("execute", True))
    in_jac = kind != "E" and case.get("gate_on", "run") == "jac"
    tasks = []
    for i, (x, o) in enumerate(zip(call["xs"], call["outcomes"])):
        a, b, _ = case["discs"][i if multi else 0]
        fault = "o" if o == "ok" else (("J" if in_jac else "R") if o == "S" else ("j" if in_jac else "r"))
        tasks.append(eff_task(i if multi else 0, x, kind, None, a, b, fault))
    return tasks


def run_hist_case(case) -> dict[str, Any]:
    """Run the successive calls of the history on one executor object; one gated run per call."""
    from gemseo.core.parallel_execution.callable_parallel_execution import CallableParallelExecution
    from gemseo.core.parallel_execution.disc_parallel_execution import DiscParallelExecution
    from gemseo.core.parallel_execution.disc_parallel_linearization import DiscParallelLinearization
    from numpy import array

    from harness import c13_disc
    from harness.c13_disc import GatedAffine
    from harness.c13_tasks import GatedCallable
    from harness.c13_tasks import StopError

    api = case["api"]
    thr = case["backend"] != "process"
    multi = hist_multi(case)
    if api == "callable":
        workers = [GatedCallable(None, a, b, {}, []) for a, b in case["callables"]]
        ex = CallableParallelExecution(workers, n_processes=case["n_procs"], use_threading=thr,
                                       exceptions_to_re_raise=(StopError,))
    else:
        workers = [GatedAffine(f"D{i}", a, b, out, None, key=i if multi else None, gate_on=case.get("gate_on", "run"))
                   for i, (a, b, out) in enumerate(case["discs"])]
        if api in ("lin", "lin1"):
            for d in workers:
                d.add_differentiated_inputs(["x"])
                d.add_differentiated_outputs([d.out_name])
            ex = DiscParallelLinearization(workers, n_processes=case["n_procs"], use_threading=thr,
                                           exceptions_to_re_raise=(StopError,), execute=case.get("execute", True))
        else:
            ex = DiscParallelExecution(workers, n_processes=case["n_procs"], use_threading=thr,
                                       exceptions_to_re_raise=(StopError,))

    def failed_flags() -> list[bool]:
        return [d.execution_status.value == d.execution_status.Status.FAILED for d in workers]

    all_obs = []
    in_model = True  # every call so far followed the schedule the model was given: the session can continue
    for k, call in enumerate(case["calls"]):
        n = len(call["xs"])
        outcomes = call["outcomes"]
        tok: list[int] = []

        def launch(gate, cb, call=call, outcomes=outcomes, tok=tok):
            if api == "callable":
                key_of = {x: i for i, x in enumerate(call["xs"])}
                for g in workers:
                    g.gate, g.key_of, g.outcomes = gate, key_of, outcomes
                return ex.execute(list(call["xs"]), exec_callback=cb)
            tok.append(c13_disc.register(gate))
            xs = [Fraction(t) for t in call["xs"]]
            for i, d in enumerate(workers):
                d.token = tok[0]
                if multi:
                    d.fail_keys = (i,) if i < len(outcomes) and outcomes[i] == "F" else ()
                    d.stop_keys = (i,) if i < len(outcomes) and outcomes[i] == "S" else ()
                else:
                    d.key_of = {(float(x),): j for j, x in enumerate(xs)}
                    d.fail_keys = tuple(j for j, o in enumerate(outcomes) if o == "F")
                    d.stop_keys = tuple(j for j, o in enumerate(outcomes) if o == "S")
            inputs = [{"x": array([float(x)])} for x in xs]
            name = (lambda i: workers[i if multi else 0].out_name)
            if api in ("exec", "exec1"):
                return ex.execute(inputs, exec_callback=lambda i, data: cb(i, _scalar(data[name(i)])))
            return ex.execute(inputs, exec_callback=lambda i, wd: cb(i, _scalar(wd.jacobian[name(i)]["x"])))

        view = {"n_procs": case["n_procs"], "outcomes": outcomes, "backend": case["backend"], "lazy": bool(call.get("lazy")),
                "script": call["script"], "reraise": True}
        if api == "callable":
            first = hist_init_line(case, k) if (k == 0 or not in_model) else f"call {rats([Fraction(x) for x in call['xs']])}"
        elif k == 0 or not in_model:
            # the discipline objects of the main process as they are now (threads run these very objects)
            first = eff_init_line(thr, case["n_procs"], [eff_obj(0, f) for f in failed_flags()], hist_eff_tasks(case, k))
        else:
            first = "ecall " + ";".join(hist_eff_tasks(case, k))
        try:
            obs = run_gated(view, launch, n, [first])
        finally:
            for t in tok:
                c13_disc.unregister(t)
        obs["session_line"] = first.split(" ")[0]
        if api != "callable":
            obs["failed_status"] = failed_flags()
        all_obs.append(obs)
        if unusable(obs):
            break  # the executor may still be busy: nothing more can be learnt from this history
        in_model = "deviation" not in obs
    why = next((unusable(o) for o in all_obs if unusable(o)), None)
    return {"calls": all_obs, "hang": why, "gate_timeouts": 0}


def hist_values(case, val) -> list[Any] | None:
    """The returned list as scalars (None for an empty slot); None if it has not the expected form."""
    api = case["api"]
    if not isinstance(val, list):
        return None
    multi = hist_multi(case)
    out = []
    for i, v in enumerate(val):
        if v is None or api == "callable":
            out.append(v)
            continue
        name = case["discs"][i if multi else 0][2]
        try:
            out.append(_scalar(v[name]["x"]) if api in ("lin", "lin1") else _scalar(v[name]))
        except Exception:  # noqa: BLE001
            return None
    return out


def hist_call_oracle(case, k: int, obs) -> list[tuple[str, str]]:
    """Property text, for call `k` of the history: the outputs and the callback log of this call are positionally
    those of ITS inputs (whatever the earlier calls did); a re-raised exception is one of this call's."""
    from harness.c13_tasks import StopError

    if unusable(obs):
        return []
    call = case["calls"][k]
    n = len(call["xs"])
    exp = [hist_value(case, i, x) if o == "ok" else None for i, (x, o) in enumerate(zip(call["xs"], call["outcomes"]))]
    stops = [i for i, o in enumerate(call["outcomes"]) if o == "S"]
    kind, val = obs["result"]
    log = obs["cb_log"]
    exp_cbs = sorted((i, float(v)) for i, v in enumerate(exp) if v is not None)
    where = f"call {k + 1} of {len(case['calls'])} on the same executor"
    bad: list[tuple[str, str]] = []

    def same(g, w) -> bool:
        return (g is None and w is None) or (g is not None and w is not None and common.is_finite_num(g) and common.F(g) == w)

    def log_ok(entries, exact: bool) -> bool:
        try:
            got = sorted((int(i), float(v)) for i, v in entries)
        except Exception:  # noqa: BLE001
            return False
        if exact:
            return got == exp_cbs
        return len(set(got)) == len(got) and all(e in exp_cbs for e in got)

    if not stops:
        if kind != "returned":
            bad.append(("unexpected-exception", f"{where}: execute raised {val!r} although no task of this call raises a re-raised exception"))
        else:
            got = hist_values(case, val)
            if not (got is not None and len(got) == n and all(same(g, w) for g, w in zip(got, exp))):
                bad.append(("positional-results", f"{where}: inputs {call['xs']} returned {got if got is not None else val!r}, "
                                                  f"the sequential map of these inputs gives {[None if w is None else str(w) for w in exp]}"))
            if case["api"] in ("exec", "exec1") and got is not None and isinstance(val, list):
                for i, d in enumerate(val):
                    if d is not None and not same(_scalar(d.get("x")), Fraction(call["xs"][i])):
                        bad.append(("positional-results", f"{where}: slot {i} holds the input {_scalar(d.get('x'))}, expected {call['xs'][i]}"))
                        break
        if not log_ok(log, True):
            bad.append(("callbacks", f"{where}: callback calls {log!r} are not exactly once per successful task of this call with the matching index {exp_cbs!r}"))
    else:
        if not (kind == "raised" and isinstance(val, StopError) and val.args and val.args[0] in stops):
            bad.append(("reraise", f"{where}: a task raised an exception to re-raise but execute gave {kind} {val!r}"))
        if not log_ok(log, False):
            bad.append(("callbacks", f"{where}: callback calls {log!r} are not at most once per successful task of this call with the matching index"))
    cnt = Counter(obs["started"])
    if any(cnt.get(i, 0) != 1 for i in range(n)) or any(i not in range(n) for i in cnt):
        bad.append(("task-once", f"{where}: tasks were started {dict(cnt)!r}, expected each of the {n} tasks exactly once"))
    return bad


def hist_oracle(case, run) -> list[tuple[str, str]]:
    bad: list[tuple[str, str]] = []
    for k, obs in enumerate(run["calls"]):
        for key, msg in hist_call_oracle(case, k, obs):
            if key not in [b[0] for b in bad]:
                bad.append((key, msg))
    return bad


def hist_result_string(case, obs) -> str:
    from harness.c13_tasks import StopError

    kind, val = obs["result"]
    if kind == "returned":
        vals = hist_values(case, val)
        if vals is None:
            return f"final=1 returned?{val!r}"[:200]
        try:
            return "final=1 returned " + (",".join(common.orat(v) for v in vals) or "[]")
        except Exception:  # noqa: BLE001
            return f"final=1 returned?{vals!r}"[:200]
    if kind == "raised":
        return "final=1 raised" if isinstance(val, StopError) else "final=1 raised:" + common.exc_class(val)
    return "hang"


def gen_hist_case(rng: common.Rng, backend: str, api: str | None = None, n_procs: int | None = None,
                  first_style: str | None = None, n_calls: int | None = None, execute: bool | None = None) -> dict[str, Any]:
    api = api or rng.pick(["callable", "callable", "exec", "lin", "exec1", "lin1"])
    if api in ("exec1", "lin1"):
        backend = "process"  # one discipline object run by several threads at once is not a supported use
    n_calls = n_calls or rng.pick([2, 2, 3])
    n_procs = n_procs or rng.pick([1, 2, 3])
    fixed_n = rng.randint(2, 4) if api in ("exec", "lin") else None
    sizes = [fixed_n or rng.randint(2, 4) for _ in range(n_calls)]
    case: dict[str, Any] = {"kind": "hist", "api": api, "backend": backend, "n_procs": n_procs}
    if api == "callable":
        case["callables"] = gen_callables(rng, max(sizes), rng.chance(0.5))
    else:
        names = ["y0", "y1", "y2", "y3"]
        m = fixed_n or 1
        discs: list[list] = []
        while len(discs) < m:
            d = [rng.randint(1, 5), rng.randint(-3, 3), names[len(discs)]]
            if d[:2] not in [e[:2] for e in discs]:
                discs.append(d)
        case["discs"] = discs
        if api in ("lin", "lin1"):
            # DiscParallelLinearization(execute=False) never calls `_run`: the tasks are then gated (and fail) in `_compute_jacobian`
            case["execute"] = (not rng.chance(0.5)) if execute is None else bool(execute)
        case["gate_on"] = "jac" if api in ("lin", "lin1") and (not case["execute"] or rng.chance(0.5)) else "run"
    pool = list(range(-20, 21))
    rng.shuffle(pool)
    first_style = first_style or rng.pick(["stop0", "stop0", "stopmid", "stopmid", "stopany", "fail", "failsome", "failsome", "clean"])
    calls = []
    for k, n in enumerate(sizes):
        if api == "callable":
            xs: list[Any] = [pool.pop() for _ in range(n)]
        else:
            xs = [rat(Fraction(pool.pop(), 4)) for _ in range(n)]
        style = first_style if k == 0 else rng.pick(["clean", "clean", "clean", "fail", "stopany"] if k == n_calls - 1 and k > 1
                                                    else ["clean", "clean", "clean", "fail"])
        outcomes = ["ok"] * n
        if style == "stop0":
            outcomes[0] = "S"
        elif style == "stopmid":
            outcomes[max(1, n // 2) if n > 1 else 0] = "S"
        elif style == "stopany":
            outcomes = [rng.pick(["ok", "ok", "F", "S"]) for _ in range(n)]
        elif style == "fail":
            outcomes = [rng.pick(["ok", "ok", "F"]) for _ in range(n)]
        elif style == "failsome":
            # at least one swallowed failure followed, in submission order, by a succeeding task: the discipline
            # object (one for all the inputs) / the executor is used again after a failure, in this call and the next
            outcomes = [rng.pick(["ok", "F"]) for _ in range(n)]
            outcomes[-1] = "ok"
            if "F" not in outcomes:
                outcomes[rng.randint(0, n - 2)] = "F"
        if style in ("stop0", "stopmid") and rng.chance(0.3):
            j = rng.randint(0, n - 1)
            if outcomes[j] == "ok":
                outcomes[j] = "F"
        has_s = "S" in outcomes
        lazy = (not has_s) and rng.chance(0.3)
        bias = rng.pick(["uniform", "reverse", "pile", "stop-first"] if has_s else ["uniform", "reverse", "pile"])
        if bias == "stop-first":
            script = stop_first_script(rng, n, n_procs, outcomes)
        else:
            script = random_script(rng, n, n_procs, outcomes, lazy, True, bias)
        calls.append({"xs": xs, "outcomes": outcomes, "script": [list(a) for a in script], "lazy": lazy})
    case["calls"] = calls
    return case


def stop_first_script(rng: common.Rng, n: int, n_procs: int, outcomes: list[str]):
    """Release the tasks raising a re-raised exception as early as the pool allows (the other results stay unread)."""
    m = Mirror(n, n_procs, outcomes, False, True)
    acc = []
    while not m.done():
        fs = [a for a in m.actions() if a[0] == "F"]
        stops = [a for a in fs if outcomes[a[1]] == "S"]
        a = stops[0] if stops else rng.pick(fs)
        m.apply(a)
        acc.append(a)
    return acc


def describe_hist(case) -> str:
    who = case["callables"] if case["api"] == "callable" else case["discs"]
    if "execute" in case:
        who = f"{who} execute={case['execute']} raising-in={'_compute_jacobian' if case.get('gate_on') == 'jac' else '_run'}"
    calls = "; ".join(f"execute({c['xs']}) outcomes={''.join(o[0] for o in c['outcomes'])} completion={[a[1] for a in c['script'] if a[0] == 'F']}"
                      f"{' lazy-callbacks' if c.get('lazy') else ''}" for c in case["calls"])
    return f"ONE {case['api']} executor {case['backend']} n_processes={case['n_procs']} workers={who}: {calls}"


def shrink_hist_case(case, key: str):
    def fails(c) -> bool:
        try:
            with short_waits():
                return any(k == key for k, _ in hist_oracle(c, run_hist_case(c)))
        except Exception:  # noqa: BLE001
            return False

    cur = case
    budget = 14
    t_end = time.time() + SHRINK_S
    improved = True
    while improved and budget > 0 and time.time() < t_end:
        improved = False
        cands = []
        nc = len(cur["calls"])
        if nc > 1:
            cands.append(dict(cur, calls=cur["calls"][:-1]))
            for j in range(nc - 1):
                cands.append(dict(cur, calls=cur["calls"][:j] + cur["calls"][j + 1:]))
        if cur["n_procs"] > 1:
            rng = common.make_rng(0, "shrink-hist")
            calls = [dict(c, lazy=False, script=[list(a) for a in random_script(rng, len(c["xs"]), cur["n_procs"] - 1, c["outcomes"],
                                                                                False, True, "uniform")]) for c in cur["calls"]]
            cands.append(dict(cur, n_procs=cur["n_procs"] - 1, calls=calls))
        for c in cands:
            budget -= 1
            if budget <= 0 or time.time() > t_end:
                break
            if fails(c):
                cur = c
                improved = True
                break
    return cur


def check_hist_cases(res: Result, cases: list[dict[str, Any]], deadline: float) -> None:
    runs = []
    failing: set[str] = set()
    for case in cases:
        if time.time() > deadline:
            res.notes.append(f"hist: stopped at the time limit after {len(runs)} of {len(cases)} cases")
            break
        run = usable_run(res, "hist", run_hist_case, case)
        if run is not None:
            runs.append((case, run))
            failing.update(k for k, _ in hist_oracle(case, run))
            if len(failing) >= 3:
                # several distinct failures already have a replay: the remaining cases would mostly wait for events
                res.notes.append(f"hist: stopped after {len(runs)} of {len(cases)} cases, oracle failures {sorted(failing)} are reported")
                break
    lines: list[str] = []
    for _, run in runs:
        for obs in run["calls"]:
            lines.extend(obs["lines"])
    answers = common.run_lean_driver(PID, lines)
    pos = 0
    for case, run in runs:
        res.evaluations += 1
        st = f"hist-{case['api']}"
        res.count(f"{st}:{case['backend']}")
        res.count(f"{st}:calls={len(case['calls'])}")
        res.count(f"hist:n_processes={case['n_procs']}")
        if "execute" in case:
            res.count(f"{st}:execute={case['execute']}")
        if any("F" in c["outcomes"][:-1] for c in case["calls"][:-1]) or (
                case["api"] in ("exec1", "lin1") and any("F" in c["outcomes"][:-1] for c in case["calls"])):
            res.count(f"{st}:discipline-used-again-after-a-swallowed-failure")
        first = case["calls"][0]["outcomes"]
        if "S" in first:
            res.count(f"{st}:first-call-re-raises-at-{'task0' if first[0] == 'S' else 'later-task'}")
            order = [a[1] for a in case["calls"][0]["script"] if a[0] == "F"]
            if order and order[-1] != first.index("S"):
                res.count(f"{st}:results-left-unread-by-first-call")
        res.nontrivial(("hist", json.dumps(case, sort_keys=True)))
        res.sample({"stream": st, "case": describe_hist(case),
                    "impl_results": [hist_result_string(case, o) for o in run["calls"]]}, cap=24)
        bad = hist_oracle(case, run)
        for key, msg in bad:
            small = shrink_hist_case(case, key)
            if small is not case:
                msg = dict(hist_oracle(small, run_hist_case(small))).get(key, msg)
            res.violate("oracle", f"hist-{case['api']}-{key}", f"{msg} [{describe_hist(small)}]"[:1100], {"kind": "hist", "case": small})
        diff = None
        for k, obs in enumerate(run["calls"]):
            ans = answers[pos: pos + len(obs["lines"])]
            pos += len(obs["lines"])
            if diff is not None:
                continue
            d = compare_with_model(dict(obs, hang="skip-result"), ans)
            if d is None and "deviation" not in obs:
                want = hist_result_string(case, obs)
                if ans[-1] != want:
                    d = f"model result `{ans[-1]}`, real `{want}`"
            if d is None and "deviation" not in obs and "failed_status" in obs and case["backend"] == "thread":
                flags = model_failed_flags(ans)
                if flags != obs["failed_status"]:
                    d = f"execution status FAILED of the discipline objects after the call: model {flags}, real {obs['failed_status']}"
            if d is not None and d != SKIP:
                d = f"call {k + 1} (`{obs['lines'][0]}`): {d}"
            diff = d
        if diff is None:
            res.traces_validated += 1
        elif diff == SKIP:
            res.count("hist:schedule-not-forced-timeout")
        else:
            res.disagreements += 1
            if not bad:
                res.violate("correspondence", f"hist-{case['api']}-model-vs-impl",
                            f"session model (fresh queues per call) and implementation disagree: {diff} [{describe_hist(case)}]"[:1100],
                            {"kind": "hist", "case": case, "protocol_lines": [o["lines"] for o in run["calls"]], "difference": diff,
                             "correspondence": "Driver/C13.lean init/call (einit/ecall for discipline executors) + transitions S/T/F/C/X + result"})


# ----------------------------------------------------------------------------- shared cache: execute + linearize interleavings
# case: {"kind": "xlin", "api": "lin"|"lin1"|"execlin"|"exec+lin", "mode": "thread"|"process", "n_procs": int,
#        "poly": [a, b, c] (y = a x^2 + b x + c, dy/dx = 2 a x + b), "xs": ["p/q", ...] (distinct),
#        "fail_run": [task indices], "fail_jac": [task indices], "script": [["E"|"J", k], ...]}
# Every task k executes then linearizes ITS input x_k through a discipline whose cache is one MemoryFullCache shared by
# all the workers (threads: one object; processes: shared memory).  Two gates per task: "E" inside `_run` (before the
# outputs are cached), "J" inside `_compute_jacobian` (before the Jacobian is cached); the script is the forced order
# in which the gates are opened, each opening being acknowledged by an observable event (next gate reached / callback)
# before the next one — no wall-clock assumption.  api: `lin` = DiscParallelLinearization over one discipline per task,
# `lin1` = DiscParallelLinearization of one discipline over n inputs (forked workers), `execlin` =
# CallableParallelExecution of "execute, then linearize", `exec+lin` = DiscParallelExecution then
# DiscParallelLinearization of the same disciplines (script: the E's, then the J's).


def xlin_phases(case) -> list[dict[str, Any]]:
    """The successive parallel calls of the case: for each, the gates every task goes through (`plan`), whether the
    task succeeds (`ok`) and the opening order (`script`)."""
    n = len(case["xs"])
    fr, fj = set(case.get("fail_run", [])), set(case.get("fail_jac", []))
    if case["api"] == "exec+lin":
        return [
            {"what": "exec", "plan": [["E"] for _ in range(n)], "ok": [True] * n,
             "script": [a for a in case["script"] if a[0] == "E"]},
            {"what": "lin", "plan": [["J"] for _ in range(n)], "ok": [k not in fj for k in range(n)],
             "script": [a for a in case["script"] if a[0] == "J"]},
        ]
    plan = [["E"] if k in fr else ["E", "J"] for k in range(n)]
    return [{"what": "lin", "plan": plan, "ok": [k not in fr and k not in fj for k in range(n)], "script": case["script"]}]


class XMirror:
    """Test control for the two-gate tasks (which gate can be opened next); neither the oracle nor the model."""

    def __init__(self, n: int, n_procs: int, plan: list[list[str]]) -> None:
        self.plan = plan
        self.not_started = list(range(n))
        self.at: dict[int, int] = {}  # running task -> index in its plan of the gate it waits at
        for _ in range(min(n, n_procs)):
            self.at[self.not_started.pop(0)] = 0

    def actions(self) -> list[tuple[str, int]]:
        return [(self.plan[k][i], k) for k, i in sorted(self.at.items())]

    def apply(self, act: tuple[str, int]) -> dict[str, Any]:
        _, k = act
        i = self.at[k]
        if i + 1 < len(self.plan[k]):
            self.at[k] = i + 1
            return {"finished": False, "next_gate": self.plan[k][i + 1], "start": None}
        del self.at[k]
        start = None
        if self.not_started:
            start = self.not_started.pop(0)
            self.at[start] = 0
        return {"finished": True, "next_gate": None, "start": start}

    def done(self) -> bool:
        return not self.at and not self.not_started


def random_xscript(rng: common.Rng, n: int, n_procs: int, plan: list[list[str]], bias: str) -> list[list]:
    m = XMirror(n, n_procs, plan)
    acc = []
    while not m.done():
        acts = m.actions()
        es = [a for a in acts if a[0] == "E"]
        js = [a for a in acts if a[0] == "J"]
        if bias == "E-first" and es:
            a = rng.pick(es)  # every running worker caches its outputs before any Jacobian is cached
        elif bias == "E-first-J-reverse" and (es or js):
            a = es[0] if es else js[-1]
        elif bias == "J-first" and js:
            a = rng.pick(js)
        else:
            a = rng.pick(acts)
        m.apply(a)
        acc.append(list(a))
    return acc


def xlin_exact(case, x) -> tuple[Fraction, Fraction]:
    a, b, c = (Fraction(t) for t in case["poly"])
    x = Fraction(x)
    return a * x * x + b * x + c, 2 * a * x + b


def _entry_triplet(e) -> tuple:
    jac = None
    if e.jacobian:
        try:
            jac = _scalar(e.jacobian["y"]["x"])
        except Exception:  # noqa: BLE001
            jac = "?"
    return (_scalar(e.inputs.get("x")) if e.inputs else None, _scalar(e.outputs.get("y")) if e.outputs else None, jac)


def _cache_snapshot(cache) -> dict[str, Any]:
    entries = [_entry_triplet(e) for e in cache.get_all_entries()]
    last = cache.last_entry
    return {"entries": entries, "last": _scalar(last.inputs.get("x")) if last.inputs else None, "len": len(cache)}


def _snap_string(snap) -> str:
    def o(v):
        return "?" if v == "?" else common.orat(v)

    return ";".join(f"{o(x)}:{o(y)}:{o(j)}" for x, y, j in snap["entries"]) or "[]"


def run_xlin_case(case) -> dict[str, Any]:
    import multiprocessing

    from gemseo.caches.memory_full_cache import MemoryFullCache
    from gemseo.core.parallel_execution.callable_parallel_execution import CallableParallelExecution
    from gemseo.core.parallel_execution.disc_parallel_execution import DiscParallelExecution
    from gemseo.core.parallel_execution.disc_parallel_linearization import DiscParallelLinearization
    from numpy import array

    from harness import c13_disc
    from harness.c13_disc import ExecThenLin
    from harness.c13_disc import GatedQuad
    from harness.c13_tasks import Gate

    api = case["api"]
    proc = case["mode"] == "process"
    xs = [Fraction(t) for t in case["xs"]]
    n = len(xs)
    a, b, c = case["poly"]
    mp = multiprocessing.get_context("fork")
    n_runs, n_jacs = mp.Value("i", 0), mp.Value("i", 0)
    key_of = {(float(x),): k for k, x in enumerate(xs)}
    inputs = [{"x": array([float(x)])} for x in xs]
    cache = MemoryFullCache(is_memory_shared=proc)

    def make(name: str, token, gated: bool = True, cached: bool = True):
        d = GatedQuad(name, a, b, c, token, key_of if gated else None, n, tuple(case.get("fail_run", [])),
                      tuple(case.get("fail_jac", [])), n_runs, n_jacs)
        d.cache = cache if cached else None
        d.add_differentiated_inputs(["x"])
        d.add_differentiated_outputs(["y"])
        return d

    obs: dict[str, Any] = {"hang": None, "gate_timeouts": 0, "notes": [], "lines": ["kinit"], "checks": [], "phases": []}
    lines = obs["lines"]
    snaps: list[tuple[int, dict[str, Any]]] = []  # (index of the `ko`/`kj` line, real cache after the same write)
    gate = Gate(2 * n, proc)
    token = c13_disc.register(gate)
    ds = [make("Q", token)] if api == "lin1" else [make(f"Q{i}", token) for i in range(n)]
    stderr = io.StringIO()
    try:
        for ph in xlin_phases(case):
            cb = _Callback(False)
            box: dict[str, Any] = {}
            done = threading.Event()
            if ph["what"] == "exec":
                ex = DiscParallelExecution(ds, n_processes=case["n_procs"], use_threading=not proc)
                call = lambda ex=ex: ex.execute(inputs, exec_callback=lambda i, data: cb(i, _scalar(data["y"])))  # noqa: E731
                spec = f"Q:{a}:{b}:{c}:-:-"
            elif api == "execlin":
                ex = CallableParallelExecution([ExecThenLin(d) for d in ds], n_processes=case["n_procs"], use_threading=not proc)
                call = lambda ex=ex: ex.execute(inputs, exec_callback=lambda i, j: cb(i, _scalar(j["y"]["x"])))  # noqa: E731
                spec = None
            else:
                ex = DiscParallelLinearization(ds, n_processes=case["n_procs"], use_threading=not proc)
                call = lambda ex=ex: ex.execute(inputs, exec_callback=lambda i, wd: cb(i, _scalar(wd.jacobian["y"]["x"])))  # noqa: E731
                spec = None
            if spec is None:
                fails = [rat(xs[k]) for k in range(n) if not ph["ok"][k]]
                spec = f"{2 * a}:{b}:{'|'.join(fails) or '-'}:-"
            lines.append(f"init {case['n_procs']} {rats(xs)} " + ";".join([spec] * len(ds)))
            lines.extend(["S"] * n)

            def runner(call=call, box=box, done=done) -> None:
                try:
                    box["result"] = ("returned", call())
                except BaseException as e:  # noqa: BLE001
                    box["result"] = ("raised", e)
                finally:
                    done.set()

            idents: list[tuple[int, int]] = []
            wid_of: dict[int, int] = {}
            started: list[int] = []

            def gate_key(stage: str, k: int) -> int:
                return k if stage == "E" else n + k

            def get_event(want: int) -> int:
                """Wait for the next gate to be reached; it must be gate `want`.  Returns the worker number."""
                try:
                    g, pid, tid = gate.started.get(timeout=EVENT_WAIT_S)
                except queue.Empty:
                    raise Hang(f"gate {want} was never reached") from None
                started.append(g)
                if (pid, tid) not in idents:
                    idents.append((pid, tid))
                if g != want:
                    raise Hang(f"gate {g} was reached while gate {want} was expected", timeout=False)
                return idents.index((pid, tid))

            def take(k: int, wid: int) -> None:
                lines.append(f"T {wid}")
                obs["checks"].append((len(lines) - 1, "busy", f"{wid}:B{k}"))
                wid_of[k] = wid

            def cache_line(stage: str, k: int) -> None:
                y, j = xlin_exact(case, xs[k])
                lines.append(f"ko {rat(xs[k])} {rat(y)}" if stage == "E" else f"kj {rat(xs[k])} {rat(j)}")
                snaps.append((len(lines) - 1, _cache_snapshot(cache)))

            mirror = XMirror(n, case["n_procs"], ph["plan"])
            th = threading.Thread(target=runner, daemon=True)
            with contextlib.redirect_stderr(stderr):
                th.start()
                try:
                    first = sorted(mirror.at)
                    got: dict[int, int] = {}
                    for _ in first:
                        try:
                            g, pid, tid = gate.started.get(timeout=EVENT_WAIT_S)
                        except queue.Empty:
                            raise Hang("no worker reached the first gate of its task") from None
                        started.append(g)
                        if (pid, tid) not in idents:
                            idents.append((pid, tid))
                        got[g] = idents.index((pid, tid))
                    want0 = {gate_key(ph["plan"][k][0], k): k for k in first}
                    if set(got) != set(want0):
                        raise Hang(f"gates {sorted(got)} were reached first, expected {sorted(want0)}", timeout=False)
                    for g in sorted(got):
                        take(want0[g], got[g])
                    for act in ph["script"]:
                        act = tuple(act)
                        if act not in mirror.actions():
                            raise Hang(f"script action {act} impossible in the mirrored pool state", timeout=False)
                        stage, k = act
                        eff = mirror.apply(act)
                        gate.release[gate_key(stage, k)].set()
                        if not eff["finished"]:
                            get_event(gate_key(eff["next_gate"], k))
                            cache_line(stage, k)
                            continue
                        if ph["ok"][k]:
                            try:
                                i = cb.events.get(timeout=EVENT_WAIT_S)
                            except queue.Empty:
                                raise Hang(f"callback for task {k} never called") from None
                            if i != k:
                                raise Hang(f"callback for index {i} while {k} was expected", timeout=False)
                            cache_line(stage, k)
                        lines.append(f"F {wid_of.pop(k)}")
                        lines.append("C")
                        if ph["ok"][k]:
                            obs["checks"].append((len(lines) - 1, "cb", fmt_cbs(cb.log)))
                        if eff["start"] is not None:
                            k2 = eff["start"]
                            take(k2, get_event(gate_key(ph["plan"][k2][0], k2)))
                    if not done.wait(EVENT_WAIT_S):
                        raise Hang("the call did not return after every gate was opened")
                    lines.append("X")
                    lines.extend(f"T {w}" for w in range(len(idents)))
                    lines.append("result")
                    obs["checks"].append((len(lines) - 1, "result", None))
                except Hang as h:
                    obs["deviation"] = str(h)
                    obs["timeout"] = h.timeout
                    gate.open_all()
                    if not done.wait(EVENT_WAIT_S):
                        obs["hang"] = str(h)
            obs["phases"].append({"what": ph["what"], "result": box.get("result", ("hang", None)), "cb_log": list(cb.log),
                                  "started": started})
            if obs["hang"] is not None or "deviation" in obs:
                break
            for g in range(2 * n):
                gate.release[g].clear()
    finally:
        c13_disc.unregister(token)
    obs["gate_timeouts"] = gate.timeouts
    obs["snaps"] = snaps
    obs["result"] = obs["phases"][-1]["result"]
    obs["cb_log"] = obs["phases"][-1]["cb_log"]
    if unusable(obs):
        return obs
    # ---- what the shared cache holds afterwards, and what it serves
    try:
        obs["final"] = _cache_snapshot(cache)
        look = []
        for x in xs:
            e = cache[{"x": array([float(x)])}]
            look.append(_entry_triplet(e)[1:])
        obs["lookups"] = look
        r0, j0 = n_runs.value, n_jacs.value
        later = []
        for k, x in enumerate(xs):
            if k in case.get("fail_run", []) or k in case.get("fail_jac", []):
                later.append(None)
                continue
            d = make(f"later{k}", None, gated=False)
            jac = d.linearize({"x": array([float(x)])})
            later.append((_scalar(d.io.data.get("y")), _scalar(jac["y"]["x"])))
        obs["later"] = later
        obs["later_new_computations"] = (n_runs.value - r0, n_jacs.value - j0)
        twin = []
        for k, x in enumerate(xs):
            if k in case.get("fail_run", []) or k in case.get("fail_jac", []):
                twin.append(None)
                continue
            d = make(f"twin{k}", None, gated=False, cached=False)
            out = d.execute({"x": array([float(x)])})
            jac = d.linearize({"x": array([float(x)])})
            twin.append((_scalar(out["y"]), _scalar(jac["y"]["x"])))
        obs["twin"] = twin
    except Exception as e:  # noqa: BLE001
        obs["cache_error"] = f"{common.exc_class(e)}: {e}"
    return obs


def xlin_oracle(case, obs) -> list[tuple[str, str]]:
    """Property text: parallel execution + linearization give the data and Jacobians of the sequential computation,
    including when the workers share a cache — the Jacobians returned, and everything the shared cache holds or
    serves afterwards (entries, look-ups, a later linearization), are those of the sequential uncached twin."""
    if unusable(obs):
        return []
    bad: list[tuple[str, str]] = []
    xs = [Fraction(t) for t in case["xs"]]
    n = len(xs)
    fr, fj = set(case.get("fail_run", [])), set(case.get("fail_jac", []))
    exact = [xlin_exact(case, x) for x in xs]

    def eq(g, w) -> bool:
        return g is not None and g != "?" and common.is_finite_num(g) and common.F(g) == w

    for ph in obs["phases"]:
        kind, val = ph["result"]
        if kind != "returned":
            return [("raises", f"the parallel {ph['what']} raised {val!r}")]
        if not (isinstance(val, list) and len(val) == n):
            return [("positional-results", f"the parallel {ph['what']} returned {val!r} for {n} inputs")]
        exp_cbs = []
        for k in range(n):
            ok = True if ph["what"] == "exec" else (k not in fr and k not in fj)
            want = exact[k][0] if ph["what"] == "exec" else exact[k][1]
            if not ok:
                if val[k] is not None:
                    bad.append(("positional-results", f"{ph['what']}: slot {k} of a failing task holds {val[k]!r}"))
                continue
            exp_cbs.append((k, float(want)))
            try:
                got = _scalar(val[k]["y"]) if ph["what"] == "exec" else _scalar(val[k]["y"]["x"])
            except Exception:  # noqa: BLE001
                got = None
            if not eq(got, want):
                bad.append(("positional-results", f"{ph['what']}: slot {k} (input {xs[k]}) holds {got}, the sequential computation gives {want}"))
        if not (sorted(ph["cb_log"]) == exp_cbs):
            bad.append(("callbacks", f"{ph['what']}: callback calls {ph['cb_log']} are not once per successful task with the matching index {exp_cbs}"))
    if "cache_error" in obs:
        return bad + [("cache-raises", f"reading / re-using the shared cache raised {obs['cache_error']}")]
    if "deviation" in obs:
        return bad  # the gates were opened at once: which writes happened is not known, only the results are judged
    # entries: one per input whose outputs were cached, with ITS outputs and (if its linearization succeeded) ITS Jacobian
    by_x: dict[Fraction, list] = {}
    for x, y, j in obs["final"]["entries"]:
        if x is None or not common.is_finite_num(x):
            bad.append(("cache-entries", f"a cache entry has no input data: {obs['final']['entries']}"))
            continue
        by_x.setdefault(common.F(x), []).append((y, j))
    for k, x in enumerate(xs):
        es = by_x.pop(x, [])
        want_y, want_j = exact[k]
        if k in fr:
            if es:
                bad.append(("cache-entries", f"input {x} (whose execution fails) has cache entries {es}"))
            continue
        if len(es) != 1:
            bad.append(("cache-entries", f"input {x} has {len(es)} cache entries, the sequential run with this cache has exactly one"))
            continue
        y, j = es[0]
        if not eq(y, want_y):
            bad.append(("cache-entry-outputs", f"the shared cache maps input x={x} to outputs y={y}; the sequential uncached computation gives {want_y}"))
        if k in fj:
            if j is not None:
                bad.append(("cache-entry-jacobian", f"the shared cache holds a Jacobian {j} for x={x} whose linearization fails"))
        elif j is None:
            bad.append(("cache-entry-jacobian-missing", f"the shared cache holds no Jacobian for input x={x} although task {k} linearized it "
                                                         f"(entries (x, y, dy/dx): {obs['final']['entries']})"))
        elif not eq(j, want_j):
            bad.append(("cache-entry-jacobian", f"the shared cache maps input x={x} to the Jacobian dy/dx={j}; the sequential uncached computation "
                                                f"gives {want_j} (entries (x, y, dy/dx): {obs['final']['entries']})"))
    if by_x:
        bad.append(("cache-entries", f"the shared cache has entries for inputs {sorted(map(str, by_x))} that no task was given"))
    for k, x in enumerate(xs):
        y, j = obs["lookups"][k]
        wy = None if k in fr else exact[k][0]
        wj = None if (k in fr or k in fj) else exact[k][1]
        if not ((wy is None and y is None) or (wy is not None and eq(y, wy))) or (j is not None and not (wj is not None and eq(j, wj))):
            bad.append(("cache-lookup", f"cache[x={x}] gives outputs {y} and Jacobian {j}; the sequential computation gives {wy} and {wj}"))
    for k, x in enumerate(xs):
        if obs["later"][k] is None:
            continue
        y, j = obs["later"][k]
        if not (eq(y, exact[k][0]) and eq(j, exact[k][1])):
            bad.append(("later-linearization", f"a later linearization at x={x} of a discipline using the shared cache gives y={y}, dy/dx={j}; "
                                               f"the sequential uncached computation gives {exact[k][0]}, {exact[k][1]}"))
        if not (obs["twin"][k] is not None and eq(obs["twin"][k][0], exact[k][0]) and eq(obs["twin"][k][1], exact[k][1])):
            bad.append(("twin", f"the sequential uncached twin gives {obs['twin'][k]} at x={x}, closed form {exact[k]}"))
    if not bad and obs["later_new_computations"] != (0, 0):
        bad.append(("not-transparent", f"re-linearizing at the cached inputs recomputed (runs, Jacobians) = {obs['later_new_computations']}, expected (0, 0)"))
    seen: dict[str, str] = {}
    for key, msg in bad:
        seen.setdefault(key, msg)
    return list(seen.items())


def xlin_compare(case, obs, answers: list[str]) -> str | None:
    """Pool transitions as usual + the shared-cache machine: after every forced cache write the real cache
    (`get_all_entries()`, `last_entry`) is compared with the model state after the same `ko`/`kj` operation."""
    d = compare_with_model(dict(obs, hang="skip-result", checks=[c for c in obs["checks"] if c[1] != "result"]), answers)
    if d is not None:
        return d
    lines = obs["lines"]
    for idx, snap in obs["snaps"]:
        st = parse_state(answers[idx])
        real = _snap_string(snap)
        if st.get("e") != real:
            return f"after `{lines[idx]}` (line {idx}) the model cache is (x:y:dy/dx) {st.get('e')}, the real one {real}"
        ents = (st.get("e") or "").split(";")
        li = int(st.get("last", "0") or 0)
        mlast = ents[li - 1].split(":")[0] if 0 < li <= len(ents) else "_"
        if mlast != common.orat(snap["last"]):
            return f"after `{lines[idx]}` (line {idx}) the model's last accessed entry is x={mlast}, `last_entry` of the real cache is x={common.orat(snap['last'])}"
    for idx, fld, _ in obs["checks"]:
        if fld == "result":
            ph = obs["phases"][[c[0] for c in obs["checks"] if c[1] == "result"].index(idx)]
            kind, val = ph["result"]
            try:
                if kind != "returned":
                    want = "final=1 raised:" + common.exc_class(val)
                elif ph["what"] == "exec":
                    want = "final=1 returned " + ",".join(common.orat(None if v is None else _scalar(v["y"])) for v in val)
                else:
                    want = "final=1 returned " + ",".join(common.orat(None if v is None else _scalar(v["y"]["x"])) for v in val)
            except Exception as e:  # noqa: BLE001
                want = f"final=1 returned?{type(e).__name__}"
            if answers[idx] != want:
                return f"model result `{answers[idx]}`, real `{want}`"
    return None


def gen_xlin_case(rng: common.Rng, mode: str, api: str | None = None, bias: str | None = None,
                  all_workers: bool = False) -> dict[str, Any]:
    api = api or rng.pick(["lin", "lin", "execlin", "exec+lin"] + (["lin1"] if mode == "process" else []))
    n = rng.randint(2, 4)
    n_procs = n if all_workers else rng.pick([2, 2, 3, n, 1])
    xs: list[str] = []
    while len(xs) < n:
        t = rat(Fraction(rng.randint(-12, 12), 4))
        if t not in xs:
            xs.append(t)
    case: dict[str, Any] = {"kind": "xlin", "api": api, "mode": mode, "n_procs": n_procs,
                            "poly": [rng.randint(1, 3), rng.randint(-3, 3), rng.randint(-2, 2)], "xs": xs, "fail_run": [], "fail_jac": []}
    if rng.chance(0.3):
        for k in range(n):
            r = rng.random()
            if r < 0.15 and api != "exec+lin":
                case["fail_run"].append(k)
            elif r < 0.35:
                case["fail_jac"].append(k)
    bias = bias or rng.pick(["E-first", "E-first", "E-first-J-reverse", "uniform", "J-first"])
    if api == "exec+lin":
        p1 = random_xscript(rng, n, n_procs, [["E"]] * n, "uniform")
        p2 = random_xscript(rng, n, n_procs, [["J"]] * n, rng.pick(["uniform", "E-first-J-reverse"]))
        case["script"] = p1 + p2
    else:
        case["script"] = random_xscript(rng, n, n_procs, xlin_phases(dict(case, script=[]))[0]["plan"], bias)
    return case


def describe_xlin(case) -> str:
    a, b, c = case["poly"]
    return (f"shared MemoryFullCache {case['mode']} api={case['api']} y={a}x^2+{b}x+{c} xs={case['xs']} n_processes={case['n_procs']} "
            f"failing in _run={case.get('fail_run', [])} in _compute_jacobian={case.get('fail_jac', [])} "
            f"cache-write order={''.join(f'{s}{k} ' for s, k in case['script']).strip()}")


def shrink_xlin_case(case, key: str):
    def fails(c) -> bool:
        try:
            return any(k == key for k, _ in xlin_oracle(c, run_xlin_case(c)))
        except Exception:  # noqa: BLE001
            return False

    cur = case
    budget = 12
    t_end = time.time() + SHRINK_S
    improved = True
    while improved and budget > 0 and time.time() < t_end:
        improved = False
        n = len(cur["xs"])
        cands = []
        for k in range(n):
            if n <= 2:
                break
            ren = lambda i, k=k: i - (i > k)  # noqa: E731
            cands.append(dict(cur, xs=cur["xs"][:k] + cur["xs"][k + 1:], fail_run=[ren(i) for i in cur.get("fail_run", []) if i != k],
                              fail_jac=[ren(i) for i in cur.get("fail_jac", []) if i != k],
                              script=[[s, ren(i)] for s, i in cur["script"] if i != k]))
        if cur.get("fail_run") or cur.get("fail_jac"):
            cands.append(dict(cur, fail_run=[], fail_jac=[], script=[a for a in cur["script"]] + [
                ["J", k] for k in cur.get("fail_run", [])]))
        for c in cands:
            budget -= 1
            if budget <= 0:
                break
            # a candidate script must be one the pool allows
            try:
                for ph in xlin_phases(c):
                    m = XMirror(len(c["xs"]), c["n_procs"], ph["plan"])
                    for act in ph["script"]:
                        if tuple(act) not in m.actions():
                            raise ValueError
                        m.apply(tuple(act))
                    if not m.done():
                        raise ValueError
            except ValueError:
                continue
            if fails(c):
                cur = c
                improved = True
                break
    return cur


def check_xlin_cases(res: Result, cases: list[dict[str, Any]], deadline: float) -> None:
    runs = []
    failing: set[str] = set()
    for case in cases:
        if time.time() > deadline:
            res.notes.append(f"xlin: stopped at the time limit after {len(runs)} of {len(cases)} cases")
            break
        obs = usable_run(res, "xlin", run_xlin_case, case)
        if obs is not None:
            runs.append((case, obs))
            failing.update(k for k, _ in xlin_oracle(case, obs))
            if len(failing) >= 3:
                res.notes.append(f"xlin: stopped after {len(runs)} of {len(cases)} cases, oracle failures {sorted(failing)} are reported")
                break
    lines: list[str] = []
    for _, obs in runs:
        lines.extend(obs["lines"])
    answers = common.run_lean_driver(PID, lines)
    pos = 0
    for case, obs in runs:
        ans = answers[pos: pos + len(obs["lines"])]
        pos += len(obs["lines"])
        res.evaluations += 1
        st = f"xlin-{case['api']}"
        res.count(f"{st}:{case['mode']}")
        order = [tuple(a) for a in case["script"]]
        inter = any(s == "J" and any(s2 == "E" for s2, _ in order[i + 1:]) for i, (s, _) in enumerate(order))
        # the write pattern out(x1), out(x2), jac(x1): a Jacobian cached for an entry that is not the last one created
        stale = False
        latest = None
        for s_, k_ in order:
            if s_ == "E":
                latest = k_
            elif latest != k_:
                stale = True
        res.count(f"{st}:{'jacobian-cached-into-non-latest-entry' if stale else 'every-jacobian-into-latest-entry'}")
        if inter:
            res.count(f"{st}:outputs-cached-after-some-jacobian")
        if case.get("fail_run") or case.get("fail_jac"):
            res.count(f"{st}:with-failing-tasks")
        res.nontrivial(("xlin", json.dumps(case, sort_keys=True)))
        res.sample({"stream": st, "case": describe_xlin(case), "final_cache (x, y, dy/dx)": obs.get("final", {}).get("entries")}, cap=30)
        bad = xlin_oracle(case, obs)
        for key, msg in bad:
            small = shrink_xlin_case(case, key)
            if small is not case:
                msg = dict(xlin_oracle(small, run_xlin_case(small))).get(key, msg)
            res.violate("oracle", f"xlin-{key}", f"{msg} [{describe_xlin(small)}]"[:1100], {"kind": "xlin", "case": small})
        diff = xlin_compare(case, obs, ans)
        if diff is None:
            res.traces_validated += 1
        elif diff == SKIP:
            res.count("xlin:schedule-not-forced-timeout")
        else:
            res.disagreements += 1
            if not bad:
                res.violate("correspondence", "xlin-model-vs-impl",
                            f"shared-cache model and implementation disagree: {diff} [{describe_xlin(case)}]"[:1100],
                            {"kind": "xlin", "case": case, "protocol_lines": obs["lines"], "model_answers": ans, "difference": diff,
                             "correspondence": "Driver/C13.lean kinit/ko/kj + pool transitions"})


# ----------------------------------------------------------------------------- run


def load_corpus() -> list[dict[str, Any]]:
    d = common.CORPUS_DIR / PID
    out = []
    if d.is_dir():
        for p in sorted(d.glob("*.json")):
            out.append(json.loads(p.read_text()))
    return out


def run(ctx) -> Result:
    res = Result(PID)
    res.rule = (
        "gated runs of CallableParallelExecution: every completion order the pool allows for <= 3 tasks (thorough: <= 4) x "
        "worker counts 1..n+1 x every assignment ok/raises/raises-a-re-raised-class, random scripts for 4-8 tasks incl. a "
        "collector blocked inside callbacks, thread and process back-ends; gated/ladder parallel DOEs vs sequential DOEs; gated "
        "DiscParallelExecution/Linearization, MDOParallelChain, parallel FD/centered/complex-step, shared MemoryFullCache; "
        "histories of 2-3 successive execute() calls on ONE executor object (Callable/Disc execution/linearization, threads and "
        "processes, n_processes 1-3, first call ending by a re-raised exception at task 0 / a middle task with results left unread, "
        "then calls with other inputs); workers sharing one MemoryFullCache that execute then linearize their own input under forced "
        "interleavings of the cache writes (DiscParallelLinearization, execute-then-linearize tasks, execution then linearization); "
        "DiscParallelExecution/Linearization with every documented option (execute=False/True, threads/processes, n_processes, "
        "wait_time_between_fork, one callback or a list, task_submitted_callback, exceptions_to_re_raise), tasks failing in `_run` or in "
        "`_compute_jacobian`, one discipline object used again after a failing task (same call: one discipline over n inputs with fewer "
        "workers than tasks; next call on the same executor), disciplines working in place on their input array; MDOParallelChain "
        "(execute and linearize, use_deep_copy on/off, threads/processes, n_processes 1..n) whose disciplines scale their input array in "
        "place while others read it, under forced orders of the bodies; histories of 2-3 f_gradient(x, step=, x_indices=, **kwargs) / "
        "compute_optimal_step(x, **kwargs) calls on ONE parallel FirstOrderFD / CenteredDifferences / ComplexStep (processes, n_processes 2-3) whose "
        "function takes keyword arguments that change between the calls (every quick run: compute_optimal_step with keyword arguments as the first "
        "call of a fresh approximator, and after an f_gradient with other keyword arguments); histories of 1-3 execute / linearize calls on ONE "
        "MDOParallelChain of affine disciplines with several inputs and outputs (an output computed by 2-3 disciplines, requested inputs only an "
        "earlier producer depends on, add_differentiated_inputs/outputs accumulated over the history, compute_all_jacobians on/off, execute=False, "
        "with/without cache, use_deep_copy on/off, threads/processes, n_processes 1..n); "
        "a case is non-trivial when it has >= 2 tasks; distinct by (configuration, script)"
    )
    res.assumptions = [
        "inputs of one gated run are distinct (equal inputs would hide an index mix-up); repeated inputs/samples are used in the ungated (duration-ladder) runs",
        "no verdict depends on wall-clock time: an expected event later than 20 s makes the harness stop steering the run (the "
        "oracle then judges only what holds for every schedule: returned values, callback log, task counts); a call that does not "
        "return or a gated task that is not released in time discards the run, which is repeated once with doubled waits and "
        "otherwise makes the check exit 2 (never 0 or 1); sleep ladders only bias the completion order",
        "task functions are deterministic functions of their input (a repeated DOE sample fails at all its occurrences or at none)",
        "disciplines that write into their input are in the quantifier where the API makes the tasks independent: own input arrays per "
        "task (DiscParallelExecution/Linearization: `the inputs must be independent objects`), MDOParallelChain with use_deep_copy=True "
        "or forked workers; use_deep_copy=False with threads and a writing discipline is a probe (compared with the model, never a verdict)",
        "gradient approximators: the process back-end only (the thread back-end refuses one callable used for several tasks); a call the "
        "SEQUENTIAL approximator refuses (e.g. a second compute_optimal_step once the step is an array) is outside the quantifier (counted, no verdict)",
        "parallel chains vs sequential chains: no discipline of the chain reads an output of another one (a parallel chain runs them independently); "
        "the MDOChain run beside is shown for information, the verdict comes from the closed form (last producer of each output)",
    ]
    rng = ctx.rng
    span = ctx.deadline - ctx.t0
    walls: dict[str, float] = {}

    def timed(name, fn, *args):
        t = time.time()
        fn(*args)
        walls[name] = round(time.time() - t, 1)

    corpus = load_corpus()
    res.count("corpus", len(corpus))
    t_pool = ctx.t0 + span * 0.5
    timed("corpus-pool", check_pool_cases, res, [c["case"] for c in corpus if c.get("kind") == "pool"], rng, "corpus", t_pool)
    ex = exhaustive_cases(rng, 4 if ctx.thorough else 3, "oFS")
    timed("thread-exhaustive", check_pool_cases, res, ex, rng, "thread-exhaustive", t_pool)
    res.exhaustive = True
    rnd = [random_case(rng, "thread") for _ in range(3000 if ctx.thorough else 250)]
    timed("thread-random", check_pool_cases, res, rnd, rng, "thread-random", t_pool)
    prc = exhaustive_cases(rng, 3 if ctx.thorough else 2, "oFS", backend="process", spare_worker_upto=99 if ctx.thorough else 1)
    prc += [random_case(rng, "process", 3, 6) for _ in range(120 if ctx.thorough else 16)]
    timed("process-gated", check_pool_cases, res, prc, rng, "process-gated", t_pool)
    n_doe = 240 if ctx.thorough else 18
    doe_cases = [c["case"] for c in corpus if c.get("kind") == "doe"]
    doe_cases += [gen_doe_case(rng, "gated") for _ in range(n_doe)] + [gen_doe_case(rng, "ladder") for _ in range(n_doe // 3)]
    timed("doe", check_doe_cases, res, doe_cases, ctx.t0 + span * 0.7)
    disc_cases = [c["case"] for c in corpus if c.get("kind") == "disc"]
    # one discipline object used for the tasks that follow a failing one (fewer workers than tasks), every
    # `execute` option of DiscParallelLinearization, failing execution and failing linearization
    k = 10 if ctx.thorough else 1
    for ex in (False, True):
        for np_ in (1, 2):
            disc_cases += [gen_disc_case(rng, "lin1", execute=ex, fail_some=True, n_procs=np_) for _ in range(k)]
    disc_cases += [gen_disc_case(rng, "exec1", fail_some=True, n_procs=1) for _ in range(k)]
    disc_cases += [gen_disc_case(rng) for _ in range(800 if ctx.thorough else 60)]
    timed("disc", check_disc_cases, res, disc_cases, ctx.t0 + span * 0.82)
    # parallel chains whose disciplines work in place on the input they are handed, forced orders of the bodies
    chainip_cases = [c["case"] for c in corpus if c.get("kind") == "chainip"]
    for backend in ("thread", "process"):
        for api in ("chain", "chainlin"):
            chainip_cases += [gen_chainip_case(rng, backend, True, api, n_procs=1, writer_first=True) for _ in range(k)]
    chainip_cases += [gen_chainip_case(rng) for _ in range(400 if ctx.thorough else 36)]
    timed("chainip", check_chainip_cases, res, chainip_cases, ctx.t0 + span * 0.86)
    cache_cases = [c["case"] for c in corpus if c.get("kind") == "cache"]
    cache_cases += [gen_cache_case(rng) for _ in range(400 if ctx.thorough else 24)]
    timed("cache", check_cache_cases, res, cache_cases, ctx.t0 + span * 0.92)
    fd_cases = [c["case"] for c in corpus if c.get("kind") == "fd"]
    fd_cases += [gen_fd_case(rng) for _ in range(400 if ctx.thorough else 24)]
    timed("fd", check_fd_cases, res, fd_cases, ctx.t0 + span * 0.94)
    # successive execute() calls on ONE executor: every (n_processes, where the first call re-raises) combination on
    # both back-ends for the plain executor, then random histories over the five executor kinds
    k = 10 if ctx.thorough else 1
    hist_cases = [c["case"] for c in corpus if c.get("kind") == "hist"]
    for backend in ("process", "thread"):
        for np_ in (1, 2, 3):
            for style in ("stop0", "stopmid"):
                for _ in range(k):
                    hist_cases.append(gen_hist_case(rng, backend, "callable", n_procs=np_, first_style=style))
    # a discipline object that failed (swallowed failure) is used again: in the same call (one discipline, forked workers,
    # fewer workers than tasks) and in the next call (threads run the caller's objects), with execute=False and True
    for ex in (False, True):
        hist_cases += [gen_hist_case(rng, "thread", "lin", first_style="failsome", execute=ex) for _ in range(2 * k)]
        hist_cases += [gen_hist_case(rng, "process", "lin1", first_style="failsome", execute=ex, n_procs=np_) for np_ in (1, 2) for _ in range(k)]
    hist_cases += [gen_hist_case(rng, "thread", "exec", first_style="failsome") for _ in range(k)]
    hist_cases += [gen_hist_case(rng, "thread", api) for api in ("callable", "exec", "exec", "lin", "lin") for _ in range(5 * k)]
    hist_cases += [gen_hist_case(rng, "process", api) for api in ("exec", "lin", "exec1", "lin1") for _ in range(k)]
    timed("hist", check_hist_cases, res, hist_cases, ctx.t0 + span * 0.97)
    # workers sharing one full cache, each executing then linearizing its input, forced interleavings of the cache writes
    xlin_cases = [c["case"] for c in corpus if c.get("kind") == "xlin"]
    for mode in ("thread", "process"):
        for api in ("lin", "exec+lin", "execlin"):
            xlin_cases += [gen_xlin_case(rng, mode, api, bias="E-first", all_workers=True) for _ in range(k)]
    xlin_cases += [gen_xlin_case(rng, "thread") for _ in range(30 * k)] + [gen_xlin_case(rng, "process") for _ in range(3 * k)]
    timed("xlin", check_xlin_cases, res, xlin_cases, ctx.t0 + span * 0.995)
    # round 3: histories on ONE parallel gradient approximator whose function takes keyword arguments that change between
    # the calls (f_gradient / compute_optimal_step), and on ONE parallel chain with outputs computed by several disciplines
    # and requested input/output subsets; closed-form oracles, sequential counterparts run beside (harness/c13_seq.py)
    from harness import c13_seq

    fdh = [c["case"] for c in corpus if c.get("kind") == "fdhist"]
    for method in ("fd", "centered"):
        fdh += [c13_seq.gen_fdhist_case(rng, method, first="optstep") for _ in range(2 * k)]
        fdh += [c13_seq.gen_fdhist_case(rng, method, first="grad") for _ in range(k)]
    fdh += [c13_seq.gen_fdhist_case(rng, "complex") for _ in range(k)]
    fdh += [c13_seq.gen_fdhist_case(rng) for _ in range(300 if ctx.thorough else 8)]
    timed("fdhist", c13_seq.check_fdhist_cases, res, fdh, ctx.t0 + span * 0.998)
    mix = [c["case"] for c in corpus if c.get("kind") == "chainmix"]
    for backend in ("thread", "process"):
        mix += [c13_seq.gen_chainmix_case(rng, backend, shape="override") for _ in range(2 * k)]
    mix += [c13_seq.gen_chainmix_case(rng) for _ in range(600 if ctx.thorough else 32)]
    timed("chainmix", c13_seq.check_chainmix_cases, res, mix, ctx.t0 + span * 1.0)
    res.extra["stream_wall_s"] = walls
    lost = res.extra.get("unresolved_timeouts")
    if lost and not res.violations:
        # never a verdict: the machinery could not force/observe these schedules in time (exit 2)
        msg = f"{len(lost)} gated case(s) timed out twice and were skipped: {lost[:3]}"
        raise RuntimeError(msg)
    return res


def replay(path: str) -> int:
    data = json.loads(open(path).read())
    rp = data.get("replay", data)
    if rp.get("kind") == "pool":
        case = rp["case"]
        obs = run_pool_case(case)
        bad = pool_oracle(case, obs)
        print("case:", describe(case))
        print("impl:", result_string(obs), "callbacks:", fmt_cbs(obs["cb_log"]), "hang:", obs["hang"])
        if obs["hang"] is None:
            ans = common.run_lean_driver(PID, obs["lines"])
            print("model:", ans[-1], "| first difference:", compare_with_model(obs, ans))
        print("sequential map:", expected_outputs(case))
        for k, m in bad:
            print("ORACLE FAILS:", k, m)
        return 1 if bad else 0
    if rp.get("kind") == "doe":
        case = rp["case"]
        par, seq = run_doe_parallel(case), run_doe_sequential(case)
        bad = doe_oracle(case, par, seq)
        print("case:", describe_doe(case))
        print("parallel db:", par["db"], "callbacks:", par["cb_log"], "error:", par["error"], "hang:", par.get("hang"))
        print("sequential db:", seq["db"], "callbacks:", seq["cb_log"], "error:", seq["error"])
        print("model:", common.run_lean_driver(PID, [doe_model_line(case, par["cb_log"])])[0])
        for k, m in bad:
            print("ORACLE FAILS:", k, m[:600])
        return 1 if bad else 0
    if rp.get("kind") == "disc":
        case = rp["case"]
        obs = run_disc_case(case)
        bad = disc_oracle(case, obs)
        print("case:", describe_disc(case))
        print("impl:", disc_result_string(case, obs), "callbacks:", obs["cb_log"], "hang:", obs["hang"])
        if obs["hang"] is None:
            print("model:", common.run_lean_driver(PID, obs["lines"])[-1])
        for k, m in bad:
            print("ORACLE FAILS:", k, m[:600])
        return 1 if bad else 0
    if rp.get("kind") == "chainip":
        case = rp["case"]
        obs = run_chainip_case(case)
        bad = chainip_oracle(case, obs)
        print("case:", describe_chainip(case), "" if chainip_in_scope(case) else "(probe: outside the property's quantifier)")
        print("impl:", chainip_result_string(case, obs), "| chain input afterwards:", obs.get("chain_x"), "caller's array:", obs.get("caller_x"),
              "| disciplines FAILED:", obs.get("failed_status"), "hang:", obs["hang"])
        print("each discipline alone on a copy of the chain input (value, Jacobian):", obs.get("twin"), obs.get("twin_error", ""))
        if obs["hang"] is None:
            print("model:", common.run_lean_driver(PID, obs["lines"])[-1])
        for k, m in bad:
            print("ORACLE FAILS:", k, m[:700])
        return 1 if bad else 0
    if rp.get("kind") == "fd":
        case = rp["case"]
        obs = run_fd_case(case)
        bad = fd_oracle(case, obs)
        print("case:", describe_fd(case))
        print("parallel:", obs["result"], "sequential:", obs["sequential"], "hang:", obs["hang"])
        for k, m in bad:
            print("ORACLE FAILS:", k, m[:600])
        return 1 if bad else 0
    if rp.get("kind") == "cache":
        case = rp["case"]
        obs = run_cache_case(case)
        bad = cache_oracle(case, obs)
        print("case:", describe_cache(case))
        print("result:", obs["result"], "entries:", obs.get("entries"), "lookups:", obs.get("lookups"), "again:", obs.get("again"),
              "runs_again:", obs.get("runs_again"), "hang:", obs["hang"], obs.get("cache_error"))
        for k, m in bad:
            print("ORACLE FAILS:", k, m[:600])
        return 1 if bad else 0
    if rp.get("kind") == "hist":
        case = rp["case"]
        run = run_hist_case(case)
        bad = hist_oracle(case, run)
        print("case:", describe_hist(case))
        lines = [ln for o in run["calls"] for ln in o["lines"]]
        ans = common.run_lean_driver(PID, lines) if lines else []
        pos = 0
        for k, o in enumerate(run["calls"]):
            a = ans[pos: pos + len(o["lines"])]
            pos += len(o["lines"])
            call = case["calls"][k]
            exp = [str(hist_value(case, i, x)) if oc == "ok" else None for i, (x, oc) in enumerate(zip(call["xs"], call["outcomes"]))]
            print(f"call {k + 1}: execute({call['xs']}) impl: {hist_result_string(case, o)} callbacks: {o['cb_log']}")
            print(f"         sequential map of these inputs: {exp}; model ({o['lines'][0]}): {a[-1] if a else None}"
                  f"{' | real run left the forced schedule: ' + o['deviation'] if 'deviation' in o else ''}")
        if run["hang"]:
            print("no verdict (time-out):", run["hang"])
        for k, m in bad:
            print("ORACLE FAILS:", k, m[:700])
        return 1 if bad else 0
    if rp.get("kind") == "xlin":
        case = rp["case"]
        obs = run_xlin_case(case)
        bad = xlin_oracle(case, obs)
        print("case:", describe_xlin(case))
        print("results:", [(p["what"], p["result"][0], p["cb_log"]) for p in obs["phases"]])
        print("shared cache afterwards (x, y, dy/dx):", obs.get("final", {}).get("entries"), "| look-ups:", obs.get("lookups"))
        print("later linearizations:", obs.get("later"), "new computations:", obs.get("later_new_computations"),
              "| sequential uncached twin:", obs.get("twin"))
        print("closed form (y, dy/dx):", [tuple(map(str, xlin_exact(case, x))) for x in case["xs"]])
        if unusable(obs):
            print("no verdict (time-out):", unusable(obs))
        else:
            ans = common.run_lean_driver(PID, obs["lines"])
            print("model vs implementation:", xlin_compare(case, obs, ans) or "agree on every transition and cache write")
        for k, m in bad:
            print("ORACLE FAILS:", k, m[:700])
        return 1 if bad else 0
    if rp.get("kind") == "fdhist":
        from harness import c13_seq

        return c13_seq.replay_fdhist(rp["case"])
    if rp.get("kind") == "chainmix":
        from harness import c13_seq

        return c13_seq.replay_chainmix(rp["case"])
    print(json.dumps(rp, indent=1)[:3000])
    return 1
