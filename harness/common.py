"""Shared machinery of the /verif checks.

- deterministic PRNG derived from VERIF_SEED
- exact-rational helpers (float <-> Fraction <-> "p/q")
- Lean side: incremental `lake build` of a property's theorems, `#print axioms` audit,
  forbidden-token grep, line-protocol driver runner
- verdict logic (DESIGN.md section 3), known-findings filter, replay files, evidence writer
"""

from __future__ import annotations

import contextlib
import fcntl
import hashlib
import json
import math
import os
import random
import re
import subprocess
import sys
import time
import traceback
from dataclasses import dataclass
from dataclasses import field
from fractions import Fraction
from pathlib import Path
from typing import Any
from typing import Callable
from typing import Iterable
from typing import Sequence

VERIF = Path(__file__).resolve().parent.parent
LEAN_DIR = VERIF / "lean"
EVIDENCE_DIR = VERIF / "evidence"
REPLAY_DIR = VERIF / "replays"
CORPUS_DIR = VERIF / "corpus"
KNOWN_FINDINGS = VERIF / "known_findings.json"
REPO = Path(os.environ.get("GEMSEO_REPO", "/repo"))

ALLOWED_AXIOMS = {"propext", "Classical.choice", "Quot.sound"}
FORBIDDEN = re.compile(
    r"\bsorry\b|\badmit\b|^\s*axiom\s|native_decide|bv_decide|implemented_by|\bunsafe\s|maxHeartbeats\s+0"
)

# --------------------------------------------------------------------------- rationals


def F(x: Any) -> Fraction:
    """Exact rational value of an int/float/Fraction/numpy scalar (floats are dyadic rationals)."""
    if isinstance(x, Fraction):
        return x
    if isinstance(x, bool):
        return Fraction(int(x))
    if isinstance(x, int):
        return Fraction(x)
    x = float(x)
    if math.isnan(x) or math.isinf(x):
        raise ValueError(f"not finite: {x}")
    return Fraction(*x.as_integer_ratio())


def rat(x: Any) -> str:
    """Canonical `p/q` (or `p`) string of an exact value."""
    f = F(x)
    return str(f.numerator) if f.denominator == 1 else f"{f.numerator}/{f.denominator}"


def rats(xs: Iterable[Any]) -> str:
    xs = list(xs)
    return ",".join(rat(x) for x in xs) if xs else "[]"


def orat(x: Any) -> str:
    """Optional rational: None/inf/nan -> `_`."""
    if x is None:
        return "_"
    if isinstance(x, float) and (math.isinf(x) or math.isnan(x)):
        return "_"
    return rat(x)


def parse_rat(s: str) -> Fraction:
    return Fraction(s)


def is_finite_num(x: Any) -> bool:
    try:
        return math.isfinite(float(x))
    except (TypeError, ValueError):
        return False


# --------------------------------------------------------------------------- PRNG


class Rng(random.Random):
    """All random choices of a run derive from one seed."""

    def dyadic(self, lo: int = -8, hi: int = 8, den_pow: int = 3) -> Fraction:
        d = 2**den_pow
        return Fraction(self.randint(lo * d, hi * d), d)

    def small_int(self, lo: int = -4, hi: int = 4) -> int:
        return self.randint(lo, hi)

    def chance(self, p: float) -> bool:
        return self.random() < p

    def pick(self, seq: Sequence[Any]) -> Any:
        return seq[self.randrange(len(seq))]

    def subset(self, seq: Sequence[Any], p: float = 0.5) -> list[Any]:
        return [s for s in seq if self.random() < p]


def make_rng(seed: int, salt: str = "") -> Rng:
    h = hashlib.sha256(f"{seed}:{salt}".encode()).digest()
    return Rng(int.from_bytes(h[:8], "big"))


# --------------------------------------------------------------------------- Lean side


@contextlib.contextmanager
def lake_lock():
    """Serialise lake invocations (several checks may run concurrently)."""
    lock = LEAN_DIR / ".lake.lock"
    with open(lock, "w") as fh:
        fcntl.flock(fh, fcntl.LOCK_EX)
        try:
            yield
        finally:
            fcntl.flock(fh, fcntl.LOCK_UN)


def _run(cmd: list[str], cwd: Path, inp: str | None = None, timeout: int = 3600):
    return subprocess.run(
        cmd, cwd=cwd, input=inp, capture_output=True, text=True, timeout=timeout
    )


_THEOREM_RE = re.compile(r"^(?:private\s+)?theorem\s+([A-Za-z_][\w.']*)", re.M)
_NAMESPACE_RE = re.compile(r"^namespace\s+(\S+)", re.M)


def strip_lean_comments(src: str) -> str:
    """Remove /- -/ (nested) and -- comments."""
    out = []
    i, depth, n = 0, 0, len(src)
    while i < n:
        if src.startswith("/-", i):
            depth += 1
            i += 2
        elif depth and src.startswith("-/", i):
            depth -= 1
            i += 2
        elif depth:
            if src[i] == "\n":
                out.append("\n")
            i += 1
        elif src.startswith("--", i):
            while i < n and src[i] != "\n":
                i += 1
        else:
            out.append(src[i])
            i += 1
    return "".join(out)


def lean_files_for(pid: str) -> list[Path]:
    """Source files the property's theorems depend on: transitive `import GemseoVerif.*` closure of
    Props/<pid>.lean (for the forbidden-token grep; other properties' files are not our business)."""
    seen: dict[str, Path] = {}
    todo = [f"GemseoVerif.Props.{pid}"]
    while todo:
        mod = todo.pop()
        if mod in seen:
            continue
        path = LEAN_DIR / (mod.replace(".", "/") + ".lean")
        if not path.exists():
            continue
        seen[mod] = path
        for m in re.finditer(r"^import\s+(GemseoVerif\.\S+)", path.read_text(), re.M):
            todo.append(m.group(1))
    return sorted(seen.values())


def property_theorems(pid: str) -> list[str]:
    """Fully qualified names of the (public) theorems stated in Props/<pid>.lean."""
    src = strip_lean_comments((LEAN_DIR / "GemseoVerif" / "Props" / f"{pid}.lean").read_text())
    names = []
    # track namespaces linearly (no nesting tricks in our files)
    ns_stack: list[str] = []
    for line in src.splitlines():
        m = re.match(r"^namespace\s+(\S+)", line)
        if m:
            ns_stack.append(m.group(1))
            continue
        m = re.match(r"^end\s+(\S+)", line)
        if m and ns_stack and ns_stack[-1] == m.group(1):
            ns_stack.pop()
            continue
        m = re.match(r"^theorem\s+([A-Za-z_][\w.']*)", line)
        if m:
            names.append(".".join([*ns_stack, m.group(1)]))
    return names


@dataclass
class LeanAudit:
    ok: bool
    obligations: int
    discharged: int
    theorems: list[str]
    axioms: dict[str, list[str]]
    problems: list[str]
    build_s: float
    checker_cmd: str


def lean_build_and_audit(pid: str, thorough: bool = False) -> LeanAudit:
    """Build Props/<pid> (incrementally), audit axioms of every theorem, grep forbidden tokens."""
    t0 = time.time()
    problems: list[str] = []
    module = f"GemseoVerif.Props.{pid}"
    driver = LEAN_DIR / "Driver" / f"{pid}.lean"
    theorems = property_theorems(pid)
    audit_file = LEAN_DIR / "Audit" / f"{pid}.lean"
    audit_file.parent.mkdir(exist_ok=True)
    audit_file.write_text(
        f"import {module}\n" + "".join(f"#print axioms {t}\n" for t in theorems)
    )
    checker_cmd = f"cd lean && lake build {module} && lake env lean Audit/{pid}.lean"
    axioms: dict[str, list[str]] = {}
    with lake_lock():
        targets = [module]
        model = LEAN_DIR / "GemseoVerif" / "Model" / f"{pid}.lean"
        if model.exists():
            targets.append(f"GemseoVerif.Model.{pid}")
        r = _run(["lake", "build", *targets], LEAN_DIR)
        if r.returncode != 0:
            problems.append("lake build failed:\n" + (r.stdout + r.stderr)[-4000:])
        else:
            a = _run(["lake", "env", "lean", str(audit_file.relative_to(LEAN_DIR))], LEAN_DIR)
            if a.returncode != 0:
                problems.append("axiom audit failed:\n" + (a.stdout + a.stderr)[-4000:])
            axioms = parse_print_axioms(a.stdout)
            if thorough:
                c = _run(["lake", "env", "leanchecker", module], LEAN_DIR, timeout=7200)
                checker_cmd += f" && lake env leanchecker {module}"
                if c.returncode != 0:
                    problems.append("leanchecker failed:\n" + (c.stdout + c.stderr)[-2000:])
    discharged = 0
    for t in theorems:
        ax = axioms.get(t)
        if ax is None:
            problems.append(f"no axiom report for theorem {t}")
        elif set(ax) - ALLOWED_AXIOMS:
            problems.append(f"theorem {t} depends on non-standard axioms {sorted(set(ax) - ALLOWED_AXIOMS)}")
        else:
            discharged += 1
    for f in lean_files_for(pid):
        code = strip_lean_comments(f.read_text())
        for ln, line in enumerate(code.splitlines(), 1):
            if FORBIDDEN.search(line):
                problems.append(f"forbidden token in {f.relative_to(LEAN_DIR)}:{ln}: {line.strip()}")
    if not theorems:
        problems.append("no theorems found")
    return LeanAudit(
        ok=not problems,
        obligations=len(theorems),
        discharged=discharged,
        theorems=theorems,
        axioms=axioms,
        problems=problems,
        build_s=time.time() - t0,
        checker_cmd=checker_cmd,
    )


def parse_print_axioms(out: str) -> dict[str, list[str]]:
    res: dict[str, list[str]] = {}
    # "'name' depends on axioms: [a, b]" (possibly multi-line) or "'name' does not depend on any axioms"
    text = out.replace("\n", " ")
    for m in re.finditer(r"'(\S+?)' depends on axioms: \[([^\]]*)\]", text):
        res[m.group(1)] = [a.strip() for a in m.group(2).split(",") if a.strip()]
    for m in re.finditer(r"'(\S+?)' does not depend on any axioms", text):
        res[m.group(1)] = []
    return res


def run_lean_driver(pid: str, lines: Sequence[str], timeout: int = 3600) -> list[str]:
    """Pipe protocol lines to Driver/<pid>.lean, return one answer per line."""
    if not lines:
        return []
    for ln in lines:
        if "\n" in ln:
            raise ValueError("protocol line contains a newline")
    inp = "\n".join(lines) + "\n"
    with lake_lock():
        # make sure the model is built (no-op when up to date)
        b = _run(["lake", "build", f"GemseoVerif.Model.{pid}"], LEAN_DIR)
    if b.returncode != 0:
        raise RuntimeError("model build failed:\n" + (b.stdout + b.stderr)[-3000:])
    r = _run(["lake", "env", "lean", "--run", f"Driver/{pid}.lean"], LEAN_DIR, inp, timeout)
    if r.returncode != 0:
        raise RuntimeError("lean driver failed:\n" + (r.stdout + r.stderr)[-3000:])
    out = r.stdout.splitlines()
    if len(out) != len(lines):
        raise RuntimeError(f"lean driver returned {len(out)} answers for {len(lines)} lines\n{r.stderr[-2000:]}")
    return out


# --------------------------------------------------------------------------- verdicts


@dataclass
class Violation:
    """One failing case.

    kind: 'oracle' (the real code breaks the property on this input),
          'correspondence' (model and code disagree, no failing input found),
          'proof' (a proof obligation no longer checks, no failing input found).
    key:  stable classification string matched against known_findings.json.
    """

    kind: str
    key: str
    what: str
    replay: dict[str, Any]


@dataclass
class Result:
    pid: str
    evaluations: int = 0
    nontrivial_keys: set = field(default_factory=set)
    rule: str = ""
    samples: list[Any] = field(default_factory=list)
    histogram: dict[str, int] = field(default_factory=dict)
    violations: list[Violation] = field(default_factory=list)
    traces_validated: int = 0
    disagreements: int = 0
    notes: list[str] = field(default_factory=list)
    assumptions: list[str] = field(default_factory=list)
    exhaustive: bool = False
    extra: dict[str, Any] = field(default_factory=dict)

    def count(self, key: str, n: int = 1) -> None:
        self.histogram[key] = self.histogram.get(key, 0) + n

    def nontrivial(self, case_key: Any) -> None:
        self.nontrivial_keys.add(
            case_key if isinstance(case_key, (str, int, tuple)) else json.dumps(case_key, sort_keys=True, default=str)
        )

    def sample(self, s: Any, cap: int = 5) -> None:
        if len(self.samples) < cap:
            self.samples.append(s)

    def violate(self, kind: str, key: str, what: str, replay: dict[str, Any]) -> None:
        # keep one violation per key (the first, which the harness shrinks before reporting)
        if any(v.key == key and v.kind == kind for v in self.violations):
            return
        self.violations.append(Violation(kind, key, what, replay))


def load_known_findings() -> list[dict[str, Any]]:
    if KNOWN_FINDINGS.exists():
        return json.loads(KNOWN_FINDINGS.read_text()).get("findings", [])
    return []


def match_known(pid: str, v: Violation, findings: list[dict[str, Any]]) -> dict[str, Any] | None:
    """A violation is a known finding only if an entry with status 'known' names exactly its key."""
    for f in findings:
        if f.get("property") == pid and f.get("status") == "known" and f.get("key") == v.key:
            return f
    return None


def write_replay(pid: str, v: Violation, seed: int, idx: int) -> Path:
    REPLAY_DIR.mkdir(exist_ok=True)
    p = REPLAY_DIR / f"{pid}-{v.kind}-{idx}-seed{seed}.json"
    p.write_text(
        json.dumps(
            {"property": pid, "kind": v.kind, "key": v.key, "what": v.what, "seed": seed, "replay": v.replay},
            indent=1,
            default=str,
        )
    )
    return p


TRUSTED_BASE = [
    "Lean 4.33 kernel; axioms propext, Classical.choice, Quot.sound only (audited with #print axioms on every run)",
    "Mathlib v4.33 modules imported by the proof files",
    "hand-written Lean model tied to /repo by the correspondence check of this run (Python harness + Lean driver, not kernel-checked)",
    "CPython, NumPy elementwise IEEE arithmetic on exactly representable (dyadic) inputs",
]


def finish(
    res: Result,
    audit: LeanAudit | None,
    tier: str,
    seed: int,
    t0: float,
    level: str = "proof",
    trusted_extra: Sequence[str] = (),
) -> int:
    """Apply the verdict logic, print VIOLATION / KNOWN-FINDING lines, write evidence, return exit code."""
    pid = res.pid
    findings = load_known_findings()
    if audit is not None and not audit.ok:
        res.violate(
            "proof",
            "proof-obligation",
            "a proof obligation of the property no longer checks: " + "; ".join(p.splitlines()[0] for p in audit.problems),
            {"problems": audit.problems, "theorems": audit.theorems, "note": "no failing input found by the search of this run"},
        )
    exit_code = 0
    n_viol = 0
    known_lines = []
    # oracle violations first: they carry a failing input
    ordered = sorted(res.violations, key=lambda v: 0 if v.kind == "oracle" else 1)
    have_oracle = any(v.kind == "oracle" and match_known(pid, v, findings) is None for v in ordered)
    for i, v in enumerate(ordered):
        k = match_known(pid, v, findings) if v.kind == "oracle" else None
        if k is not None:
            known_lines.append(f"KNOWN-FINDING: property={pid} {k.get('what', v.what)}")
            continue
        if v.kind != "oracle" and have_oracle:
            # a concrete failing input is already reported; the broken correspondence is its symptom
            res.notes.append(f"{v.kind} disagreement subsumed by oracle violation: {v.what}")
            continue
        path = write_replay(pid, v, seed, i)
        suffix = "" if v.kind == "oracle" else " no-failing-input-found"
        print(f"VIOLATION property={pid} replay={path}{suffix}")
        print(f"  ({v.kind}) {v.what}"[:600])
        n_viol += 1
        exit_code = 1
    for line in dict.fromkeys(known_lines):
        print(line)
    cov: dict[str, Any] = {
        "evaluations": res.evaluations,
        "distinct_nontrivial": len(res.nontrivial_keys),
        "rule": res.rule,
        "samples": res.samples or ["(no case generated)"],
        "traces_validated_against_impl": res.traces_validated,
        "disagreements_checked": res.disagreements,
        "input_distribution": dict(sorted(res.histogram.items())),
        "exhaustive": res.exhaustive,
    }
    if audit is not None:
        cov.update(
            {
                "obligations": audit.obligations,
                "discharged": audit.discharged,
                "checker_cmd": audit.checker_cmd,
                "trusted_base": TRUSTED_BASE + list(trusted_extra),
                "theorems": audit.theorems,
                "axioms_used": sorted({a for ax in audit.axioms.values() for a in ax}),
                "lean_build_s": round(audit.build_s, 2),
            }
        )
    cov.update(res.extra)
    if res.notes:
        cov["notes"] = res.notes
    ev = {
        "property_id": pid,
        "tier": tier,
        "seed": seed,
        "level": level,
        "coverage": cov,
        "assumptions": res.assumptions,
        "wall_s": round(time.time() - t0, 2),
        "violations": n_viol,
        "known_findings_reported": len(set(known_lines)),
    }
    EVIDENCE_DIR.mkdir(exist_ok=True)
    # a debugging run without the Lean build/audit (--no-lean) must never replace the real evidence
    target = EVIDENCE_DIR / f"{pid}.json" if audit is not None else EVIDENCE_DIR / f"{pid}.nolean.json"
    target.write_text(json.dumps(ev, indent=1, default=str) + "\n")
    print(
        f"[{pid}] tier={tier} seed={seed} evaluations={res.evaluations} distinct_nontrivial={len(res.nontrivial_keys)} "
        f"obligations={audit.obligations if audit else 0} discharged={audit.discharged if audit else 0} "
        f"violations={n_viol} known={len(set(known_lines))} wall={ev['wall_s']}s"
    )
    return exit_code


# --------------------------------------------------------------------------- shrinking


def shrink_list(items: list[Any], fails: Callable[[list[Any]], bool], budget: int = 200) -> list[Any]:
    """Delta debugging on a list: smallest sub-list (order kept) on which `fails` still holds."""
    cur = list(items)
    n = 2
    calls = 0
    while len(cur) >= 2 and calls < budget:
        chunk = max(1, len(cur) // n)
        reduced = False
        for start in range(0, len(cur), chunk):
            cand = cur[:start] + cur[start + chunk :]
            calls += 1
            try:
                bad = bool(cand) and fails(cand)
            except Exception:  # noqa: BLE001
                bad = False
            if bad:
                cur = cand
                n = max(n - 1, 2)
                reduced = True
                break
            if calls >= budget:
                break
        if not reduced:
            if chunk == 1:
                break
            n = min(len(cur), n * 2)
    return cur


def exc_class(e: BaseException) -> str:
    """Map an exception to the small error enum of the line protocol."""
    for cls, tag in (
        (KeyError, "E:key"),
        (IndexError, "E:index"),
        (TypeError, "E:type"),
        (ValueError, "E:value"),
        (ZeroDivisionError, "E:zerodiv"),
        (AttributeError, "E:attr"),
        (NotImplementedError, "E:notimpl"),
        (RuntimeError, "E:runtime"),
    ):
        if isinstance(e, cls):
            return tag
    return "E:" + type(e).__name__


def short_tb(e: BaseException, limit: int = 6) -> str:
    return "".join(traceback.format_exception(type(e), e, e.__traceback__, limit=-limit))[-1500:]


def quiet_gemseo() -> None:
    import logging
    import warnings

    logging.disable(logging.CRITICAL)
    warnings.filterwarnings("ignore")
