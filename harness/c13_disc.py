"""Harness disciplines and functions for C13 (real module: GEMSEO's docstring inheritance needs
source access; forked worker processes inherit these objects and the gate registry)."""

from __future__ import annotations

import time
from typing import Any

from gemseo.core.discipline import Discipline
from numpy import array
from numpy import atleast_1d
from numpy import eye

from harness.c13_tasks import StopError

# Gates are looked up through a module-level registry so that the objects holding a gate stay
# picklable (the registry itself is inherited by forked workers).
REGISTRY: dict[int, Any] = {}
_next = [0]


def register(gate: Any) -> int:
    _next[0] += 1
    REGISTRY[_next[0]] = gate
    return _next[0]


def unregister(token: int) -> None:
    REGISTRY.pop(token, None)


def pass_gate(token: int | None, k: int) -> None:
    """Report that task `k` started and block until the harness releases it."""
    if token is None:
        return
    gate = REGISTRY.get(token)
    if gate is None:
        return
    gate.pass_through(k)


def body_done(token: int | None, k: int) -> None:
    """Report that the body of task `k` is over (never blocks)."""
    if token is None:
        return
    gate = REGISTRY.get(token)
    if gate is not None:
        gate.body_done(k)


def vec_key(x) -> tuple:
    return tuple(float(v) for v in atleast_1d(x))


class GatedAffine(Discipline):
    """`out = a * x + b` (elementwise) with Jacobian `a * I`; gated by a fixed key or by input.

    `inplace=c`: a discipline that works IN PLACE on its input array: `_run` first multiplies the array it is
    given by `c` (`x *= c`, the same array object), then returns `a * x + b` of the scaled array.  With
    `key_of` the key of a task is looked up from the value of the input *before* the scaling.
    The end of `_run` is reported through `body_done` (non-blocking) so that the harness can serialise the
    bodies of such tasks."""

    def __init__(self, name: str, a: float, b: float, out_name: str = "y", token: int | None = None,
                 key: int | None = None, key_of: dict[tuple, int] | None = None, fail_keys: tuple[int, ...] = (),
                 sleep_of: dict[int, float] | None = None, counter: Any = None, gate_on: str = "run",
                 stop_keys: tuple[int, ...] = (), inplace: float | None = None) -> None:
        super().__init__(name=name)
        self.io.input_grammar.update_from_names(["x"])
        self.io.output_grammar.update_from_names([out_name])
        self.io.input_grammar.defaults["x"] = array([0.0])
        self.a = a
        self.b = b
        self.out_name = out_name
        self.token = token
        self.key = key
        self.key_of = key_of
        self.fail_keys = tuple(fail_keys)
        self.sleep_of = sleep_of
        self.counter = counter
        self.gate_on = gate_on
        self.stop_keys = tuple(stop_keys)
        self.inplace = inplace

    def _key(self, x) -> int | None:
        if self.key is not None:
            return self.key
        if self.key_of is not None:
            return self.key_of.get(vec_key(x))
        return None

    def _run(self, input_data):
        x = input_data["x"]
        k = self._key(x)
        if self.counter is not None:
            with self.counter.get_lock():
                self.counter.value += 1
        try:
            if k is not None and self.gate_on == "run":
                self._gate(k)
            if self.inplace is not None:
                x *= self.inplace  # in place: the array object handed to the discipline is overwritten
            return {self.out_name: self.a * x + self.b}
        finally:
            if k is not None and self.gate_on == "run":
                body_done(self.token, k)

    def _gate(self, k: int) -> None:
        pass_gate(self.token, k)
        if self.sleep_of:
            time.sleep(self.sleep_of.get(k, 0.0))
        if k in self.stop_keys:
            raise StopError(k)
        if k in self.fail_keys:
            msg = f"task {k} fails"
            raise ValueError(msg)

    def _compute_jacobian(self, input_names=(), output_names=()):
        k = self._key(self.io.data["x"])
        try:
            if k is not None and self.gate_on == "jac":
                self._gate(k)
            n = self.io.data["x"].size
            self.jac = {self.out_name: {"x": self.a * eye(n)}}
        finally:
            if k is not None and self.gate_on == "jac":
                body_done(self.token, k)


class GatedFunction:
    """Picklable callable `x -> c0 + sum_i c_i x_i + q * x_0**2` (exact on dyadic inputs), gated by
    input value, optionally failing (ValueError) or sleeping per key."""

    def __init__(self, coeffs: list[float], c0: float, q: float = 0.0, token: int | None = None,
                 key_of: dict[tuple, int] | None = None, fail_keys: tuple[int, ...] = (),
                 sleep_of: dict[int, float] | None = None, as_array: bool = False) -> None:
        self.coeffs = list(coeffs)
        self.c0 = c0
        self.q = q
        self.token = token
        self.key_of = key_of
        self.fail_keys = tuple(fail_keys)
        self.sleep_of = sleep_of
        self.as_array = as_array

    def value(self, x) -> float:
        x = atleast_1d(x)
        return self.c0 + sum(c * float(v) for c, v in zip(self.coeffs, x)) + self.q * float(x[0]) ** 2

    def __call__(self, x):
        k = self.key_of.get(vec_key(x)) if self.key_of is not None else None
        if k is not None:
            pass_gate(self.token, k)
            if self.sleep_of:
                time.sleep(self.sleep_of.get(k, 0.0))
            if k in self.fail_keys:
                msg = f"sample {k} fails"
                raise ValueError(msg)
        v = self.value(x)
        return array([v]) if self.as_array else v

    def jac(self, x):
        x = atleast_1d(x)
        g = [float(c) for c in self.coeffs]
        g[0] += 2 * self.q * float(x[0])
        return array(g)


def cvec_key(x) -> tuple:
    return tuple((float(complex(v).real), float(complex(v).imag)) for v in atleast_1d(x))


class GatedVecFunction:
    """Picklable `x -> [c0_j + sum_i c_ji x_i + q_j x_0**2]_j` (real or complex x), gated by input."""

    def __init__(self, coef: list[list[float]], c0: list[float], q: list[float], token: int | None = None,
                 key_of: dict[tuple, int] | None = None) -> None:
        self.coef = [list(r) for r in coef]
        self.c0 = list(c0)
        self.q = list(q)
        self.token = token
        self.key_of = key_of

    def __call__(self, x):
        x = atleast_1d(x)
        k = self.key_of.get(cvec_key(x)) if self.key_of is not None else None
        if k is not None:
            pass_gate(self.token, k)
        return array([c0 + sum(c * v for c, v in zip(row, x)) + q * x[0] ** 2
                      for row, c0, q in zip(self.coef, self.c0, self.q)])


class GatedQuad(Discipline):
    """`y = a x**2 + b x + c` (scalar x) with Jacobian `2 a x + b`; two gates per task.

    Task `k` (the position of the input value in `key_of`) reports at gate `k` inside `_run` (before the
    outputs are returned, hence before they are cached) and at gate `n_tasks + k` inside
    `_compute_jacobian` (before the Jacobian is cached).  `fail_run` / `fail_jac`: tasks raising
    `ValueError` after the corresponding gate.  `n_runs` / `n_jacs`: shared counters of true computations.
    """

    def __init__(self, name: str, a: float, b: float, c: float, token: int | None = None,
                 key_of: dict[tuple, int] | None = None, n_tasks: int = 0, fail_run: tuple[int, ...] = (),
                 fail_jac: tuple[int, ...] = (), n_runs: Any = None, n_jacs: Any = None,
                 stages: tuple[str, ...] = ("E", "J")) -> None:
        super().__init__(name=name)
        self.io.input_grammar.update_from_names(["x"])
        self.io.output_grammar.update_from_names(["y"])
        self.io.input_grammar.defaults["x"] = array([0.0])
        self.a, self.b, self.c = a, b, c
        self.token = token
        self.key_of = key_of
        self.n_tasks = n_tasks
        self.fail_run = tuple(fail_run)
        self.fail_jac = tuple(fail_jac)
        self.n_runs = n_runs
        self.n_jacs = n_jacs
        self.stages = tuple(stages)

    @staticmethod
    def _bump(counter) -> None:
        if counter is not None:
            with counter.get_lock():
                counter.value += 1

    def _run(self, input_data):
        x = input_data["x"]
        self._bump(self.n_runs)
        k = self.key_of.get(vec_key(x)) if self.key_of is not None else None
        if k is not None:
            if "E" in self.stages:
                pass_gate(self.token, k)
            if k in self.fail_run:
                msg = f"task {k} fails in _run"
                raise ValueError(msg)
        return {"y": self.a * x * x + self.b * x + self.c}

    def _compute_jacobian(self, input_names=(), output_names=()):
        x = self.io.data["x"]
        self._bump(self.n_jacs)
        k = self.key_of.get(vec_key(x)) if self.key_of is not None else None
        if k is not None:
            if "J" in self.stages:
                pass_gate(self.token, self.n_tasks + k)
            if k in self.fail_jac:
                msg = f"task {k} fails in _compute_jacobian"
                raise ValueError(msg)
        self.jac = {"y": {"x": array([[2.0 * self.a * float(x[0]) + self.b]])}}


class ExecThenLin:
    """Task callable: execute the discipline, then linearize it, at the given input (picklable)."""

    def __init__(self, discipline: Discipline) -> None:
        self.discipline = discipline

    def __call__(self, inputs):
        status = self.discipline.execution_status
        if status.value == status.Status.FAILED:
            status.value = status.Status.DONE
        self.discipline.execute(inputs)
        return self.discipline.linearize(inputs)


class KwVecFunction:
    """Picklable `x, scale=1, shift=0 -> [scale * (c0_j + sum_i c_ji x_i + q_j sum_i (i+1) x_i**2) + shift]_j`
    (real or complex x): a function whose value, slope and curvature depend on keyword arguments that the
    gradient approximators pass through `f_gradient(x, **kwargs)` / `compute_optimal_step(x, **kwargs)`.
    Exact on small dyadic inputs.  `sleep`: an evaluation lasts 0, 1 or 2 times this long depending on its
    point (only biases the completion order)."""

    def __init__(self, coef: list[list[float]], c0: list[float], q: list[float], sleep: float = 0.0) -> None:
        self.coef = [list(r) for r in coef]
        self.c0 = list(c0)
        self.q = list(q)
        self.sleep = sleep

    def __call__(self, x, scale=1.0, shift=0.0):
        x = atleast_1d(x)
        if self.sleep:
            time.sleep(self.sleep * (int(abs(float(complex(x[0]).real)) * 64) % 3))
        return array([scale * (c0 + sum(c * v for c, v in zip(row, x)) + q * sum((i + 1) * v * v for i, v in enumerate(x))) + shift
                      for row, c0, q in zip(self.coef, self.c0, self.q)])


class MixAffine(Discipline):
    """`out_o = b_o + sum_i c_oi * in_i` (elementwise on vectors of one common size) for several inputs and
    several outputs; Jacobian blocks `c_oi * I`.  `style="requested"`: `_compute_jacobian` computes only the
    blocks it is asked for (like AnalyticDiscipline); `"full"`: all of them.  `sleep`: duration of `_run` /
    `_compute_jacobian` (only biases the completion order)."""

    def __init__(self, name: str, ins: list[str], outs: dict[str, tuple[dict[str, float], float]], size: int = 1,
                 style: str = "requested", sleep: float = 0.0, counter: Any = None) -> None:
        super().__init__(name=name)
        self.io.input_grammar.update_from_names(list(ins))
        self.io.output_grammar.update_from_names(list(outs))
        for i in ins:
            self.io.input_grammar.defaults[i] = array([0.0] * size)
        self.ins = list(ins)
        self.outs = {o: (dict(c), b) for o, (c, b) in outs.items()}
        self.size = size
        self.style = style
        self.sleep = sleep
        self.counter = counter

    def _run(self, input_data):
        if self.counter is not None:
            with self.counter.get_lock():
                self.counter.value += 1
        if self.sleep:
            time.sleep(self.sleep)
        return {o: b + sum(c.get(i, 0.0) * input_data[i] for i in self.ins) for o, (c, b) in self.outs.items()}

    def _compute_jacobian(self, input_names=(), output_names=()):
        if self.sleep:
            time.sleep(self.sleep)
        ins = [i for i in self.ins if self.style == "full" or not input_names or i in input_names]
        outs = [o for o in self.outs if self.style == "full" or not output_names or o in output_names]
        self.jac = {o: {i: self.outs[o][0].get(i, 0.0) * eye(self.size) for i in ins} for o in outs}
