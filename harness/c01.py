"""C01 — problem evaluations are faithful, memoized and recorded in physical space.

Correspondence: request histories (value/Jacobian, repeated points, Jacobian before value) on a
preprocessed OptimizationProblem with call-logging original callables are compared, after every
request, with the Lean model (Driver/C01.lean): returned value, whole database (ordered), call log.
Oracle: `Fraction` re-evaluation of the user's polynomial at the independently computed physical
point, database scan, call-log growth.
"""

from __future__ import annotations

import json
import math
from fractions import Fraction
from typing import Any

import numpy as np

from harness import common
from harness.common import F
from harness.common import Result
from harness.common import rat
from harness.common import rats
from harness.c02 import olist
from harness.c02 import round_half_even
from harness.c02 import to_np_bound
from harness.c02 import varspec

PID = "C01"
TRUSTED_EXTRA = (
    "C01: the original functions are integer-coefficient polynomials (degree <= 2) evaluated at dyadic points: float evaluation is exact",
    "C01: approximated derivatives (finite differences / complex step) are not modelled here (accuracy: C16); NaN propagation inside user functions is not modelled",
)

# --------------------------------------------------------------------------- case generation
# case = {"vars": [[name,is_int,lb,ub]...] (strings), "cfg": [norm,db,storejac,round],
#         "fns": {name: {"rows": [[c,[a],[q]]...], "linear": bool, "sparse": bool, "kind": "obj|cstr|obs"}},
#         "reqs": [[name, "val"|"jac", [x]]...]}


def gen_space(rng):
    vars_ = []
    names = rng.sample(["x", "yy", "z_1", "ab"], rng.pick([1, 2, 2, 3]))
    for n in names:
        is_int = rng.chance(0.3)
        size = rng.pick([1, 1, 2])
        lb, ub = [], []
        for _ in range(size):
            k = rng.random()
            l = Fraction(rng.randint(-4, 4)) if is_int else Fraction(rng.randint(-16, 16), 4)
            rg = rng.pick([1, 2, 4, 8]) if is_int else rng.pick([Fraction(1, 2), 1, 2, 4])
            if k < 0.12:
                lb.append(None), ub.append(l + rg)
            elif k < 0.24:
                lb.append(l), ub.append(None)
            elif k < 0.3:
                lb.append(None), ub.append(None)
            elif k < 0.42:
                lb.append(l), ub.append(l)  # equal bounds: inert normalized coordinate
            else:
                lb.append(l), ub.append(l + rg)
        vars_.append([n, is_int, olist(lb), olist(ub)])
    return vars_


def space_arrays(case):
    lb, ub, ints = [], [], []
    for n, is_int, l, u in case["vars"]:
        ls = [None if t == "_" else Fraction(t) for t in l.split(",")]
        us = [None if t == "_" else Fraction(t) for t in u.split(",")]
        lb += ls
        ub += us
        ints += [is_int] * len(ls)
    return lb, ub, ints


def gen_fn(rng, dim, linear):
    m = rng.pick([1, 1, 2, 3])
    rows = []
    for _ in range(m):
        c = rat(Fraction(rng.randint(-6, 6), 2))
        a = [rat(Fraction(rng.randint(-6, 6), 2)) if rng.chance(0.7) else "0" for _ in range(dim)]
        q = ["0"] * dim if linear else [str(rng.randint(-2, 2)) if rng.chance(0.5) else "0" for _ in range(dim)]
        rows.append([c, a, q])
    return rows


def gen_case(rng) -> dict[str, Any]:
    vars_ = gen_space(rng)
    case: dict[str, Any] = {"vars": vars_}
    lb, ub, ints = space_arrays(case)
    dim = len(lb)
    cfg = [rng.chance(0.55), rng.chance(0.85), rng.chance(0.7), rng.chance(0.6)]
    case["cfg"] = [int(b) for b in cfg]
    fns = {}
    for name, kind in (("f", "obj"), ("g", "cstr"), ("o", "obs")):
        linear = rng.chance(0.35)
        fns[name] = {"rows": gen_fn(rng, dim, linear), "linear": linear, "sparse": (not linear) and rng.chance(0.25), "kind": kind}
    case["fns"] = fns
    normalized, _, _, rnd = cfg
    has_int = any(ints)
    pts = []

    def gen_point():
        x = []
        for l, u, it in zip(lb, ub, ints):
            normalisable = (not it) and l is not None and u is not None
            if normalized and normalisable:
                x.append(Fraction(rng.randint(0, 8), 8))
            else:
                lo = l if l is not None else ((u - 4) if u is not None else Fraction(-2))
                hi = u if u is not None else lo + 4
                if it:
                    v = Fraction(rng.randint(math.ceil(lo), math.floor(hi)))
                    # off-grid integer components force rounding: only meaningful when rounding is requested
                    if rnd and normalized and rng.chance(0.4) and lo < hi:
                        v = min(max(v + rng.pick([Fraction(1, 4), Fraction(-1, 4), Fraction(3, 8)]), lo), hi)
                    x.append(v)
                else:
                    x.append(lo + (hi - lo) * Fraction(rng.randint(0, 8), 8))
        return x

    reqs = []
    for _ in range(rng.pick([1, 3, 6, 10, 16, 24])):
        if pts and rng.chance(0.4):
            x = rng.pick(pts)
        else:
            x = gen_point()
            pts.append(x)
        # entry point: the function itself, or EvaluationProblem.evaluate_functions with the design
        # vector given in normalized ("ef-norm") or physical ("ef-phys") coordinates
        reqs.append([rng.pick(["f", "f", "g", "o"]), rng.pick(["val", "val", "jac"]), [rat(t) for t in x],
                     rng.pick(["direct", "direct", "ef-norm", "ef-phys"])])
    case["reqs"] = reqs
    case["reuse_array"] = rng.chance(0.5)
    del has_int
    return case


def case_lines(case) -> list[str]:
    lines = ["ds " + " ".join(f"{n}:{'i' if it else 'f'}:{l}:{u}:_" for n, it, l, u in case["vars"])]
    lines.append("cfg " + " ".join(str(b) for b in case["cfg"]))
    for name, fn in case["fns"].items():
        lines.append(f"fn {name} " + "|".join(f"{c}:{','.join(map(str, a))}:{','.join(map(str, q))}" for c, a, q in fn["rows"]))
    for name, kind, x, *_ in case["reqs"]:
        lines.append(f"{kind} {name} {','.join(x)}")
    return lines


# --------------------------------------------------------------------------- implementation


class Logged:
    """The user's original callables, logging every call with the point it receives."""

    def __init__(self, name, rows, log, sparse):
        self.name, self.rows, self.log, self.sparse = name, rows, log, sparse
        self.c = np.array([float(Fraction(r[0])) for r in rows])
        self.a = np.array([[float(Fraction(t)) for t in r[1]] for r in rows])
        self.q = np.array([[float(Fraction(t)) for t in r[2]] for r in rows])

    def func(self, x):
        x = np.asarray(x, dtype=float)
        self.log.append((self.name, "v", [F(t) for t in x]))
        return self.c + self.a @ x + self.q @ (x * x)

    def jac(self, x):
        x = np.asarray(x, dtype=float)
        self.log.append((self.name, "j", [F(t) for t in x]))
        j = self.a + 2.0 * self.q * x
        if self.sparse:
            from scipy.sparse import csr_array

            return csr_array(j)
        return j


def build_problem(case):
    from gemseo.algos.design_space import DesignSpace
    from gemseo.algos.optimization_problem import OptimizationProblem
    from gemseo.core.mdo_functions.mdo_function import MDOFunction
    from gemseo.core.mdo_functions.mdo_linear_function import MDOLinearFunction

    ds = DesignSpace()
    for n, is_int, l, u in case["vars"]:
        lb = [None if t == "_" else Fraction(t) for t in l.split(",")]
        ub = [None if t == "_" else Fraction(t) for t in u.split(",")]
        ds.add_variable(n, size=len(lb), type_="integer" if is_int else "float",
                        lower_bound=to_np_bound(lb, True), upper_bound=to_np_bound(ub, False))
    pb = OptimizationProblem(ds)
    log: list = []
    for name, fn in case["fns"].items():
        lg = Logged(name, fn["rows"], log, fn["sparse"])
        if fn["linear"]:
            base = MDOLinearFunction(lg.a, name, value_at_zero=lg.c)
            # log the calls of the linear function as well (wrap its pointers)
            f0, j0 = base.func, base.jac

            def f_log(x, f0=f0, name=name):
                log.append((name, "v", [F(t) for t in np.asarray(x, dtype=float)]))
                return f0(x)

            def j_log(x, j0=j0, name=name):
                log.append((name, "j", [F(t) for t in np.asarray(x, dtype=float)]))
                return j0(x)

            mf = base
            mf_logged = (f_log, j_log)
        else:
            mf = MDOFunction(lg.func, name, jac=lg.jac)
            mf_logged = None
        if fn["kind"] == "obj":
            pb.objective = mf
        elif fn["kind"] == "cstr":
            pb.add_constraint(mf, constraint_type=MDOFunction.ConstraintType.INEQ)
        else:
            pb.add_observable(mf)
        fn["_logged"] = mf_logged
    norm, db, sj, rnd = (bool(b) for b in case["cfg"])
    pb.preprocess_functions(is_function_input_normalized=norm, use_database=db, round_ints=rnd, store_jacobian=sj)
    fmap = {"f": pb.objective, "g": pb.constraints[0], "o": pb.observables[0]}
    return pb, fmap, log


def fmt_mat(m) -> str:
    m = np.asarray(m.todense() if hasattr(m, "todense") else m, dtype=float)
    m = np.atleast_2d(m)
    return "|".join(",".join(rat(float(t)) for t in np.asarray(r).ravel()) for r in m) if m.size else "[]"


def dump_db(pb) -> str:
    ents = []
    for x, outs in pb.database.items():
        key = ",".join(rat(float(t)) for t in x.unwrap())
        parts = []
        for n, v in outs.items():
            if n.startswith("@"):
                parts.append(f"{n}={fmt_mat(v)}")
            else:
                parts.append(f"{n}=" + ",".join(rat(float(t)) for t in np.atleast_1d(v)))
        ents.append(key + ">" + ("&".join(parts) or "[]"))
    return ";".join(ents) or "[]"


def run_impl(case):
    """Return the list of answers (one per request) + raw observations for the oracle."""
    pb, fmap, log = build_problem(case)
    linear_fns = {n for n, fn in case["fns"].items() if fn["linear"]}
    answers, obs = [], []
    # callers commonly reuse ONE array object and update it in place between requests
    reuse = bool(case.get("reuse_array", False))
    buf = None
    lbs, ubs, ints_ = space_arrays(case)
    norm_cfg = bool(case["cfg"][0])
    for name, kind, x, *rest in case["reqs"]:
        via = rest[0] if rest else "direct"
        xa = np.array([float(Fraction(t)) for t in x])
        if via != "direct":
            # same request through evaluate_functions, coordinates converted exactly by the harness
            xs = [Fraction(t) for t in x]
            want_norm = via == "ef-norm"
            conv = []
            for xi, l, u, it in zip(xs, lbs, ubs, ints_):
                normalisable = (not it) and l is not None and u is not None
                if not normalisable or want_norm == norm_cfg:
                    conv.append(xi)
                elif norm_cfg:  # x is normalized, give the physical coordinate
                    conv.append(l + xi * (u - l))
                else:  # x is physical, give the normalized coordinate
                    conv.append((xi - l) / (u - l) if u != l else Fraction(0))
            if any(c.denominator & (c.denominator - 1) for c in conv):
                via = "direct"  # not dyadic: keep the exact stream
            else:
                xa = np.array([float(c) for c in conv])
        if reuse:
            if buf is None or buf.shape != xa.shape:
                buf = xa.copy()
            else:
                buf[...] = xa
            xa = buf
        x_before = xa.copy()
        n0 = len(log)
        try:
            if via != "direct":
                pb.check_bounds = False
                outs, jacs = pb.evaluate_functions(
                    design_vector=xa, design_vector_is_normalized=(via == "ef-norm"),
                    output_functions=[fmap[name]] if kind == "val" else None,
                    jacobian_functions=[fmap[name]] if kind == "jac" else None,
                )
                if kind == "val":
                    o = ",".join(rat(float(t)) for t in np.atleast_1d(outs[name]))
                else:
                    o = fmt_mat(jacs[name])
            elif kind == "val":
                out = fmap[name].evaluate(xa)
                o = ",".join(rat(float(t)) for t in np.atleast_1d(out))
            else:
                out = fmap[name].jac(xa)
                o = fmt_mat(out)
        except Exception as e:  # noqa: BLE001
            answers.append("X:" + common.exc_class(e))
            obs.append({"exc": common.short_tb(e)})
            break
        if not np.array_equal(xa, x_before):
            obs.append({"exc": f"the request {kind} {name} modified the caller's array in place: {x_before} -> {xa}"})
            answers.append("X:arg-mutated")
            break
        calls = ";".join(f"{n}:{k}:{rats(p)}" for n, k, p in log) or "[]"
        answers.append(f"out={o} db={dump_db(pb)} calls={calls}")
        obs.append({"out": o, "new_calls": log[n0:], "db": dump_db(pb), "n_calls_total": len(log)})
    return answers, obs, linear_fns


# --------------------------------------------------------------------------- oracle


def oracle(case, answers, obs, linear_fns) -> list[tuple[int, str, str]]:
    """Property clauses, from the property text, on the implementation's observations."""
    bad = []
    lb, ub, ints = space_arrays(case)
    norm, db, sj, rnd = (bool(b) for b in case["cfg"])
    has_int = any(ints)
    recorded: dict[tuple, str] = {}  # (phys point, name, kind) -> first answer
    db_keys: list[tuple] = []

    def phys(x):
        p = []
        for xi, l, u, it in zip(x, lb, ub, ints):
            if norm and (not it) and l is not None and u is not None:
                xi = l + xi * (u - l)
            if it and (norm or rnd):
                xi = round_half_even(xi)
            p.append(xi)
        return p

    def fval(name, p):
        return [Fraction(c) + sum(Fraction(ai) * pi for ai, pi in zip(a, p)) + sum(Fraction(qi) * pi * pi for qi, pi in zip(q, p))
                for c, a, q in case["fns"][name]["rows"]]

    def fjac(name, p):
        return [[Fraction(ai) + 2 * Fraction(qi) * pi for ai, qi, pi in zip(a, q, p)] for c, a, q in case["fns"][name]["rows"]]

    def scale(i):
        if norm and (not ints[i]) and lb[i] is not None and ub[i] is not None:
            return ub[i] - lb[i]
        return Fraction(1)

    for i, ((name, kind, x, *_), ans, ob) in enumerate(zip(case["reqs"], answers, obs)):
        if "exc" in ob:
            bad.append((i, "request-raises", f"request {kind} {name} at {x} raised: {ob['exc'][-300:]}"))
            break
        xs = [Fraction(t) for t in x]
        p = phys(xs)
        # faithful value / Jacobian in the caller's coordinates
        if kind == "val":
            want = ",".join(rat(t) for t in fval(name, p))
        else:
            want = "|".join(",".join(rat(t * scale(j)) for j, t in enumerate(row)) for row in fjac(name, p))
        if ob["out"] != want:
            bad.append((i, f"unfaithful-{kind}", f"{kind} of {name} at x={x} (physical {rats(p)}): returned {ob['out']}, expected {want}"))
        # calls of the original callables happen at the physical point only
        is_lin_norm = name in linear_fns and norm and not (rnd and has_int)
        for cn, ck, cp in ob["new_calls"]:
            if not is_lin_norm and (cn != name or cp != p):
                bad.append((i, "call-at-wrong-point", f"original {cn} called at {rats(cp)} for a request at physical point {rats(p)}"))
        if db:
            key = tuple(p)
            tag = (key, name, kind)
            stored_kind = kind == "val" or sj
            if tag in recorded:
                if ob["new_calls"]:
                    bad.append((i, "not-memoized", f"{kind} of {name} at recorded point {rats(p)} called the original function again"))
                if recorded[tag] != ob["out"]:
                    bad.append((i, "memo-differs", f"{kind} of {name} at recorded point {rats(p)}: {ob['out']} now, {recorded[tag]} the first time"))
            elif stored_kind:
                recorded[tag] = ob["out"]
            # database records, under the physical point, the value and the physical-space Jacobian
            entries = parse_db(ob["db"])
            keys = [k for k, _ in entries]
            if len(set(keys)) != len(keys):
                bad.append((i, "db-duplicate-key", f"database holds the same point twice: {ob['db']}"))
            if stored_kind:
                ent = dict(entries).get(rats(p))
                if ent is None:
                    bad.append((i, "db-missing-physical-point", f"after {kind} {name} the database has no entry under the physical point {rats(p)}: {ob['db']}"))
                else:
                    if kind == "val":
                        if ent.get(name) != want:
                            bad.append((i, "db-wrong-value", f"database[{rats(p)}][{name}] = {ent.get(name)}, expected {want}"))
                    else:
                        wj = "|".join(
                            ",".join(rat(Fraction(0) if (scale(j) == 0) else t) for j, t in enumerate(row)) for row in fjac(name, p)
                        )
                        if ent.get("@" + name) != wj:
                            bad.append((i, "db-wrong-jacobian", f"database[{rats(p)}][@{name}] = {ent.get('@' + name)}, expected the physical-space Jacobian {wj}"))
            # order of keys = order of first recording
            for k in keys:
                if k not in db_keys:
                    db_keys.append(k)
            if keys != db_keys[: len(keys)] or len(keys) != len(db_keys):
                bad.append((i, "db-order", f"database keys {keys} are not in first-recording order {db_keys}"))
        else:
            if ob["db"] != "[]":
                bad.append((i, "db-used-when-off", f"database is not empty although it is switched off: {ob['db']}"))
        if bad:
            break
    return bad


def parse_db(s: str):
    if s == "[]":
        return []
    out = []
    for ent in s.split(";"):
        k, rest = ent.split(">")
        d = {}
        if rest != "[]":
            for part in rest.split("&"):
                n, v = part.split("=")
                d[n] = v
        out.append((k, d))
    return out


def in_scope(case) -> bool:
    """Requests inside the property's quantifier: integer components are on-grid unless rounding
    is requested in normalized mode (the only configuration where the property fixes their physical point)."""
    lb, ub, ints = space_arrays(case)
    norm, _, _, rnd = (bool(b) for b in case["cfg"])
    for _, _, x, *_r in case["reqs"]:
        if len(x) != len(lb):
            return False
        for t, it in zip(x, ints):
            if it and Fraction(t).denominator != 1 and not (norm and rnd):
                return False
    return True


def filter_calls(ans: str, drop: set) -> str:
    """Calls of MDOLinearFunction objects cannot be logged by the harness: drop them on both sides."""
    if " calls=" not in ans:
        return ans
    head, calls = ans.rsplit(" calls=", 1)
    if calls == "[]":
        return ans
    kept = [c for c in calls.split(";") if c.split(":")[0] not in drop]
    return head + " calls=" + (";".join(kept) or "[]")


# --------------------------------------------------------------------------- run


def check_case(res: Result, case, model_answers, in_scope=True):
    answers, obs, linear_fns = run_impl(case)
    res.evaluations += 1
    res.count("cfg=" + "".join(str(b) for b in case["cfg"]))
    res.count(f"reqs<={(len(case['reqs']) // 8 + 1) * 8}")
    res.count("caller-reuses-array" if case.get("reuse_array") else "fresh-arrays")
    for r in case["reqs"]:
        res.count("via:" + (r[3] if len(r) > 3 else "direct"))
    for fn in case["fns"].values():
        res.count("fn:" + ("linear" if fn["linear"] else "sparse" if fn["sparse"] else "dense"))
    if len(case["reqs"]) >= 3:
        res.nontrivial(json.dumps([case["vars"], case["cfg"], case["reqs"]]))
    bad = oracle(case, answers, obs, linear_fns)
    for i, key, msg in bad:
        small = shrink_case(case, key, i)
        res.violate("oracle", key, msg, {"case": strip(small)})
    for i, (a, m) in enumerate(zip(answers, model_answers)):
        if filter_calls(a, linear_fns) != filter_calls(m, linear_fns):
            res.disagreements += 1
            if not bad:
                found = None
                for nb in neighbours(case, i):
                    if not in_scope(nb):
                        continue
                    a2, o2, l2 = run_impl(nb)
                    b2 = oracle(nb, a2, o2, l2)
                    if b2:
                        found = (nb, b2[0])
                        break
                if found:
                    res.violate("oracle", found[1][1], found[1][2], {"case": strip(found[0])})
                else:
                    res.violate("correspondence", "model-vs-impl",
                                f"implementation and Lean model disagree at request {i} ({case['reqs'][i][1]} {case['reqs'][i][0]})",
                                {"case": strip(case), "request_index": i, "impl": a, "model": m, "correspondence": "Driver/C01.lean"})
            break
    else:
        res.traces_validated += 1
    res.sample({"lines": case_lines(case)[:8], "last_answer": answers[-1][:300] if answers else None}, cap=3)


def strip(case):
    c = json.loads(json.dumps({k: v for k, v in case.items() if k != "fns"}))
    c["fns"] = {n: {k: v for k, v in fn.items() if not k.startswith("_")} for n, fn in case["fns"].items()}
    return c


def neighbours(case, i):
    reqs = case["reqs"]
    for j in range(min(i + 1, len(reqs))):
        c = strip(case)
        c["reqs"] = reqs[:j] + reqs[j + 1 : i + 1]
        if c["reqs"]:
            yield c
    for b in (1, 2):
        c = strip(case)
        c["cfg"][b] = 1 - c["cfg"][b]
        yield c


def shrink_case(case, key, upto):
    base = strip(case)
    reqs = base["reqs"][: upto + 1]

    def fails(sub):
        c = dict(base)
        c["reqs"] = sub
        if not in_scope(c):
            return False
        a, o, l = run_impl(json.loads(json.dumps(c)))
        return any(k == key for _, k, _ in oracle(c, a, o, l))

    base["reqs"] = common.shrink_list(reqs, fails, budget=40)
    return base


def batch_model(cases):
    flat, spans = [], []
    for c in cases:
        ls = case_lines(c)
        n_hdr = len(ls) - len(c["reqs"])
        spans.append((len(flat) + n_hdr, len(c["reqs"])))
        flat.extend(ls)
    out = common.run_lean_driver(PID, flat)
    return [out[s : s + n] for s, n in spans]


def load_corpus():
    d = common.CORPUS_DIR / PID
    return [json.loads(p.read_text())["case"] for p in sorted(d.glob("*.json"))] if d.is_dir() else []


def run(ctx) -> Result:
    res = Result(PID)
    res.rule = (
        "random design spaces (float/int, finite/infinite/equal bounds, sizes 1-2) x all preprocessing switches "
        "(normalized, database, store_jacobian, round_ints) x objective/constraint/observable polynomial functions "
        "(dense, sparse-Jacobian, MDOLinearFunction) x request histories (value/Jacobian interleaved, >=40% repeated points, "
        "Jacobian before value, off-grid integers when rounding); compared after every request; non-trivial = >= 3 requests"
    )
    res.assumptions = [
        "integer components are given on-grid unless rounding is requested in normalized mode (the property does not define the physical point of an off-grid integer without rounding)",
        "approximated derivatives are outside this check (C16)",
    ]
    rng = ctx.rng
    n = 40000 if ctx.thorough else 1500
    cases = load_corpus() + [gen_case(rng) for _ in range(n)]
    models = batch_model(cases)
    for c, m in zip(cases, models):
        check_case(res, c, m)
    return res


def replay(path: str) -> int:
    data = json.loads(open(path).read())
    case = data["replay"]["case"]
    answers, obs, lin = run_impl(json.loads(json.dumps(case)))
    model = batch_model([case])[0]
    for r, a, m in zip(case["reqs"], answers, model):
        print(">", r)
        print("  impl :", a)
        print("  model:", m)
    bad = oracle(case, answers, obs, lin)
    for i, k, msg in bad:
        print("ORACLE FAILS at request", i, k, msg)
    return 1 if bad else 0
