"""C01 — problem evaluations are faithful, memoized and recorded in physical space.

Correspondence: the design space is built through a history of public edits (harness/c01_space.py),
then request histories (value/Jacobian, repeated points, Jacobian before value, several entry
points) on a preprocessed OptimizationProblem with call-logging original callables are compared,
after every request, with the Lean model (Driver/C01.lean): returned value, whole database
(ordered), call log.
Oracle: `Fraction` re-evaluation of the user's polynomial at the independently computed physical
point (bounds/types/normalization policy from the reference semantics of the edits), database scan,
call-log growth.
"""

from __future__ import annotations

import json
import math
from fractions import Fraction
from typing import Any

import numpy as np

from harness import common
from harness.common import F
from harness.common import Result
from harness.common import rat
from harness.common import rats
from harness.c01_space import MUTATING
from harness.c01_space import SPARSE_FORMATS
from harness.c01_space import EditRejected
from harness.c01_space import build_space
from harness.c01_space import gen_hist
from harness.c01_space import hist_of_vars
from harness.c01_space import model_lines
from harness.c01_space import shadow_of
from harness.c01_space import to_container
from harness.c02 import Shadow
from harness.c02 import apply_shadow
from harness.c02 import round_half_even
from harness.c02 import valid_line

PID = "C01"
TRUSTED_EXTRA = (
    "C01: the original functions are integer-coefficient polynomials (degree <= 2) evaluated at dyadic points: float evaluation is exact",
    "C01: every finite range ub-lb of a generated design space is 0 or a power of two (also after the bound edits), so scaling by the range and by its inverse is exact",
    "C01: approximated derivatives (finite differences / complex step) are not modelled here (accuracy: C16); NaN propagation inside user functions is not modelled",
)

# --------------------------------------------------------------------------- case generation
# case = {"hist": [C02 edit lines + "problem" marker + query lines]   (legacy: "vars": [[name,is_int,lb,ub]...]),
#         "cfg": [norm,db,storejac,round,support_sparse_jacobian],
#         "fns": {name: {"rows": [[c,[a],[q]]...], "linear": bool, "sparse": False|<scipy class name>, "flat": bool,
#                        "kind": "obj|cstr|obs"}},
#         "reqs": [[name, "val"|"jac", [x], via]...], "reuse_array": bool}

INT_OFFSETS = [Fraction(s * k, 8) for k in range(1, 8) for s in (1, -1)]


def num(t) -> str:
    """Canonical string of an implementation number; non-finite values never equal an expected value."""
    t = float(np.real(t))
    return rat(t) if math.isfinite(t) else repr(t)


def pfrac(x) -> list:
    return [F(float(t)) if math.isfinite(float(t)) else float(t) for t in x]


def prats(p) -> str:
    return ",".join(rat(t) if isinstance(t, Fraction) else repr(t) for t in p) or "[]"


def case_hist(case) -> list[str]:
    return case["hist"] if "hist" in case else hist_of_vars(case["vars"])


def case_cfg(case) -> list[bool]:
    c = [bool(b) for b in case["cfg"]]
    return c + [False] * (5 - len(c))


def space_info(case):
    """(lb, ub, integer mask, normalisable mask, shadow) of the design space the edits lead to."""
    sh = shadow_of(case_hist(case))
    return sh.flat("lb"), sh.flat("ub"), sh.int_mask(), sh.norm_mask(), sh


def gen_fn(rng, dim, linear):
    m = rng.pick([1, 1, 2, 3, 4])
    rows = []
    for _ in range(m):
        c = rat(Fraction(rng.randint(-6, 6), 2))
        a = [rat(Fraction(rng.randint(-6, 6), 2)) if rng.chance(0.7) else "0" for _ in range(dim)]
        q = ["0"] * dim if linear else [str(rng.randint(-2, 2)) if rng.chance(0.5) else "0" for _ in range(dim)]
        rows.append([c, a, q])
    return rows


def caller_coords(xs, lb, ub, mask, norm):
    """Caller coordinates (normalized on the normalisable components when `norm`) of a physical point."""
    out = []
    for xi, l, u, nm in zip(xs, lb, ub, mask):
        if norm and nm:
            out.append((xi - l) / (u - l) if u != l else Fraction(0))
        else:
            out.append(xi)
    return out


def off_grid(xs, ints) -> bool:
    """An integer component of the (physical-coordinates) point is not an integer."""
    return any(it and Fraction(t).denominator != 1 for t, it in zip(xs, ints))


def dyadic(xs) -> bool:
    return not any(c.denominator & (c.denominator - 1) for c in xs)


def gen_case(rng) -> dict[str, Any]:
    hist, tags = gen_hist(rng)
    case: dict[str, Any] = {"hist": hist, "tags": tags}
    lb, ub, ints, mask, sh = space_info(case)
    dim = len(lb)
    cfg = [rng.chance(0.6), rng.chance(0.85), rng.chance(0.7), rng.chance(0.6), rng.chance(0.2)]
    case["cfg"] = [int(b) for b in cfg]
    fns = {}
    # function roles: objective, inequality constraint, observable (evaluated at every new iteration), and optionally an
    # equality constraint and an observable outside the new-iteration list; in "twin" cases the SAME user polynomial is
    # attached in every role (own callables, own Jacobian container), so that a role treated differently shows at once
    roles = [("f", "obj"), ("g", "cstr"), ("o", "obs")]
    if rng.chance(0.5):
        roles.append(("h", "cstr-eq"))
    if rng.chance(0.5):
        roles.append(("w", "obs-noiter"))
    twin = rng.chance(0.4)
    if twin:
        case["tags"] = [*tags, "roles:same-user-function-in-every-role"]
    shared = None
    for name, kind in roles:
        if twin and shared is not None:
            linear, rows = shared
            rows = json.loads(json.dumps(rows))
        else:
            linear = rng.chance(0.35)
            rows = gen_fn(rng, dim, linear)
            shared = (linear, rows)
        sparse = rng.pick(SPARSE_FORMATS) if rng.chance(0.45) else False
        flat = len(rows) == 1 and not sparse and rng.chance(0.5)
        fns[name] = {"rows": rows, "linear": linear, "sparse": sparse, "flat": flat, "kind": kind}
    case["fns"] = fns
    normalized, _, _, rnd, _ = cfg
    pts = []

    def gen_point():
        x = []
        for l, u, it, nm in zip(lb, ub, ints, mask):
            if normalized and nm:
                if not it:
                    x.append(Fraction(rng.randint(0, 8), 8))
                elif rnd:
                    # normalized integer component (integer normalization enabled): any dyadic coordinate
                    x.append(Fraction(rng.randint(0, 16), 16))
                else:
                    rg = u - l
                    x.append(Fraction(rng.randint(0, int(rg)), int(rg)) if rg > 0 else Fraction(rng.randint(0, 8), 8))
            else:
                lo = l if l is not None else ((u - 4) if u is not None else Fraction(-2))
                hi = u if u is not None else lo + 4
                if it:
                    v = Fraction(rng.randint(math.ceil(lo), math.floor(hi)))
                    # off-grid integer components (fractional parts on both sides of 1/2 and 1/2 itself, positive and
                    # negative values): with rounding they are rounded (normalized or physical coordinates); in
                    # physical coordinates WITHOUT rounding the function is evaluated at the off-grid point itself
                    if (rnd or not normalized) and rng.chance(0.6) and lo < hi:
                        v = min(max(v + rng.pick(INT_OFFSETS), lo), hi)
                    x.append(v)
                else:
                    x.append(lo + (hi - lo) * Fraction(rng.randint(0, 8), 8))
        return x

    cur = None
    if sh.has_value():
        cur = caller_coords(sh.flat("value"), lb, ub, mask, normalized)
        if not dyadic(cur):
            cur = None
    vias = ["direct", "direct", "direct", "func", "ef-norm", "ef-phys", "nio"]
    names = ["f", *fns]
    reqs = []
    for _ in range(rng.pick([1, 3, 6, 10, 16, 24])):
        via = rng.pick(vias)
        if cur is not None and rng.chance(0.12):
            x, via = cur, "ef-cur"
        elif pts and rng.chance(0.4):
            x = rng.pick(pts)
        else:
            x = gen_point()
            pts.append(x)
        # entry point: the function itself (evaluate/jac, or the func pointer), or
        # EvaluationProblem.evaluate_functions with the design vector given in normalized ("ef-norm") or
        # physical ("ef-phys") coordinates, or taken from the current value of the design space ("ef-cur")
        # "nio": the observable as held by EvaluationProblem.new_iter_observables (always physical coordinates)
        name = rng.pick(names)
        if via == "nio":
            name = "o"
        if via == "ef-norm" and not normalized and off_grid(x, ints):
            via = "ef-phys"  # a normalized design vector is rounded while it is unnormalized: keep the caller's point
        reqs.append([name, rng.pick(["val", "val", "jac"]), [rat(t) for t in x], via])
    case["reqs"] = reqs
    case["reuse_array"] = rng.chance(0.5)
    return case


FMT_MODEL = {"csr_array": "csr", "csr_matrix": "csr", "lil_array": "csr", "csc_array": "csc", "csc_matrix": "csc",
             "coo_array": "coo", "coo_matrix": "coo", True: "csr"}


ROLE_MODEL = {"obj": "obj", "cstr": "cstr", "cstr-eq": "cstr", "obs": "obs", "obs-noiter": "obs"}


def nio_point(case, req, info=None):
    """The physical-coordinates point of a request made through `problem.new_iter_observables` (the copy of an
    observable preprocessed for physical coordinates whatever the configuration), or None when the request is made
    through the accessor of the function's role instead.  With functions of physical coordinates it is the same request;
    with normalized functions only a VALUE request at a point without off-grid integer component is the same request
    (Props/C01 `newIter_value_request_eq`): Jacobians are then w.r.t. other coordinates, and off-grid components
    are recorded under another point."""
    name, kind, x, *rest = req
    if not rest or rest[0] != "nio" or case["fns"].get(name, {}).get("kind") != "obs":
        return None
    lb, ub, ints, mask, _ = info or space_info(case)
    norm = case_cfg(case)[0]
    xs = [Fraction(t) for t in x]
    if len(xs) != len(lb):
        return None
    conv = [l + xi * (u - l) if (norm and nm) else xi for xi, l, u, nm in zip(xs, lb, ub, mask)]
    if not norm or (kind == "val" and not off_grid(conv, ints) and dyadic(conv)):
        return conv
    return None


def case_lines(case) -> list[str]:
    lines = model_lines(case_hist(case))
    lines.append("cfg " + " ".join(str(int(b)) for b in case_cfg(case)))
    for name, fn in case["fns"].items():
        fmt = FMT_MODEL.get(fn.get("sparse") or "dense", "dense")
        lines.append(f"fn {name} " + "|".join(f"{c}:{','.join(map(str, a))}:{','.join(map(str, q))}" for c, a, q in fn["rows"]) + " " + fmt
                     + " " + ROLE_MODEL.get(fn.get("kind", "obj"), "obj"))
    info = space_info(case)
    for req in case["reqs"]:
        name, kind, x = req[:3]
        conv = nio_point(case, req, info)
        if conv is None:
            lines.append(f"{kind} {name} {','.join(x)}")
        else:
            lines.append(f"{kind} {name} {','.join(rat(t) for t in conv)} nio")
    return lines


# --------------------------------------------------------------------------- implementation


class Logged:
    """The user's original callables, logging every call with the point it receives."""

    def __init__(self, name, rows, log, sparse, flat=False):
        self.name, self.rows, self.log, self.sparse, self.flat = name, rows, log, sparse, flat
        self.c = np.array([float(Fraction(r[0])) for r in rows])
        self.a = np.array([[float(Fraction(t)) for t in r[1]] for r in rows])
        self.q = np.array([[float(Fraction(t)) for t in r[2]] for r in rows])

    def func(self, x):
        x = np.asarray(x, dtype=float)
        self.log.append((self.name, "v", pfrac(x)))
        out = self.c + self.a @ x + self.q @ (x * x)
        return float(out[0]) if self.flat else out

    def jac(self, x):
        x = np.asarray(x, dtype=float)
        self.log.append((self.name, "j", pfrac(x)))
        j = self.a + 2.0 * self.q * x
        if self.flat:
            return j[0]
        return to_container(j, self.sparse)


def build_problem(case):
    from gemseo.algos.optimization_problem import OptimizationProblem
    from gemseo.core.mdo_functions.mdo_function import MDOFunction
    from gemseo.core.mdo_functions.mdo_linear_function import MDOLinearFunction

    pb = build_space(case_hist(case), OptimizationProblem)
    log: list = []
    for name, fn in case["fns"].items():
        lg = Logged(name, fn["rows"], log, fn.get("sparse"), fn.get("flat", False))
        if fn["linear"]:
            coeffs = lg.a[0] if fn.get("flat") else to_container(lg.a, fn.get("sparse"))
            mf = MDOLinearFunction(coeffs, name, value_at_zero=lg.c)
        else:
            mf = MDOFunction(lg.func, name, jac=lg.jac)
        kind = fn.get("kind", "obj")
        if kind == "obj":
            pb.objective = mf
        elif kind == "cstr":
            pb.add_constraint(mf, constraint_type=MDOFunction.ConstraintType.INEQ)
        elif kind == "cstr-eq":
            pb.add_constraint(mf, constraint_type=MDOFunction.ConstraintType.EQ)
        elif kind == "obs-noiter":
            pb.add_observable(mf, new_iter=False)
        else:
            pb.add_observable(mf)
    norm, db, sj, rnd, ssj = case_cfg(case)
    pb.preprocess_functions(is_function_input_normalized=norm, use_database=db, round_ints=rnd, store_jacobian=sj,
                            support_sparse_jacobian=ssj)
    # every function is fetched AFTER preprocessing from the public accessor of its role
    fmap = {}
    for name, fn in case["fns"].items():
        kind = fn.get("kind", "obj")
        if kind == "obj":
            fmap[name] = pb.objective
        elif kind.startswith("cstr"):
            fmap[name] = next(c for c in pb.constraints if c.name == name)
        else:
            fmap[name] = next(o for o in pb.observables if o.name == name)
            if kind == "obs":
                fmap["nio:" + name] = next(o for o in pb.new_iter_observables if o.name == name)
    return pb, fmap, log


def fmt_mat(m) -> str:
    if hasattr(m, "toarray"):
        m = m.toarray()
    m = np.atleast_2d(np.asarray(m, dtype=float))
    return "|".join(",".join(num(t) for t in np.asarray(r).ravel()) for r in m) if m.size else "[]"


def dump_db(pb) -> str:
    ents = []
    for x, outs in pb.database.items():
        key = ",".join(num(t) for t in x.unwrap())
        parts = []
        for n, v in outs.items():
            if n.startswith("@"):
                parts.append(f"{n}={fmt_mat(v)}")
            else:
                parts.append(f"{n}=" + ",".join(num(t) for t in np.atleast_1d(v)))
        ents.append(key + ">" + ("&".join(parts) or "[]"))
    return ";".join(ents) or "[]"


def run_impl(case):
    """Return the list of answers (one per request) + raw observations for the oracle."""
    try:
        pb, fmap, log = build_problem(case)
    except EditRejected as e:
        return ["X:edit-rejected"], [{"edit_rejected": str(e)}], set()
    linear_fns = {n for n, fn in case["fns"].items() if fn["linear"]}
    answers, obs = [], []
    # callers commonly reuse ONE array object and update it in place between requests
    reuse = bool(case.get("reuse_array", False))
    buf = None
    info = space_info(case)
    lbs, ubs, ints_, mask, _sh = info
    norm_cfg = case_cfg(case)[0]
    for name, kind, x, *rest in case["reqs"]:
        via = rest[0] if rest else "direct"
        xa = np.array([float(Fraction(t)) for t in x])
        if via in ("ef-norm", "ef-phys"):
            # same request through evaluate_functions, coordinates converted exactly by the harness
            xs = [Fraction(t) for t in x]
            want_norm = via == "ef-norm"
            conv = []
            for xi, l, u, nm in zip(xs, lbs, ubs, mask):
                if not nm or want_norm == norm_cfg:
                    conv.append(xi)
                elif norm_cfg:  # x is normalized, give the physical coordinate
                    conv.append(l + xi * (u - l))
                else:  # x is physical, give the normalized coordinate
                    conv.append((xi - l) / (u - l) if u != l else Fraction(0))
            if not dyadic(conv):
                via = "direct"  # not dyadic: keep the exact stream
            else:
                xa = np.array([float(c) for c in conv])
        target = fmap[name]
        if via == "nio":
            conv = nio_point(case, [name, kind, x, via], info)
            if conv is not None:
                target = fmap["nio:" + name]
                xa = np.array([float(c) for c in conv])
            else:
                via = "direct"
        if reuse:
            if buf is None or buf.shape != xa.shape:
                buf = xa.copy()
            else:
                buf[...] = xa
            xa = buf
        x_before = xa.copy()
        n0 = len(log)
        try:
            if via.startswith("ef-"):
                pb.check_bounds = False
                if via == "ef-cur":
                    dv, dv_norm = None, norm_cfg
                else:
                    dv, dv_norm = xa, via == "ef-norm"
                outs, jacs = pb.evaluate_functions(
                    design_vector=dv, design_vector_is_normalized=dv_norm,
                    output_functions=[target] if kind == "val" else None,
                    jacobian_functions=[target] if kind == "jac" else None,
                )
                if kind == "val":
                    o = ",".join(num(t) for t in np.atleast_1d(outs[name]))
                else:
                    o = fmt_mat(jacs[name])
            elif kind == "val":
                out = target.func(xa) if via == "func" else target.evaluate(xa)
                o = ",".join(num(t) for t in np.atleast_1d(out))
            else:
                out = target.jac(xa)
                o = fmt_mat(out)
        except Exception as e:  # noqa: BLE001
            answers.append("X:" + common.exc_class(e))
            obs.append({"exc": common.short_tb(e)})
            break
        if not np.array_equal(xa, x_before):
            obs.append({"exc": f"the request {kind} {name} modified the caller's array in place: {x_before} -> {xa}"})
            answers.append("X:arg-mutated")
            break
        calls = ";".join(f"{n}:{k}:{prats(p)}" for n, k, p in log) or "[]"
        answers.append(f"out={o} db={dump_db(pb)} calls={calls}")
        obs.append({"out": o, "new_calls": log[n0:], "db": dump_db(pb), "n_calls_total": len(log), "via": via})
    return answers, obs, linear_fns


# --------------------------------------------------------------------------- oracle


def make_phys(case):
    """The physical point of a caller's point, from the property text: x = lb + x_n (ub - lb) on the
    components that are normalized (float - or integer when integer normalization is enabled - bounded
    on both sides), x = x_n elsewhere; integer components rounded to the nearest integer (half to even)."""
    lb, ub, ints, mask, _ = space_info(case)
    norm, _, _, rnd, _ = case_cfg(case)

    def raw(x):
        return [l + xi * (u - l) if (norm and nm) else xi for xi, l, u, nm in zip(x, lb, ub, mask)]

    def phys(x):
        return [round_half_even(xi) if it and (norm or rnd) else xi for xi, it in zip(raw(x), ints)]

    def scale(i):
        return ub[i] - lb[i] if (norm and mask[i]) else Fraction(1)

    return raw, phys, scale


def oracle(case, answers, obs, linear_fns) -> list[tuple[int, str, str]]:
    """Property clauses, from the property text, on the implementation's observations."""
    bad = []
    if obs and "edit_rejected" in obs[0]:
        return bad
    _, _, ints, _, _ = space_info(case)
    norm, db, sj, rnd, _ = case_cfg(case)
    has_int = any(ints)
    _, phys, scale = make_phys(case)
    recorded: dict[tuple, str] = {}  # (phys point, name, kind) -> first answer
    db_keys: list[tuple] = []

    def fval(name, p):
        return [Fraction(c) + sum(Fraction(ai) * pi for ai, pi in zip(a, p)) + sum(Fraction(qi) * pi * pi for qi, pi in zip(q, p))
                for c, a, q in case["fns"][name]["rows"]]

    def fjac(name, p):
        return [[Fraction(ai) + 2 * Fraction(qi) * pi for ai, qi, pi in zip(a, q, p)] for c, a, q in case["fns"][name]["rows"]]

    for i, ((name, kind, x, *_), ans, ob) in enumerate(zip(case["reqs"], answers, obs)):
        if "exc" in ob:
            bad.append((i, "request-raises", f"request {kind} {name} at {x} raised: {ob['exc'][-300:]}"))
            break
        xs = [Fraction(t) for t in x]
        p = phys(xs)
        # faithful value / Jacobian in the caller's coordinates
        if kind == "val":
            want = ",".join(rat(t) for t in fval(name, p))
        else:
            want = "|".join(",".join(rat(t * scale(j)) for j, t in enumerate(row)) for row in fjac(name, p))
        if ob["out"] != want:
            bad.append((i, f"unfaithful-{kind}", f"{kind} of {name} at x={x} (physical {rats(p)}): returned {ob['out']}, expected {want}"))
        # calls of the original callables happen at the physical point only
        is_lin_norm = name in linear_fns and norm and not (rnd and has_int)
        for cn, ck, cp in ob["new_calls"]:
            if not is_lin_norm and (cn != name or cp != p):
                bad.append((i, "call-at-wrong-point", f"original {cn} called at {prats(cp)} for a request at physical point {rats(p)}"))
        if db:
            # the point a record belongs to: the physical point p.  Functions taking physical coordinates with rounding
            # receive a point x whose integer components may be off-grid: the property does not say whether "the
            # physical point" of the record is x itself or its rounded image p (where the function is evaluated), so a
            # record under either is accepted there, and memoization is demanded for the same caller's point only.
            rec_pts = [p] if (norm or p == xs) else [xs, p]
            key = tuple(p) if norm else tuple(xs)
            tag = (key, name, kind)
            stored_kind = kind == "val" or sj
            if tag in recorded:
                if ob["new_calls"]:
                    bad.append((i, "not-memoized", f"{kind} of {name} at recorded point {rats(p)} called the original function again"))
                if recorded[tag] != ob["out"]:
                    bad.append((i, "memo-differs", f"{kind} of {name} at recorded point {rats(p)}: {ob['out']} now, {recorded[tag]} the first time"))
            elif stored_kind:
                recorded[tag] = ob["out"]
            # database records, under the physical point, the value and the physical-space Jacobian
            entries = parse_db(ob["db"])
            keys = [k for k, _ in entries]
            if len(set(keys)) != len(keys):
                bad.append((i, "db-duplicate-key", f"database holds the same point twice: {ob['db']}"))
            if stored_kind:
                ent = next((dict(entries)[rats(q)] for q in rec_pts if rats(q) in dict(entries)), None)
                if ent is None:
                    bad.append((i, "db-missing-physical-point", f"after {kind} {name} the database has no entry under the physical point {rats(p)}: {ob['db']}"))
                else:
                    if kind == "val":
                        if ent.get(name) != want:
                            bad.append((i, "db-wrong-value", f"database[{rats(p)}][{name}] = {ent.get(name)}, expected {want}"))
                    else:
                        wj = "|".join(
                            ",".join(rat(Fraction(0) if (scale(j) == 0) else t) for j, t in enumerate(row)) for row in fjac(name, p)
                        )
                        if ent.get("@" + name) != wj:
                            bad.append((i, "db-wrong-jacobian", f"database[{rats(p)}][@{name}] = {ent.get('@' + name)}, expected the physical-space Jacobian {wj}"))
            # order of keys = order of first recording
            for k in keys:
                if k not in db_keys:
                    db_keys.append(k)
            if keys != db_keys[: len(keys)] or len(keys) != len(db_keys):
                bad.append((i, "db-order", f"database keys {keys} are not in first-recording order {db_keys}"))
        else:
            if ob["db"] != "[]":
                bad.append((i, "db-used-when-off", f"database is not empty although it is switched off: {ob['db']}"))
        if bad:
            break
    return bad


def parse_db(s: str):
    if s == "[]":
        return []
    out = []
    for ent in s.split(";"):
        k, rest = ent.split(">")
        d = {}
        if rest != "[]":
            for part in rest.split("&"):
                n, v = part.split("=")
                d[n] = v
        out.append((k, d))
    return out


def hist_valid(hist) -> bool:
    """Every edit of the history is a valid public edit (inside C02's quantifier) and the space is not empty."""
    sh = Shadow()
    for line in hist:
        if line == "problem":
            continue
        if not valid_line(sh, line):
            return False
        if line.split()[0] in MUTATING:
            apply_shadow(sh, line)
    return bool(sh.vars)


def in_scope(case) -> bool:
    """Requests inside the property's quantifier: a valid design space; points of the right size whose
    physical image (after rounding) lies within the bounds; integer components on-grid unless rounding is requested in
    normalized mode (the only configuration where the property fixes their physical point); the
    current-value entry point only with the current value."""
    if not hist_valid(case_hist(case)):
        return False
    lb, ub, ints, mask, sh = space_info(case)
    norm, _, _, rnd, _ = case_cfg(case)
    raw, phys, _ = make_phys(case)
    for fn in case["fns"].values():
        if any(len(a) != len(lb) or len(q) != len(lb) for _, a, q in fn["rows"]):
            return False
    for _, _, x, *r in case["reqs"]:
        if len(x) != len(lb):
            return False
        xs = [Fraction(t) for t in x]
        for t, p, l, u, it in zip(raw(xs), phys(xs), lb, ub, ints):
            if it and t.denominator != 1:
                # off-grid integer component: in scope with rounding (the physical point is the rounded one), and without
                # rounding in physical coordinates (the physical point is the caller's point); NOT with normalized
                # coordinates without rounding (unnormalize_vect rounds, a normalized MDOLinearFunction does not), nor
                # through a normalized design vector handed to functions of physical coordinates (rounded on the way)
                if norm and not rnd:
                    return False
                if not norm and r and r[0] == "ef-norm":
                    return False
            if (l is not None and p < l) or (u is not None and p > u):
                return False
        if r and r[0] == "ef-cur":
            if not sh.has_value() or caller_coords(sh.flat("value"), lb, ub, mask, norm) != xs:
                return False
    return True


def filter_calls(ans: str, drop: set) -> str:
    """Calls of MDOLinearFunction objects cannot be logged by the harness: drop them on both sides."""
    if " calls=" not in ans:
        return ans
    head, calls = ans.rsplit(" calls=", 1)
    if calls == "[]":
        return ans
    kept = [c for c in calls.split(";") if c.split(":")[0] not in drop]
    return head + " calls=" + (";".join(kept) or "[]")


# --------------------------------------------------------------------------- run


def histogram(res: Result, case):
    cfg = case_cfg(case)
    res.count("cfg=" + "".join(str(int(b)) for b in cfg[:4]))
    res.count("support_sparse_jacobian=" + str(int(cfg[4])))
    res.count(f"reqs<={(len(case['reqs']) // 8 + 1) * 8}")
    res.count("caller-reuses-array" if case.get("reuse_array") else "fresh-arrays")
    for t in case.get("tags", ["space:legacy-add-only"]):
        res.count(t)
    lb, ub, ints, mask, _ = space_info(case)
    res.count(f"dim={len(lb)}")
    if any(l is not None and l == u for l, u in zip(lb, ub)):
        res.count("space-has-equal-bounds")
    if any((l is None) != (u is None) for l, u in zip(lb, ub)):
        res.count("space-has-half-bounded-component")
    raw, _, _ = make_phys(case)
    for r in case["reqs"]:
        res.count("via:" + (r[3] if len(r) > 3 else "direct"))
        rw = raw([Fraction(c) for c in r[2]])
        if off_grid(rw, ints):
            kind = case["fns"][r[0]].get("kind", "obj")
            res.count(f"off-grid-int:normalized={int(cfg[0])},round_ints={int(cfg[3])}:role={kind}:{r[1]}")
        res.count("request-role:" + case["fns"][r[0]].get("kind", "obj"))
        for t, it in zip(rw, ints):
            if it and t.denominator != 1:
                fr = t - math.floor(t)
                res.count("int-component-fraction" + ("<1/2" if fr < Fraction(1, 2) else "=1/2" if fr == Fraction(1, 2) else ">1/2")
                          + ("(negative)" if t < 0 else "(positive)"))
    res.count("roles:" + "+".join(fn.get("kind", "obj") for fn in case["fns"].values()))
    for fn in case["fns"].values():
        m = len(fn["rows"])
        kind = "linear" if fn["linear"] else "nonlinear"
        res.count(f"fn:{kind}:" + (fn.get("sparse") if isinstance(fn.get("sparse"), str) else "csr_array" if fn.get("sparse") else
                                     "dense-1d" if fn.get("flat") else "dense"))
        res.count("fn:outputs" + ("<" if m < len(lb) else "=" if m == len(lb) else ">") + "inputs")


def check_case(res: Result, case, model_answers):
    answers, obs, linear_fns = run_impl(case)
    res.evaluations += 1
    histogram(res, case)
    for ob in obs:
        if ob.get("via") == "nio":
            res.count("effective-via:new_iter_observables")
    if obs and "edit_rejected" in obs[0]:
        res.disagreements += 1
        res.violate("correspondence", "space-edit-rejected",
                    f"a valid public edit of the design space was rejected by the implementation: {obs[0]['edit_rejected']}",
                    {"case": strip(case), "correspondence": "Driver/C01.lean (dsop) / C02 edits"})
        return
    if len(case["reqs"]) >= 3:
        res.nontrivial(json.dumps([case_hist(case), case["cfg"], case["reqs"]]))
    bad = oracle(case, answers, obs, linear_fns)
    for i, key, msg in bad:
        small = shrink_case(case, key, i)
        res.violate("oracle", key, msg, {"case": strip(small)})
    for i, (a, m) in enumerate(zip(answers, model_answers)):
        if filter_calls(a, linear_fns) != filter_calls(m, linear_fns):
            res.disagreements += 1
            if not bad:
                found = None
                for nb in neighbours(case, i):
                    if not in_scope(nb):
                        continue
                    a2, o2, l2 = run_impl(nb)
                    b2 = oracle(nb, a2, o2, l2)
                    if b2:
                        found = (nb, b2[0])
                        break
                if found:
                    res.violate("oracle", found[1][1], found[1][2], {"case": strip(found[0])})
                else:
                    res.violate("correspondence", "model-vs-impl",
                                f"implementation and Lean model disagree at request {i} ({case['reqs'][i][1]} {case['reqs'][i][0]})",
                                {"case": strip(case), "request_index": i, "impl": a, "model": m, "correspondence": "Driver/C01.lean"})
            break
    else:
        res.traces_validated += 1
    res.sample({"lines": case_lines(case)[:10], "last_answer": answers[-1][:300] if answers else None}, cap=3)


def strip(case):
    c = json.loads(json.dumps({k: v for k, v in case.items() if k not in ("fns", "tags")}))
    c["fns"] = {n: {k: v for k, v in fn.items() if not k.startswith("_")} for n, fn in case["fns"].items()}
    return c


DROPPABLE = ("setlb", "setub", "rename", "intnorm", "setvar", "setarr", "setdict", "initmissing", "probe", "view")


def hist_drops(case):
    """The same case with one dimension-preserving edit (or cache-filling query) of the space history dropped."""
    hist = case_hist(case)
    for j, line in enumerate(hist):
        if line.split()[0] in DROPPABLE:
            c = strip(case)
            c.pop("vars", None)
            c["hist"] = hist[:j] + hist[j + 1 :]
            yield c


def neighbours(case, i):
    reqs = case["reqs"]
    for j in range(min(i + 1, len(reqs))):
        c = strip(case)
        c["reqs"] = reqs[:j] + reqs[j + 1 : i + 1]
        if c["reqs"]:
            yield c
    for b in (1, 2, 3, 4):
        c = strip(case)
        c["cfg"] = [int(x) for x in case_cfg(case)]
        c["cfg"][b] = 1 - c["cfg"][b]
        yield c
    yield from hist_drops(case)


def shrink_case(case, key, upto):
    base = strip(case)
    reqs = base["reqs"][: upto + 1]

    def fails_case(c):
        if not in_scope(c):
            return False
        a, o, l = run_impl(json.loads(json.dumps(c)))
        return any(k == key for _, k, _ in oracle(c, a, o, l))

    def fails(sub):
        c = dict(base)
        c["reqs"] = sub
        return fails_case(c)

    base["reqs"] = common.shrink_list(reqs, fails, budget=40)
    # then the space history: drop edits / queries that are not needed for the failure
    progress, budget = True, 20
    while progress and budget > 0:
        progress = False
        for c in hist_drops(base):
            budget -= 1
            if fails_case(c):
                base, progress = c, True
                break
            if budget <= 0:
                break
    return base


def batch_model(cases):
    flat, spans = [], []
    for c in cases:
        ls = case_lines(c)
        n_hdr = len(ls) - len(c["reqs"])
        spans.append((len(flat) + n_hdr, len(c["reqs"])))
        flat.extend(ls)
    out = common.run_lean_driver(PID, flat)
    return [out[s : s + n] for s, n in spans]


def load_corpus():
    d = common.CORPUS_DIR / PID
    return [json.loads(p.read_text())["case"] for p in sorted(d.glob("*.json"))] if d.is_dir() else []


def run(ctx) -> Result:
    res = Result(PID)
    res.rule = (
        "design spaces built through edit histories (add with/without current value, bound setters changing the finiteness "
        "of a bound in both directions, rename, remove+add, filter, filter_dimensions, integer-normalization toggle, current-value "
        "setters; float/integer/all-integer, finite/infinite/equal bounds; queries filling the caches between edits or not; "
        "problem created before or after the edits) x all preprocessing switches (normalized, database, store_jacobian, round_ints, "
        "support_sparse_jacobian) x function roles (objective, inequality constraint, observable, optional equality constraint and "
        "observable outside the new-iteration list; in 40% of the cases the same user polynomial in every role) x polynomial functions (user Jacobian dense 2-D / 1-D gradient / "
        "scipy CSR, CSC, COO, LIL arrays and matrices; MDOLinearFunction with dense / 1-D / sparse coefficients; 1-4 outputs) x request "
        "histories (value/Jacobian interleaved, >=40% repeated points, Jacobian before value, off-grid integer components with fractional "
        "parts on both sides of 1/2: with rounding in normalized and physical coordinates, without rounding in physical coordinates; "
        "entry points evaluate/jac, func, evaluate_functions with normalized / physical / current design vector, the copy of the "
        "observable held by new_iter_observables); compared after every request; non-trivial = >= 3 requests"
    )
    res.assumptions = [
        "off-grid integer components are not given in normalized coordinates without rounding (unnormalize_vect rounds them, a normalized MDOLinearFunction does not: the property does not fix the physical point), nor through a normalized design vector handed by evaluate_functions to functions of physical coordinates",
        "functions of physical coordinates with rounding: the record of an off-grid caller's point x is accepted under x (what the code does) or under its rounded image, memoization is demanded for the same caller's point",
        "requests through new_iter_observables of a problem with normalized functions: value requests at points without off-grid integer component only (Jacobians are w.r.t. other coordinates there)",
        "design points lie within the bounds of the design space",
        "approximated derivatives are outside this check (C16)",
    ]
    rng = ctx.rng
    n = 8000 if ctx.thorough else 2400
    cases = load_corpus() + [gen_case(rng) for _ in range(n)]
    models = batch_model(cases)
    for c, m in zip(cases, models):
        check_case(res, c, m)
    return res


def replay(path: str) -> int:
    data = json.loads(open(path).read())
    case = data["replay"]["case"]
    print("space history:", case_hist(case), " cfg:", case["cfg"])
    answers, obs, lin = run_impl(json.loads(json.dumps(case)))
    model = batch_model([case])[0]
    if obs and "edit_rejected" in obs[0]:
        print("the implementation rejected a valid edit:", obs[0]["edit_rejected"])
        return 1
    for r, a, m in zip(case["reqs"], answers, model):
        print(">", r)
        print("  impl :", a)
        print("  model:", m)
    bad = oracle(case, answers, obs, lin)
    for i, k, msg in bad:
        print("ORACLE FAILS at request", i, k, msg)
    return 1 if bad else 0
