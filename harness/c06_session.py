"""C06 — sessions: several MDA objects alive in one process.

A session is a list of MDA objects (each one a case of harness/c06.py: its own coupled system, its own discipline
instances, its own class and settings) and a history of operations on them: `build i`, `set i <field> <value>`
(`mda.settings.tolerance = ...` / `mda.settings.max_mda_iter = ...` after construction), `exec i <run>`, interleaved
at random. Some objects are *accurate* (tight tolerance, a budget that suffices), others are *coarse* (loose
tolerance, 1-3 iterations): the coarse ones only live next to the others, they are not judged.

Property (C06, per object): whatever else has been built, assigned or executed in the process, every execution of an
accurate object returns couplings that satisfy its disciplines to within the tolerance requested from THAT object at
that time (oracle of harness/c06.py with the per-execution tolerance).

Model (Lean, `GV.C06.World`): the settings an object and its inner MDAs / stages hold after every operation are
replayed by the driver (`snew` / `ssub` / `sset`) and compared with the public `settings` models of ALL the objects
built so far, after EVERY operation (executions included: they must leave every settings model unchanged).
Besides, every judged object is rebuilt and re-run alone (same own operations, fresh disciplines): outputs and
residual histories must be identical (theorem `other_objects_do_not_interfere`).
"""

from __future__ import annotations

import json
from fractions import Fraction
from typing import Any

from harness import c06
from harness import common
from harness.common import rat

COMPOSED = ("MDAChain", "MDAGSNewton", "MDASequential")
KIND_TOKEN = {"MDAChain": "c", "MDAGSNewton": "g", "MDASequential": "s"}
DROPPED_EXTRAS = ("tol_after", "n_processes", "mdachain_parallelize_tasks", "initialize_defaults", "cache", "set_after")
INITIAL_SCALINGS = ("initial", "scaled")


def _object(rng: common.Rng, accurate: bool) -> dict[str, Any]:
    if accurate:
        cls = rng.pick(["MDAChain"] * 5 + ["MDAGSNewton", "MDASequential", rng.pick(["MDAGaussSeidel", "MDAJacobi"])])
    else:
        cls = rng.pick(["MDAChain"] * 4 + ["MDAGSNewton", "MDAGSNewton", "MDASequential", rng.pick(["MDAGaussSeidel", "MDAJacobi"])])
    shape = rng.pick(["strong", "mixed", "groups"]) if cls == "MDAChain" else "strong"
    kind = rng.pick(["lin", "lin", "lin", "rat"])
    case = c06.gen_case(rng, shape=shape, kind=kind, cls=cls, grouped=False)
    m = case["mda"]
    extra = m.get("extra", {})
    for k in DROPPED_EXTRAS:
        extra.pop(k, None)
    if not extra:
        m.pop("extra", None)
    if m["accel"] != "NoTransformation":
        m["omega"] = "1"  # (an acceleration fed by the two-image relaxation is a recorded finding of its own)
    if m.get("inner") == "MDAQuasiNewton" or m["cls"] == "MDAQuasiNewton":
        m["method"] = "hybr"
    case["role"] = "accurate" if accurate else "coarse"
    if not accurate:
        m["tol"] = rat(Fraction(1, 2 ** rng.pick([1, 2, 4])))
        m["max_iter"] = rng.pick([1, 2, 3])
    if len(case["runs"]) < 2 and rng.chance(0.5):
        x2 = [rat(Fraction(t) + 1) for t in case["runs"][0]["x"]]
        case["runs"].append({"x": x2})
    return case


def _own_ops(rng: common.Rng, i: int, case: dict[str, Any]) -> list[dict[str, Any]]:
    """The operations on object `i`, in their order: build, then assignments and executions."""
    m = case["mda"]
    ops: list[dict[str, Any]] = [{"op": "build", "obj": i}]
    accurate = case["role"] == "accurate"
    tol = Fraction(m["tol"])

    def a_set() -> dict[str, Any]:
        if rng.chance(0.5):
            if accurate:
                tighter_ok = not m["scaling"].startswith(INITIAL_SCALINGS) and m["cls"] != "MDASequential" and tol >= Fraction(1, 2**30)
                v = tol / 4 if tighter_ok and rng.chance(0.5) else tol * 4
            else:
                v = Fraction(1, 2 ** rng.pick([1, 3, 5]))
            return {"op": "set", "obj": i, "field": "tolerance", "value": rat(v)}
        return {"op": "set", "obj": i, "field": "max_mda_iter", "value": rng.pick([60, 80, 100]) if accurate else rng.pick([1, 2, 3])}

    n_exec = len(case["runs"]) if accurate else rng.pick([0, 1, 1])
    n_exec = min(n_exec, len(case["runs"]))
    if rng.chance(0.2 if accurate else 0.6):
        ops.append(a_set())
    for j in range(n_exec):
        ops.append({"op": "exec", "obj": i, "run": j})
        if rng.chance(0.25 if accurate else 0.5):
            ops.append(a_set())
    return ops


def gen_session(rng: common.Rng) -> dict[str, Any]:
    n = rng.pick([2, 2, 3, 3, 4])
    objects = [_object(rng, accurate=(i == 0 or rng.chance(0.35))) for i in range(n)]
    queues = [_own_ops(rng, i, c) for i, c in enumerate(objects)]
    ops: list[dict[str, Any]] = []
    live = [q for q in queues if q]
    while live:
        q = rng.pick(live)
        ops.append(q.pop(0))
        live = [q for q in live if q]
    session = {"objects": objects, "ops": ops}
    if not _patterns(session) & {"exec-after-build-of-another", "exec-after-set-on-another"} and rng.chance(0.8):
        # make sure an accurate object built early is executed after the others have been built / assigned
        k = next(k for k, op in enumerate(ops) if op["op"] == "exec" and objects[op["obj"]]["role"] == "accurate")
        tail = [op for op in ops[k:] if op["obj"] == ops[k]["obj"]]
        session["ops"] = [op for op in ops if op not in tail] + tail
    return session


def _patterns(session: dict[str, Any]) -> set[str]:
    """Which inter-object patterns the history contains (for the input-distribution histogram)."""
    pats: set[str] = set()
    built: dict[int, int] = {}
    objects = session["objects"]
    for k, op in enumerate(session["ops"]):
        i = op["obj"]
        if op["op"] == "build":
            built[i] = k
        elif op["op"] == "exec" and objects[i]["role"] == "accurate" and i in built:
            since = session["ops"][built[i]:k]
            if any(o["op"] == "build" and o["obj"] != i for o in since):
                pats.add("exec-after-build-of-another")
            if any(o["op"] == "set" and o["obj"] != i for o in since):
                pats.add("exec-after-set-on-another")
            if any(o["op"] == "exec" and o["obj"] != i for o in since):
                pats.add("exec-interleaved-with-another")
    return pats


def effective(session: dict[str, Any]) -> list[dict[str, Any]]:
    """Per `exec` operation (in history order): the tolerance / max_mda_iter requested from the object at that time."""
    tol = {i: Fraction(c["mda"]["tol"]) for i, c in enumerate(session["objects"])}
    mit = {i: int(c["mda"]["max_iter"]) for i, c in enumerate(session["objects"])}
    out = []
    for op in session["ops"]:
        i = op["obj"]
        if op["op"] == "set":
            if op["field"] == "tolerance":
                tol[i] = Fraction(op["value"])
            else:
                mit[i] = int(op["value"])
        elif op["op"] == "exec":
            out.append({"obj": i, "run": op["run"], "tol": tol[i], "max_iter": mit[i]})
    return out


# --------------------------------------------------------------------------- implementation side


def run_session(session: dict[str, Any], only: int | None = None) -> dict[str, Any]:
    """Execute the history on real MDA objects (`only`: the operations of that object alone).

    Returns, per operation, what it produced and the settings held by every object built so far."""
    mdas: dict[int, Any] = {}
    seen: dict[int, dict[int, int]] = {}
    n_exec: dict[int, int] = {}
    steps = []
    for op in session["ops"]:
        i = op["obj"]
        if only is not None and i != only:
            continue
        case = session["objects"][i]
        step: dict[str, Any] = {"op": op}
        try:
            if op["op"] == "build":
                mdas[i] = c06.build_mda(case)[0]
                seen[i] = {}
                n_exec[i] = 0
            elif i not in mdas:
                step["skipped"] = True
            elif op["op"] == "set":
                value = float(Fraction(op["value"])) if op["field"] == "tolerance" else int(op["value"])
                setattr(mdas[i].settings, op["field"], value)
            else:
                step["r"] = c06.exec_once(mdas[i], case, case["runs"][op["run"]], seen[i], first=n_exec[i] == 0)
                n_exec[i] += 1
        except Exception as e:  # noqa: BLE001
            step["exc"] = common.exc_class(e) + ": " + repr(e)[:200]
        try:
            step["views"] = {str(j): c06.settings_view(m) for j, m in mdas.items()}
        except Exception as e:  # noqa: BLE001
            step["views_exc"] = common.exc_class(e) + ": " + repr(e)[:200]
        steps.append(step)
    return {"steps": steps}


# --------------------------------------------------------------------------- oracle


def judged_objects(session: dict[str, Any]) -> list[int]:
    """Objects inside the property's quantifier at each of their executions (a budget that suffices)."""
    eff = effective(session)
    out = []
    for i, c in enumerate(session["objects"]):
        mine = [e for e in eff if e["obj"] == i]
        if c["role"] == "accurate" and mine and all(e["max_iter"] >= 60 for e in mine):
            out.append(i)
    return out


def judge(session: dict[str, Any], obs: dict[str, Any], only: int | None = None) -> list[tuple[int, str, str]]:
    """(object, key, message) for every clause of the property an accurate object breaks in this history."""
    bad: list[tuple[int, str, str]] = []
    eff = effective(session)
    for i in judged_objects(session):
        if only is not None and i != only:
            continue
        case = session["objects"][i]
        steps = [s for s in obs["steps"] if s["op"]["obj"] == i]
        build = next((s for s in steps if s["op"]["op"] == "build"), None)
        kc = c06.case_class(case)
        if build is None:
            continue
        if "exc" in build:
            bad.append((i, f"{kc}:build-raises", f"object {i}: the MDA cannot be built on a well-posed system: {build['exc']}"))
            continue
        execs = [s for s in steps if s["op"]["op"] == "exec"]
        mine = [e for e in eff if e["obj"] == i]
        sub = dict(case)
        sub["runs"] = [case["runs"][s["op"]["run"]] for s in execs]
        sub_obs = {"runs": [s.get("r") or {"exc": s.get("exc", "not executed")} for s in execs]}
        for key, msg in c06.oracle(sub, sub_obs, tols=[e["tol"] for e in mine]):
            bad.append((i, key, f"object {i} of a session of {len(session['objects'])} MDA objects, {msg}"))
    return bad


# --------------------------------------------------------------------------- model side


def n_inner(case: dict[str, Any]) -> int:
    """Number of inner MDAs an MDAChain creates (components with several disciplines, or one self-coupled one)."""
    n = 0
    for comp in c06.scc_sequence(case):
        d = case["discs"][comp[0]]
        if len(comp) > 1 or any(o in d["ins"] for o in d["outs"]):
            n += 1
    return n


def protocol_lines(session: dict[str, Any]) -> tuple[list[str], list[int]]:
    """Driver lines of the history and, per operation, the index of the line whose answer is the state after it."""
    lines = ["sreset"]
    after: list[int] = []
    for op in session["ops"]:
        i = op["obj"]
        case = session["objects"][i]
        m = case["mda"]
        if op["op"] == "build":
            own = f"tolerance={m['tol']},max_mda_iter={int(m['max_iter'])}"
            cls = m["cls"]
            if cls == "MDAChain":
                given = c06._settings_tokens(case)[1]
                subs = ";".join([given] * n_inner(case)) or "none"
                lines.append(f"snew {i} c {own} {subs}")
            elif cls == "MDAGSNewton":
                given = c06._settings_tokens({"mda": {**m, "inner": "MDAGaussSeidel"}})[1]
                lines.append(f"snew {i} g {own} {given};{given}")
                # the harness limits the Gauss-Seidel stage through the settings of the sub-MDA
                lines.append(f"ssub {i} 0 max_mda_iter {int(m['gs_iter'])}")
            elif cls == "MDASequential":
                subs = ";".join(
                    f"tolerance={rat(c06.stage_tolerance(m, st))},max_mda_iter={int(st['max_iter'])}" for st in m["stages"]
                )
                lines.append(f"snew {i} s {own} {subs}")
            else:
                lines.append(f"snew {i} e {own} none")
        elif op["op"] == "set":
            lines.append(f"sset {i} {op['field']} {op['value']}")
        else:
            lines.append("sshow")
        after.append(len(lines) - 1)
    return lines, after


def parse_state(ans: str) -> dict[str, Any] | None:
    """`0:1/1024,60[1/1024,60|1/1024,3] 1:...` -> {id: {"tolerance", "max_mda_iter", "subs"}}."""
    out: dict[str, Any] = {}
    if ans == "empty":
        return out
    try:
        for tok in ans.split(" "):
            ident, rest = tok.split(":", 1)
            own, subs = rest.split("[", 1)
            t, k = own.split(",")
            sub_list = []
            body = subs.rstrip("]")
            if body:
                for s in body.split("|"):
                    st, sk = s.split(",")
                    sub_list.append([Fraction(st), int(Fraction(sk))])
            out[ident] = {"tolerance": Fraction(t), "max_mda_iter": int(Fraction(k)), "subs": sub_list}
    except (ValueError, ZeroDivisionError):
        return None
    return out


def compare_with_model(session: dict[str, Any], obs: dict[str, Any], answers: list[str], after: list[int]) -> list[str]:
    """Settings held by every object after every operation: real objects against the model's world."""
    diffs: list[str] = []
    failed: set[str] = set()
    for k, (step, idx) in enumerate(zip(obs["steps"], after)):
        op = step["op"]
        if "exc" in step and op["op"] == "build":
            failed.add(str(op["obj"]))
        world = parse_state(answers[idx])
        if world is None:
            return [f"driver answered {answers[idx][:80]} after operation {k} {op}"]
        views = step.get("views")
        if views is None:
            return [f"operation {k} {op}: the settings cannot be read: {step.get('views_exc')}"]
        for ident, w in world.items():
            if ident in failed:
                continue
            v = views.get(ident)
            if v is None:
                return [f"operation {k} {op}: object {ident} is not built in the code"]
            code = (v["tolerance"], v["max_mda_iter"], [tuple(s) for s in v["subs"]])
            model = (float(w["tolerance"]), w["max_mda_iter"], [(float(t), n) for t, n in w["subs"]])
            if code != model:
                cls = session["objects"][int(ident)]["mda"]["cls"]
                return [
                    f"after operation {k} {json.dumps(op)}: object {ident} ({cls}) holds (tolerance, max_mda_iter, "
                    f"[inner (tolerance, max_mda_iter)]) = {code} in the code, {model} in the model"
                ]
    return diffs


def compare_alone(session: dict[str, Any], obs: dict[str, Any], i: int) -> list[str]:
    """Object `i` rebuilt and re-run alone (its own operations only): same outputs, same residual histories."""
    alone = run_session(session, only=i)
    mine = [s for s in obs["steps"] if s["op"]["obj"] == i]
    for a, b in zip(alone["steps"], mine):
        if a["op"]["op"] != "exec":
            continue
        ra, rb = a.get("r") or {}, b.get("r") or {}
        if ("exc" in ra) != ("exc" in rb):
            return [f"object {i}, {json.dumps(a['op'])}: alone {ra.get('exc', 'returns')}, in the session {rb.get('exc', 'returns')}"]
        if "exc" in ra:
            continue
        # NaN-safe exact comparison of the floats
        if json.dumps(ra.get("history")) != json.dumps(rb.get("history")):
            return [
                f"object {i}, {json.dumps(a['op'])}: residual history alone {ra.get('history')[:6]} ({len(ra.get('history'))} "
                f"iterations), in the session {rb.get('history')[:6]} ({len(rb.get('history'))} iterations)"
            ]
        if json.dumps(ra.get("out"), sort_keys=True) != json.dumps(rb.get("out"), sort_keys=True):
            return [f"object {i}, {json.dumps(a['op'])}: returned data alone {ra.get('out')}, in the session {rb.get('out')}"]
    return []


# --------------------------------------------------------------------------- shrinking, search


def without_object(session: dict[str, Any], j: int) -> dict[str, Any]:
    """The session without object `j` (the others keep their numbers: object `j` is simply never built)."""
    s = json.loads(json.dumps(session))
    s["ops"] = [op for op in s["ops"] if op["obj"] != j]
    return s


def shrink(session: dict[str, Any], target: int, key: str, budget: int = 14) -> dict[str, Any]:
    """Drop the other objects, then single operations, as long as `target` still fails with `key`."""
    cur = session
    calls = 0

    def fails(s: dict[str, Any]) -> bool:
        try:
            return any(i == target and k == key for i, k, _ in judge(s, run_session(s), only=target))
        except Exception:  # noqa: BLE001
            return False

    progress = True
    while progress and calls < budget:
        progress = False
        others = sorted({op["obj"] for op in cur["ops"] if op["obj"] != target})
        cands = [without_object(cur, j) for j in others]
        for k, op in enumerate(cur["ops"]):
            if op["op"] == "set" or (op["op"] == "exec" and op["obj"] != target):
                c = json.loads(json.dumps(cur))
                del c["ops"][k]
                cands.append(c)
        for cand in cands:
            calls += 1
            if calls > budget:
                break
            if fails(cand):
                cur = cand
                progress = True
                break
    return cur


def with_final_executions(session: dict[str, Any]) -> dict[str, Any]:
    """Failing-input search around a settings disagreement: every accurate object is executed once more at the end."""
    s = json.loads(json.dumps(session))
    for i, c in enumerate(s["objects"]):
        if c["role"] != "accurate" or not any(op["op"] == "build" and op["obj"] == i for op in s["ops"]):
            continue
        done = sum(1 for op in s["ops"] if op["op"] == "exec" and op["obj"] == i)
        if done >= len(c["runs"]):
            c["runs"].append({"x": [rat(Fraction(t) + 3) for t in c["runs"][0]["x"]]})
        s["ops"].append({"op": "exec", "obj": i, "run": done})
    return s


# --------------------------------------------------------------------------- evaluation


def evaluate(res, sessions: list[dict[str, Any]]) -> None:
    lines: list[str] = []
    spans = []
    for s in sessions:
        ls, after = protocol_lines(s)
        spans.append((len(lines), len(lines) + len(ls), after))
        lines += ls
    answers = common.run_lean_driver(c06.PID, lines) if lines else []
    for s, (a, b, after) in zip(sessions, spans):
        res.evaluations += 1
        obs = run_session(s)
        objs = s["objects"]
        res.count(f"session:objects={len(objs)}")
        res.count("session:classes=" + "+".join(sorted({o["mda"]["cls"] for o in objs})))
        for p in sorted(_patterns(s)) or ["no-inter-object-pattern"]:
            res.count("session:" + p)
        for op in s["ops"]:
            if op["op"] == "set":
                res.count(f"session:set-{op['field']}-on-{objs[op['obj']]['role']}")
        judged = judged_objects(s)
        res.count(f"session:judged-objects={len(judged)}")
        if judged:
            res.nontrivial(json.dumps(s, sort_keys=True))
        bad = judge(s, obs)
        res.sample({"session": [o["mda"]["cls"] + "/" + o["role"] for o in objs], "ops": [[op["op"], op["obj"]] for op in s["ops"]], "oracle": "ok" if not bad else bad[0][2]})
        for i, key, msg in bad:
            if any(v.key == key for v in res.violations):
                continue
            small = shrink(s, i, key)
            o2 = run_session(small)
            b2 = [mm for ii, kk, mm in judge(small, o2, only=i) if kk == key]
            keep = small if b2 else s
            res.violate("oracle", key, b2[0] if b2 else msg, {"session": keep, "target": i, "impl": o2 if b2 else obs})
        diffs = compare_with_model(s, obs, answers[a:b], after)
        res.count("session:replayed")
        if not diffs:
            for i in judged:
                diffs += compare_alone(s, obs, i)
                res.count("session:compared-with-the-object-alone")
                if diffs:
                    break
        if not diffs:
            res.traces_validated += 1
            continue
        res.disagreements += 1
        res.count("disagreement:session")
        if bad:
            continue
        ext = with_final_executions(s)
        o2 = run_session(ext)
        b2 = judge(ext, o2)
        if b2:
            i, key, msg = b2[0]
            if not any(v.key == key for v in res.violations):
                small = shrink(ext, i, key)
                o3 = run_session(small)
                b3 = [mm for ii, kk, mm in judge(small, o3, only=i) if kk == key]
                res.violate(
                    "oracle", key, b3[0] if b3 else msg,
                    {"session": small if b3 else ext, "target": i, "impl": o3 if b3 else o2, "found_from": "executions appended to a session whose settings disagree with the model: " + diffs[0]},
                )
            continue
        res.violate(
            "correspondence",
            "model-vs-impl:session",
            "several MDA objects in one process: the real objects and the model's world disagree: " + diffs[0],
            {
                "session": s,
                "protocol_lines": lines[a:b],
                "model_answers": answers[a:b],
                "impl": obs,
                "diffs": diffs,
                "correspondence": "Driver/C06.lean `snew`/`ssub`/`sset` (GV.C06.World, wstep); theorem other_objects_do_not_interfere",
            },
        )


def replay(rp: dict[str, Any]) -> int:
    s = rp["session"]
    obs = run_session(s)
    for step in obs["steps"]:
        r = step.get("r") or {}
        print("op:", json.dumps(step["op"]), "->", {k: r.get(k) for k in ("out", "exc")} if r else step.get("exc", "ok"),
              "iterations:", len(r.get("history", [])) if r else "-", "settings:", json.dumps(step.get("views")))
    lines, after = protocol_lines(s)
    ans = common.run_lean_driver(c06.PID, lines)
    for d in compare_with_model(s, obs, ans, after):
        print("MODEL/CODE DIFFERENCE:", d)
    bad = judge(s, obs)
    for i, k, msg in bad:
        print("ORACLE FAILS:", k, msg)
    return 1 if bad else 0
