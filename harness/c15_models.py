"""Pydantic models used by the PydanticGrammar stream of the C15 check.

They live in a real module so that grammars built from them can be pickled (a model class is pickled by
reference). `fresh()` re-creates the classes and rebinds the module globals: a history starts from
pristine model classes whatever a previous history did to them.
"""

from __future__ import annotations

from numpy import array
from pydantic import BaseModel
from pydantic import Field

from gemseo.utils.pydantic_ndarray import NDArrayPydantic

M1 = None
M2 = None

# name -> (python type token, has default)
SPEC = {
    "M1": {"a": ("int", False), "b": ("float", True), "c": ("nd", True)},
    "M2": {"x": ("nd", False), "y": ("str", False), "z": ("bool", True)},
}

DEFAULTS = {"b": 1.5, "c": "array", "z": True}


def fresh() -> None:
    """(Re)create the model classes."""
    global M1, M2  # noqa: PLW0603

    class M1(BaseModel):  # noqa: F811
        a: int
        b: float = 1.5
        c: NDArrayPydantic[float] = Field(default_factory=lambda: array([1.0]))

    class M2(BaseModel):  # noqa: F811
        x: NDArrayPydantic[float]
        y: str
        z: bool = True

    M1.__qualname__ = "M1"
    M2.__qualname__ = "M2"


fresh()
