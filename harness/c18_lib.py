"""C18 helpers: case -> real GEMSEO objects, observation of the public API, independent oracles.

A *regressor case* is a JSON-able dict:
  {"algo": "RBFRegressor", "opts": {"function": "cubic", "epsilon": "3/4"},
   "in": [["a", 1], ["b", 2]], "out": [["y", 1]],          variables in dataset order
   "X": [[rat, ...], ...], "Y": [[rat, ...], ...],          learning data (columns follow "in"/"out")
   "tr": {"inputs": spec, "outputs": spec, "a": spec},      transformer specs (group or variable keys)
   "q": [[rat, ...], ...],                                  query points (columns follow "in")
   "chain": [[algo, opts], ...]                             only for RegressorChain
   "moe": {...},                                            only for MOERegressor
   "samples": [i, ...],                                     first training from a subset of the samples
   "history": [{"samples": [i, ...] | null,                 further trainings of the SAME model object, each followed
                "fit_transformers": bool, "q": [...]}       by all the observations at its own query points
               | {"set": {"hard": bool}, "q": [...]}],      or an assignment of a public attribute of the trained object
                                                            (MOERegressor.hard, RBFRegressor.der_function: true/false)
   "sur": [{"in": [names], "out": [names]}],                SurrogateDiscipline(model, input_names=, output_names=)
   "sur_named": bool}                                       SurrogateDiscipline("<algo>", data=..., **settings) too
A *transformer spec* is [class name, {options}] or ["Pipeline", [spec, ...]].
Numbers are "p/q" strings (dyadic in the generated cases) so that a replay is exact.
"""

from __future__ import annotations

import math
from fractions import Fraction
from typing import Any

import numpy as np

from harness.common import F

TWO20 = Fraction(1, 2**20)
TWO24 = Fraction(1, 2**24)
TWO30 = Fraction(1, 2**30)
TWO40 = Fraction(1, 2**40)

KERNELS = (
    "multiquadric",
    "inverse_multiquadric",
    "gaussian",
    "linear",
    "cubic",
    "quintic",
    "thin_plate",
)

# callable kernels: name -> (function(r), der_function(x, |x|, eps)); the function takes only r
CALLABLES = {
    "call_r3": (lambda r: r**3, lambda x, nx, eps: 3.0 * nx * x),
    "call_gauss": (lambda r: np.exp(-(r**2) / 2), lambda x, nx, eps: -x * np.exp(-(nx**2) / 2)),
    "call_exp": (lambda r: np.exp(-r), lambda x, nx, eps: -x / nx * np.exp(-nx)),
}


def fl(x: Any) -> float:
    return float(Fraction(x))


def arr(rows) -> np.ndarray:
    return np.array([[fl(v) for v in row] for row in rows], dtype=float)


# --------------------------------------------------------------------------- building


def build_transformer(spec):
    from gemseo.mlearning.transformers.dimension_reduction.klsvd import KLSVD
    from gemseo.mlearning.transformers.dimension_reduction.kpca import KPCA
    from gemseo.mlearning.transformers.dimension_reduction.pca import PCA
    from gemseo.mlearning.transformers.dimension_reduction.pls import PLS
    from gemseo.mlearning.transformers.pipeline import Pipeline
    from gemseo.mlearning.transformers.power.boxcox import BoxCox
    from gemseo.mlearning.transformers.power.yeo_johnson import YeoJohnson
    from gemseo.mlearning.transformers.scaler.min_max_scaler import MinMaxScaler
    from gemseo.mlearning.transformers.scaler.scaler import Scaler
    from gemseo.mlearning.transformers.scaler.standard_scaler import StandardScaler

    name, opt = spec
    if name == "Pipeline":
        return Pipeline(transformers=[build_transformer(s) for s in opt])
    if name in ("Scaler", "MinMaxScaler", "StandardScaler"):
        cls = {"Scaler": Scaler, "MinMaxScaler": MinMaxScaler, "StandardScaler": StandardScaler}[name]
        kw = {}
        for k in ("offset", "coefficient"):
            if k in opt:
                v = opt[k]
                if isinstance(v, list):
                    if name != "Scaler":
                        raise ValueError("array offset only for Scaler")
                    kw[k] = np.array([fl(t) for t in v])
                else:
                    kw[k] = fl(v)
        return cls(**kw)
    if name == "PCA":
        return PCA(n_components=opt.get("n_components"), scale=bool(opt.get("scale", False)))
    if name == "KPCA":
        return KPCA(n_components=opt.get("n_components"))
    if name == "PLS":
        return PLS(n_components=opt.get("n_components"))
    if name == "KLSVD":
        d = int(opt["dim"])
        return KLSVD(np.linspace(0.0, 1.0, d)[:, None], n_components=opt.get("n_components"))
    if name == "BoxCox":
        return BoxCox(standardize=bool(opt.get("standardize", True)))
    if name == "YeoJohnson":
        return YeoJohnson(standardize=bool(opt.get("standardize", True)))
    raise ValueError(f"unknown transformer {name}")


def spec_has(spec, names) -> bool:
    if spec is None:
        return False
    if spec[0] == "Pipeline":
        return any(spec_has(s, names) for s in spec[1])
    return spec[0] in names


def build_dataset(case):
    from gemseo.datasets.io_dataset import IODataset

    X, Y = arr(case["X"]), arr(case["Y"])
    ds = IODataset(dataset_name="c18")
    i = 0
    for name, size in case["in"]:
        ds.add_input_variable(name, X[:, i : i + size].copy())
        i += size
    i = 0
    for name, size in case["out"]:
        ds.add_output_variable(name, Y[:, i : i + size].copy())
        i += size
    return ds


def _opts(case_opts: dict[str, Any]) -> dict[str, Any]:
    kw: dict[str, Any] = {}
    for k, v in case_opts.items():
        if k == "function" and v in CALLABLES:
            kw["function"] = CALLABLES[v][0]
            if case_opts.get("der_function", True) is not False:
                kw["der_function"] = CALLABLES[v][1]
        elif k == "der_function":
            continue  # (false: the derivative of a callable kernel is not given to the constructor)
        elif k in ("epsilon", "smooth", "penalty_level", "l2_penalty_ratio"):
            kw[k] = None if v is None else fl(v)
        else:
            kw[k] = v
    return kw


_OT_QUIET = False


def quiet_openturns() -> None:
    global _OT_QUIET
    if not _OT_QUIET:
        import openturns

        openturns.Log.Show(openturns.Log.NONE)
        _OT_QUIET = True


def build_model(case):
    """Create and train the regressor of the case with the public API."""
    from gemseo.mlearning.regression.algos.factory import RegressorFactory

    quiet_openturns()

    ds = build_dataset(case)
    kw = _opts(case.get("opts", {}))
    tr = case.get("tr")
    if tr is not None:
        kw["transformer"] = {k: build_transformer(s) for k, s in tr.items()}
    if case.get("input_names"):
        kw["input_names"] = list(case["input_names"])
    if case.get("output_names"):
        kw["output_names"] = list(case["output_names"])
    algo = case["algo"]
    if algo == "PCERegressor":
        from gemseo.algos.parameter_space import ParameterSpace

        X = arr(case["X"])
        sp = ParameterSpace()
        i = 0
        names = case.get("input_names") or [n for n, _ in case["in"]]
        sizes = dict((n, s) for n, s in case["in"])
        offs = {}
        for n, s in case["in"]:
            offs[n] = i
            i += s
        for n in names:
            cols = X[:, offs[n] : offs[n] + sizes[n]]
            lo, hi = float(cols.min()) - 0.5, float(cols.max()) + 0.5
            sp.add_random_variable(n, "OTUniformDistribution", size=sizes[n], minimum=lo, maximum=hi)
        kw["probability_space"] = sp
    model = RegressorFactory().create(algo, ds, **kw)
    if algo == "RegressorChain":
        for sub, so in case["chain"]:
            model.add_algo(sub, **_opts(so))
    if algo == "MOERegressor":
        moe = case.get("moe", {})
        model.set_clusterer("KMeans", n_clusters=int(moe.get("n_clusters", 2)), random_state=0)
        model.set_classifier("KNNClassifier", n_neighbors=int(moe.get("n_neighbors", 1)))
        sub, so = moe.get("regressor", ["LinearRegressor", {}])
        model.set_regressor(sub, **_opts(so))
    if case.get("samples"):
        model.learn(samples=[int(i) for i in case["samples"]])
    else:
        model.learn()
    return model


def relearn(model, phase) -> None:
    """Train the same model object again: other learning samples, transformers refitted or kept (public `learn`)."""
    samples = phase.get("samples")
    model.learn(
        samples=[int(i) for i in samples] if samples is not None else (),
        fit_transformers=bool(phase.get("fit_transformers", True)),
    )


def set_switches(model, case, values: dict[str, Any]) -> None:
    """Assign documented public attributes of a trained model object (no training): `MOERegressor.hard`,
    `RBFRegressor.der_function` (the derivative of the case's callable kernel, or None)."""
    for k, v in values.items():
        if k == "hard":
            model.hard = bool(v)
        elif k == "der_function":
            model.der_function = CALLABLES[case["opts"]["function"]][1] if v else None
        else:
            raise ValueError(f"unknown public switch {k}")


# --------------------------------------------------------------------------- layout helpers


def model_layout(case, model):
    """Column positions (in the case's X/Y layout) of the model's inputs/outputs, in model order."""
    in_off, i = {}, 0
    for n, s in case["in"]:
        in_off[n] = (i, s)
        i += s
    out_off, i = {}, 0
    for n, s in case["out"]:
        out_off[n] = (i, s)
        i += s
    icols = [c for n in model.input_names for c in range(in_off[n][0], in_off[n][0] + in_off[n][1])]
    ocols = [c for n in model.output_names for c in range(out_off[n][0], out_off[n][0] + out_off[n][1])]
    sizes = {n: s for n, s in case["in"]}
    sizes.update({n: s for n, s in case["out"]})
    return icols, ocols, sizes


def to_dict(vec: np.ndarray, names, sizes) -> dict[str, np.ndarray]:
    d, i = {}, 0
    for n in names:
        d[n] = vec[..., i : i + sizes[n]]
        i += sizes[n]
    return d


# --------------------------------------------------------------------------- finite differences


def richardson(f, x: np.ndarray, h: float) -> np.ndarray:
    """Centred differences with one Richardson extrapolation step, all columns."""

    def cd(step):
        cols = []
        for j in range(len(x)):
            e = np.zeros(len(x))
            e[j] = step
            cols.append((np.asarray(f(x + e), dtype=float) - np.asarray(f(x - e), dtype=float)) / (2 * step))
        return np.stack(cols, axis=-1)

    return (4.0 * cd(h / 2) - cd(h)) / 3.0


def fd_reference(f, x: np.ndarray, h: float = 2.0**-7):
    """Two Richardson estimates at different steps; returns (estimate, self-disagreement)."""
    r1 = richardson(f, x, h)
    r2 = richardson(f, x, h / 2)
    return r2, float(np.max(np.abs(r1 - r2))) if r1.size else 0.0


def finite(a) -> bool:
    a = np.asarray(a, dtype=float)
    return bool(np.all(np.isfinite(a)))


def max_abs_diff(a, b) -> Fraction | None:
    """Exact max |a-b| of two float arrays of the same shape (None if shapes differ or not finite)."""
    a, b = np.asarray(a, dtype=float), np.asarray(b, dtype=float)
    if a.shape != b.shape or not finite(a) or not finite(b):
        return None
    if a.size == 0:
        return Fraction(0)
    return max(abs(F(u) - F(v)) for u, v in zip(a.ravel(), b.ravel()))


def max_abs(a) -> Fraction:
    a = np.asarray(a, dtype=float)
    if a.size == 0:
        return Fraction(0)
    return max(abs(F(u)) for u in a.ravel())


def within(a, b, bound: Fraction, scale_floor: Fraction = Fraction(1)) -> bool:
    """Positive assertion: same shape, all finite, max|a-b| <= bound * max(scale_floor, max|b|)."""
    d = max_abs_diff(a, b)
    if d is None:
        return False
    return d <= bound * max(scale_floor, max_abs(b))


def is_nan_free(*arrays) -> bool:
    return all(finite(a) for a in arrays)


def sqrt_frac_bounds(q: Fraction) -> float:
    return math.sqrt(float(q))
