"""Differential oracle of the C20 check for the non-discipline objects: optimization problems,
functions, design spaces, scenarios, the bare `Serializable` classes, grammars, caches, discipline data.

Same contract as c20_diff.run_discipline_case: a JSON-able case -> Outcome.
"""

from __future__ import annotations

from pathlib import Path
from typing import Any

import numpy as np

from harness import c20_catalog as CAT
from harness import c20_disc as H
from harness import c20_observe as OBS
from harness import common
from harness.c20_diff import Outcome
from harness.c20_diff import _call

_N = [0]


def _tag() -> str:
    _N[0] += 1
    return f"o{_N[0]}"


def _rt(obj, case, tmp):
    return OBS.roundtrip(obj, case.get("serializer", "pickle"), tmp, _tag())


def _serialize(out: Outcome, obj, case, tmp):
    try:
        return _rt(obj, case, tmp)
    except Exception as e:  # noqa: BLE001
        out.fail("serialize-raises", f"{type(e).__name__}: {str(e)[:200]}")
        return None


def _view_and_serialize(out: Outcome, obj, case, tmp, view):
    """(view of the original, restored copy).  A *blind* case serializes first: no observation of the harness
    touches the object between the last operation of its life and `dumps` (an observation may refresh what
    the object built lazily and hide a stale member from the pickled state)."""
    out.info["blind"] = bool(case.get("blind"))
    if case.get("blind"):
        copy = _serialize(out, obj, case, tmp)
        return (view(obj) if copy is not None else None), copy
    v0 = view(obj)
    return v0, _serialize(out, obj, case, tmp)


def _cmp(out: Outcome, kind: str, a: Any, b: Any, what: str) -> bool:
    d = OBS.diff_views(a, b)
    if d:
        out.fail(kind, what + ": " + "; ".join(d[:3]))
        return False
    return True


# --------------------------------------------------------------------------- design spaces


def design_space_view(ds) -> dict[str, Any]:
    v: dict[str, Any] = {"class": type(ds).__name__, "names": tuple(ds.variable_names), "dimension": ds.dimension}
    for n in ds.variable_names:
        v[f"var:{n}"] = OBS.canon({
            "size": ds.get_size(n),
            "type": str(ds.get_type(n)),
            "lb": ds.get_lower_bound(n),
            "ub": ds.get_upper_bound(n),
            "value": _call(ds.get_current_value, [n])[1] if _call(ds.get_current_value, [n])[0] == "ok" else None,
        })
    v["has_current_value"] = bool(ds.has_current_value)
    return v


def _ds_probe(ds, pts) -> Any:
    res = []
    for x in pts:
        for f in (ds.normalize_vect, ds.unnormalize_vect, ds.project_into_bounds, ds.round_vect):
            st, r = _call(f, np.array(x, dtype=float))
            res.append(OBS.canon(r) if st == "ok" else ("exc", r.split(":")[0]))
        st, r = _call(ds.check_membership, np.array(x, dtype=float))
        res.append("ok" if st == "ok" else ("exc", r.split(":")[0]))
    return tuple(res)


def build_design_space(case, rng: common.Rng):
    from gemseo.algos.design_space import DesignSpace

    ds = DesignSpace()
    n = rng.randint(1, 4)
    for k in range(n):
        size = rng.randint(1, 3)
        typ = rng.pick(["float", "float", "integer"])
        lb = rng.pick([None, -2.0, 0.0, -1.0])
        ub = rng.pick([None, 2.0, 4.0, 3.0])
        has_val = rng.chance(0.7)
        val = None
        if has_val:
            lo = -1.0 if lb is None else lb
            hi = 1.0 if ub is None else ub
            if typ == "integer":
                val = np.array([float(rng.randint(int(lo), int(hi))) for _ in range(size)])
            else:
                val = np.array([lo + (hi - lo) * rng.randint(0, 8) / 8.0 for _ in range(size)])
        ds.add_variable(
            f"v{k}", size, type_=typ, lower_bound=-np.inf if lb is None else lb, upper_bound=np.inf if ub is None else ub, value=val
        )
    return ds


def run_design_space_case(case, tmp: Path) -> Outcome:
    out = Outcome()
    rng = common.make_rng(int(case.get("seed", 0)), "c20-ds")
    ds = build_design_space(case, rng)
    if case.get("moment") == "used":
        # the caches of normalization are filled and a variable is edited
        _ds_probe(ds, [[0.25] * ds.dimension])
        n0 = ds.variable_names[0]
        ds.set_lower_bound(n0, np.full(ds.get_size(n0), -3.0))
        _ds_probe(ds, [[0.5] * ds.dimension])
    v0, copy = _view_and_serialize(out, ds, case, tmp, design_space_view)
    if copy is None:
        return out
    _cmp(out, "original-altered", v0, design_space_view(ds), "serializing altered the original")
    _cmp(out, "view-differs:design_space", v0, design_space_view(copy), "restored design space differs")
    if not (copy == ds):
        out.fail("view-differs:design_space", "restored design space != original (DesignSpace.__eq__)")
    sh = OBS.shared_state(ds, copy)
    if sh:
        out.fail("shared-state", "; ".join(sh[:4]))
    pts = [[rng.randint(-8, 16) / 4.0 for _ in range(ds.dimension)] for _ in range(3)]
    _cmp(out, "behaviour-differs:design_space", _ds_probe(ds, pts), _ds_probe(copy, pts), "normalize/unnormalize/project/round/check differ")
    # independence
    n0 = copy.variable_names[0]
    copy.set_upper_bound(n0, np.full(copy.get_size(n0), 9.0))
    _call(copy.set_current_value, {n0: np.full(copy.get_size(n0), 0.0 if copy.get_type(n0) == "integer" else 0.125)})
    _cmp(out, "copy-affects-original", v0, design_space_view(ds), "editing the copy changed the original")
    return out


# --------------------------------------------------------------------------- functions


def function_view(f, pts) -> dict[str, Any]:
    v: dict[str, Any] = {
        "class": type(f).__name__,
        "name": f.name,
        "f_type": str(f.f_type),
        "expr": f.expr,
        "input_names": tuple(f.input_names),
        "output_names": tuple(f.output_names),
        "dim": f.dim,
        "has_jac": bool(f.has_jac),
        "special_repr": f.special_repr,
        "force_real": bool(f.force_real),
        "with_normalized_inputs": bool(getattr(f, "expects_normalized_inputs", False)),
        "str": str(f),
    }
    evals = []
    for x in pts:
        st, r = _call(f.evaluate, np.array(x, dtype=float))
        evals.append(OBS.canon(r) if st == "ok" else ("exc", r.split(":")[0]))
        if f.has_jac:
            st, r = _call(f.jac, np.array(x, dtype=float))
            evals.append(OBS.canon(r) if st == "ok" else ("exc", r.split(":")[0]))
    v["evals"] = tuple(evals)
    return v


def build_function(case, rng: common.Rng):
    from gemseo.core.mdo_functions.mdo_function import MDOFunction
    from gemseo.core.mdo_functions.mdo_linear_function import MDOLinearFunction
    from gemseo.core.mdo_functions.mdo_quadratic_function import MDOQuadraticFunction

    f = MDOFunction(H.quad, "f", jac=H.quad_jac, expr="x0**2+3*x1-x0*x1", input_names=["x0", "x1"], dim=1, f_type="obj", output_names=["f"])
    g = MDOFunction(H.lin_cstr, "g", jac=H.lin_cstr_jac, input_names=["x0", "x1"], dim=2, f_type="ineq")
    lin = MDOLinearFunction(np.array([[1.0, -2.0], [0.5, 4.0]]), "lin", input_names=["x0", "x1"], value_at_zero=np.array([1.0, -1.0]))
    quadf = MDOQuadraticFunction(np.array([[2.0, 1.0], [1.0, 4.0]]), "q", input_names=["x0", "x1"], linear_coeffs=np.array([1.0, -1.0]), value_at_zero=0.5)
    shape = case.get("shape") or rng.pick(["f", "g", "lin", "quad", "neg", "add", "sub", "scal", "mul", "div", "offset", "lin-restrict", "concat", "convex"])
    if shape == "f":
        return f
    if shape == "g":
        return g
    if shape == "lin":
        return lin
    if shape == "quad":
        return quadf
    if shape == "neg":
        return -f
    if shape == "add":
        return f + quadf
    if shape == "sub":
        return f - 2.5
    if shape == "scal":
        return f * 3.0
    if shape == "mul":
        return f * quadf
    if shape == "div":
        return f / 4.0
    if shape == "offset":
        return g.offset(np.array([1.0, -0.5]))
    if shape == "lin-restrict":
        return lin.restrict([0], np.array([0.5]))
    if shape == "concat":
        from gemseo.core.mdo_functions.concatenate import Concatenate

        return Concatenate([f, g], "fg")
    if shape == "convex":
        from gemseo.core.mdo_functions.convex_linear_approx import ConvexLinearApprox

        return ConvexLinearApprox(np.array([0.5, 1.0]), f)
    raise ValueError(shape)


def run_function_case(case, tmp: Path) -> Outcome:
    from gemseo.core.mdo_functions.mdo_function import MDOFunction

    out = Outcome()
    rng = common.make_rng(int(case.get("seed", 0)), "c20-fn")
    try:
        f = build_function(case, rng)
    except Exception as e:  # noqa: BLE001
        out.status = "noinst"
        out.detail = f"{type(e).__name__}: {e}"
        return out
    out.info["class"] = type(f).__name__
    dim_in = 1 if case.get("shape") == "lin-restrict" or type(f).__name__ == "MDOLinearFunction" and len(f.input_names) == 1 else 2
    pts = [[rng.randint(-8, 8) / 4.0 for _ in range(dim_in)] for _ in range(3)]
    if case.get("moment") == "used":
        function_view(f, pts[:2])
    copy = _serialize(out, f, case, tmp)
    if copy is None:
        return out
    sh = OBS.shared_state(f, copy)
    if sh:
        out.fail("shared-state", "; ".join(sh[:4]))
    va, vb = function_view(f, pts), function_view(copy, pts)
    _cmp(out, "behaviour-differs:function", va, vb, "restored function differs")
    return out


# --------------------------------------------------------------------------- problems


def result_view(r) -> Any:
    if r is None:
        return None
    d = {}
    for k in ("x_0", "x_opt", "f_opt", "objective_name", "status", "optimizer_name", "message", "n_obj_call", "n_grad_call",
              "n_constr_call", "is_feasible", "optimum_index", "constraint_values", "constraints_grad", "x_0_as_dict", "x_opt_as_dict"):
        d[k] = OBS.canon(getattr(r, k, None))
    return d


def database_view(db) -> Any:
    items = []
    for x, outs in db.items():
        items.append((OBS.canon(x.unwrap()), OBS.canon(dict(outs))))
    return tuple(items)


def problem_view(p) -> dict[str, Any]:
    v: dict[str, Any] = {
        "class": type(p).__name__,
        "design_space": design_space_view(p.design_space),
        "objective": p.objective.name,
        "minimize": bool(p.minimize_objective),
        "constraints": tuple((c.name, str(c.f_type)) for c in p.constraints),
        "observables": tuple(o.name for o in p.observables),
        "function_names": tuple(p.function_names),
        "database": database_view(p.database),
        "counter": (p.evaluation_counter.current, p.evaluation_counter.maximum),
        "tolerances": (OBS.canon(p.tolerances.equality), OBS.canon(p.tolerances.inequality)),
        "differentiation_method": str(p.differentiation_method),
        "stop_if_nan": bool(p.stop_if_nan),
        "use_standardized_objective": bool(p.use_standardized_objective),
        "solution": result_view(p.solution),
        "n_calls": tuple((f.name, getattr(f, "n_calls", None)) for f in p.functions),
        "fn_classes": tuple(type(f).__name__ for f in p.functions),
    }
    try:
        o = p.optimum if len(p.database) else None
        v["optimum"] = OBS.canon(tuple(o)) if o is not None else None
    except Exception as e:  # noqa: BLE001
        v["optimum"] = "E:" + type(e).__name__
    return v


def build_problem(case, rng: common.Rng):
    from gemseo.algos.design_space import DesignSpace
    from gemseo.algos.optimization_problem import OptimizationProblem
    from gemseo.core.mdo_functions.mdo_function import MDOFunction

    which = case.get("problem", "Power2")
    if which == "Power2":
        from gemseo.problems.optimization.power_2 import Power2

        return Power2()
    if which == "Rosenbrock":
        from gemseo.problems.optimization.rosenbrock import Rosenbrock

        return Rosenbrock()
    ds = DesignSpace()
    ds.add_variable("x0", 1, lower_bound=-2.0, upper_bound=2.0, value=np.array([0.5]))
    ds.add_variable("x1", 1, lower_bound=-1.0, upper_bound=3.0, value=np.array([1.0]))
    p = OptimizationProblem(ds)
    p.objective = MDOFunction(H.quad, "f", jac=H.quad_jac, input_names=["x0", "x1"], dim=1, f_type="obj")
    p.add_constraint(MDOFunction(H.lin_cstr, "g", jac=H.lin_cstr_jac, input_names=["x0", "x1"], dim=2), constraint_type="ineq", value=0.25)
    p.add_observable(MDOFunction(H.quad, "obs", input_names=["x0", "x1"], dim=1))
    if which == "custom-max":
        p.minimize_objective = False
    if which == "custom-fd":
        p.differentiation_method = p.DifferentiationMethod.FINITE_DIFFERENCES
    p.tolerances.inequality = 1e-3
    return p


def _eval_problem(p, pts) -> Any:
    res = []
    for x in pts:
        st, r = _call(p.evaluate_functions, np.array(x, dtype=float), design_vector_is_normalized=False, jacobian_functions=())
        res.append(OBS.canon(r) if st == "ok" else ("exc", r.split(":")[0]))
    return tuple(res)


def _run_algo(p, case) -> Any:
    from gemseo import execute_algo

    algo = case.get("algo", "SLSQP")
    if algo in ("PYDOE_LHS", "PYDOE_FULLFACT", "CustomDOE"):
        st, r = _call(execute_algo, p, algo_name=algo, algo_type="doe", n_samples=5)
    else:
        st, r = _call(execute_algo, p, algo_name=algo, max_iter=int(case.get("max_iter", 8)))
    return result_view(r) if st == "ok" else ("exc", r.split(":")[0], r)


def run_problem_case(case, tmp: Path) -> Outcome:
    from gemseo.core.mdo_functions.mdo_function import MDOFunction

    out = Outcome()
    rng = common.make_rng(int(case.get("seed", 0)), "c20-pb")
    p = build_problem(case, rng)
    dim = p.design_space.dimension
    lb, ub = p.design_space.get_lower_bounds(), p.design_space.get_upper_bounds()

    def point():
        return [float(lb[i] + (ub[i] - lb[i]) * rng.randint(0, 16) / 16.0) for i in range(dim)]

    moment = case.get("moment", "fresh")
    if moment == "preprocessed":
        p.preprocess_functions(is_function_input_normalized=bool(case.get("normalize", True)))
        for x in [point() for _ in range(2)]:
            xn = p.design_space.normalize_vect(np.array(x)) if case.get("normalize", True) else np.array(x)
            for f in p.functions:
                f.evaluate(xn)
    elif moment == "evaluated":
        _eval_problem(p, [point() for _ in range(3)])
    elif moment == "solved":
        r = _run_algo(p, case)
        if isinstance(r, tuple) and r and r[0] == "exc":
            out.status = "skipped"
            out.detail = "original cannot be solved: " + r[2]
            return out
    v0, copy = _view_and_serialize(out, p, case, tmp, problem_view)
    if copy is None:
        return out
    _cmp(out, "original-altered", v0, problem_view(p), "serializing altered the original")
    try:
        v1 = problem_view(copy)
    except Exception as e:  # noqa: BLE001
        out.fail("copy-broken", f"viewing the restored problem raises {type(e).__name__}: {e}")
        return out
    d = OBS.diff_views(v0, v1)
    if d:
        out.fail("view-differs:" + d[0].split(":")[0].strip("/").split("/")[0], "restored problem differs: " + "; ".join(d[:3]))
    sh = OBS.shared_state(p, copy)
    if sh:
        out.fail("shared-state", "; ".join(sh[:4]))
    # internal sharing structure is preserved: the functions of the copy feed the database of the copy
    pts = [point() for _ in range(2)]
    if moment == "preprocessed":
        ea, eb = [], []
        for x in pts:
            xn = p.design_space.normalize_vect(np.array(x)) if case.get("normalize", True) else np.array(x)
            for fa, fb in zip(p.functions, copy.functions):
                ra, rb = _call(fa.evaluate, xn), _call(fb.evaluate, xn)
                ea.append(OBS.canon(ra[1]) if ra[0] == "ok" else ("exc", ra[1].split(":")[0]))
                eb.append(OBS.canon(rb[1]) if rb[0] == "ok" else ("exc", rb[1].split(":")[0]))
                if fa.has_jac:
                    ra, rb = _call(fa.jac, xn), _call(fb.jac, xn)
                    ea.append(OBS.canon(ra[1]) if ra[0] == "ok" else ("exc", ra[1].split(":")[0]))
                    eb.append(OBS.canon(rb[1]) if rb[0] == "ok" else ("exc", rb[1].split(":")[0]))
        _cmp(out, "behaviour-differs:problem", tuple(ea), tuple(eb), "function evaluations differ")
    else:
        before = problem_view(p)
        eb = _eval_problem(copy, pts)
        _cmp(out, "copy-affects-original", before, problem_view(p), "evaluating the copy changed the original")
        ea = _eval_problem(p, pts)
        _cmp(out, "behaviour-differs:problem", ea, eb, "evaluate_functions differ")
    _cmp(out, "view-differs-after-use:problem", problem_view(p), problem_view(copy), "after the same evaluations")
    if case.get("solve_after", True) and moment != "preprocessed":
        ra, rb = _run_algo(p, case), _run_algo(copy, case)
        if isinstance(ra, tuple) and ra and ra[0] == "exc" and isinstance(rb, tuple) and rb and rb[0] == "exc":
            ra, rb = ra[:2], rb[:2]
        _cmp(out, "result-differs", ra, rb, f"optimization results of {case.get('algo', 'SLSQP')} differ")
        _cmp(out, "view-differs-after-use:problem", problem_view(p), problem_view(copy), "after the same run")
    return out


# --------------------------------------------------------------------------- scenarios


def scenario_view(sc) -> dict[str, Any]:
    v: dict[str, Any] = {
        "class": type(sc).__name__,
        "name": sc.name,
        "formulation": type(sc.formulation).__name__,
        "problem": problem_view(sc.formulation.optimization_problem),
        "result": result_view(sc.optimization_result),
        "disciplines": tuple((type(d).__name__, d.name) for d in sc.disciplines),
        "input_grammar": OBS.grammar_view(sc.io.input_grammar) if hasattr(sc, "io") else None,
        "stats": OBS.stats_view(sc),
        "sub_stats": tuple(OBS.canon({k: x for k, x in OBS.stats_view(d).items() if k != "duration"}) for d in sc.disciplines),
        "status": str(sc.execution_status.value),
    }
    st = getattr(sc, "_settings", None)
    return v


def build_scenario(case):
    from gemseo.scenarios.doe_scenario import DOEScenario
    from gemseo.scenarios.mdo_scenario import MDOScenario

    form = case.get("formulation", "MDF")
    kw = {}
    if case.get("scenario", "MDO") == "DOE":
        sc = DOEScenario(CAT._sellar(), "obj", CAT._sellar_design_space(), formulation_name=form, **kw)
        sc.add_constraint("c_1", constraint_type="ineq")
        sc.add_observable("y_1")
        sc.set_algorithm(algo_name=case.get("algo", "PYDOE_LHS"), n_samples=5)
    else:
        sc = MDOScenario(CAT._sellar(), "obj", CAT._sellar_design_space(), formulation_name=form, **kw)
        sc.add_constraint("c_1", constraint_type="ineq")
        sc.add_constraint("c_2", constraint_type="ineq")
        sc.set_algorithm(algo_name=case.get("algo", "SLSQP"), max_iter=int(case.get("max_iter", 5)))
    if case.get("diff") == "fd":
        sc.set_differentiation_method("finite_differences")
    return sc


def run_scenario_case(case, tmp: Path) -> Outcome:
    from gemseo.core.execution_statistics import ExecutionStatistics

    out = Outcome()
    ExecutionStatistics.is_enabled = True
    try:
        sc = build_scenario(case)
    except Exception as e:  # noqa: BLE001
        out.status = "noinst"
        out.detail = f"{type(e).__name__}: {e}"
        return out
    if case.get("moment") == "executed":
        st, r = _call(sc.execute)
        if st == "exc":
            out.status = "skipped"
            out.detail = "original cannot execute: " + r
            return out
    if case.get("xdsm"):
        _call(sc.xdsmize, directory_path=str(tmp), save_html=False, save_json=False, pdf_build=False)
    v0, copy = _view_and_serialize(out, sc, case, tmp, scenario_view)
    if copy is None:
        return out
    _cmp(out, "original-altered", _no_duration(v0), _no_duration(scenario_view(sc)), "serializing altered the original")
    try:
        v1 = scenario_view(copy)
    except Exception as e:  # noqa: BLE001
        out.fail("copy-broken", f"viewing the restored scenario raises {type(e).__name__}: {str(e)[:200]}")
        return out
    d = OBS.diff_views(v0, v1)
    if d:
        out.fail("view-differs:" + d[0].split(":")[0].strip("/").split("/")[0], "restored scenario differs: " + "; ".join(d[:3]))
    sh = OBS.shared_state(sc, copy)
    if sh:
        out.fail("shared-state", "; ".join(sh[:4]))
    before = _no_duration(scenario_view(sc))
    rb = _call(copy.execute)
    _cmp(out, "copy-affects-original", before, _no_duration(scenario_view(sc)), "executing the copy changed the original")
    ra = _call(sc.execute)
    if ra[0] != rb[0]:
        out.fail("execute-differs", f"scenario.execute(): original -> {ra[0]} {ra[1] if ra[0] == 'exc' else ''}; copy -> {rb[0]} {rb[1] if rb[0] == 'exc' else ''}")
    _cmp(out, "result-differs", _no_duration(scenario_view(sc)), _no_duration(scenario_view(copy)), "after executing both")
    return out


def _no_duration(v: dict[str, Any]) -> dict[str, Any]:
    v = dict(v)
    v["stats"] = {k: x for k, x in v["stats"].items() if k != "duration"}
    return v


# --------------------------------------------------------------------------- bare Serializable classes


def run_serializable_case(case, tmp: Path) -> Outcome:
    """ExecutionStatus / ExecutionStatistics / DirectoryCreator / DOE libraries / ProblemFunction."""
    from gemseo.core.execution_statistics import ExecutionStatistics
    from gemseo.core.execution_status import ExecutionStatus

    out = Outcome()
    what = case["what"]
    rng = common.make_rng(int(case.get("seed", 0)), "c20-ser")
    if what == "ExecutionStatus":
        es = ExecutionStatus("proc")
        status = case.get("status", "DONE")
        if status != "DONE":
            es.value = ExecutionStatus.Status(status)
        obs = None
        if case.get("observer"):
            obs = H.ResourceObserver() if case["observer"] == "resource" else H.PlainObserver()
            es.add_observer(obs)
        copy = _serialize(out, es, case, tmp)
        if copy is None:
            return out
        if str(copy.value) != str(es.value):
            out.fail("view-differs:status", f"status original={es.value} copy={copy.value}")
        n_before = obs.n if obs is not None else 0
        copy.value = ExecutionStatus.Status.DONE
        copy.value = ExecutionStatus.Status.RUNNING
        if obs is not None and obs.n != n_before:
            out.fail("shared-state", "the observers of the original are notified by the restored status")
        es.value = ExecutionStatus.Status.DONE
        if obs is not None and obs.n != n_before + 1:
            out.fail("original-altered", "the original lost its observers")
        return out
    if what == "ExecutionStatistics":
        ExecutionStatistics.is_enabled = True
        st = ExecutionStatistics("proc")
        ne, nl = rng.randint(0, 9), rng.randint(0, 9)
        du = rng.randint(0, 64) / 8.0
        st.n_executions, st.n_linearizations, st.duration = ne, nl, du
        if case.get("record"):
            st.record_execution(lambda: None)
            st.record_linearization(lambda: None)
            ne, nl = ne + 1, nl + 1
        du = st.duration
        copy = _serialize(out, st, case, tmp)
        if copy is None:
            return out
        got = (copy.n_executions, copy.n_linearizations, copy.duration)
        if got != (ne, nl, du):
            out.fail("counter-not-carried", f"statistics original={(ne, nl, du)} copy={got}")
        copy.n_executions = ne + 5
        copy.record_linearization(lambda: None)
        if (st.n_executions, st.n_linearizations, st.duration) != (ne, nl, du):
            out.fail("shared-state", "updating the statistics of the copy changed the original's")
        return out
    if what == "DirectoryCreator":
        from gemseo.utils.directory_creator import DirectoryCreator

        root = Path(tmp) / _tag()
        root.mkdir()
        dc = DirectoryCreator(root, case.get("naming", "NUMBERED"))
        for _ in range(int(case.get("n_pre", 0))):
            dc.create()
        copy = _serialize(out, dc, case, tmp)
        if copy is None:
            return out
        if copy.last_directory != dc.last_directory:
            out.fail("view-differs:last_directory", f"last_directory original={dc.last_directory} copy={copy.last_directory}")
        ra = _call(copy.create)
        if ra[0] == "exc":
            out.fail("behaviour-differs:DirectoryCreator", "restored creator cannot create a directory: " + ra[1])
            return out
        rb = _call(dc.create)
        if rb[0] == "exc":
            out.fail("copy-affects-original", "original cannot create a directory any more: " + rb[1])
            return out
        if not ra[1].is_dir() or not rb[1].is_dir():
            out.fail("behaviour-differs:DirectoryCreator", f"directories are not created: copy={ra[1]} original={rb[1]}")
        if case.get("naming", "NUMBERED") == "NUMBERED":
            # The counter carries over *as a value*: the copy and the original count independently from the same
            # value, so both make directory n_pre+1 (the property does not ask two independent counters to agree
            # on unique names; the shared-memory counter is shared through process inheritance only).
            expected = str(int(case.get("n_pre", 0)) + 1)
            if ra[1].name != expected:
                out.fail("counter-not-carried", f"the restored creator made directory {ra[1].name!r}, the original would have made {expected!r}")
            if rb[1].name != expected:
                out.fail("copy-affects-original", f"after the copy made a directory the original made {rb[1].name!r} instead of {expected!r}")
        elif ra[1] == rb[1]:
            out.fail("behaviour-differs:DirectoryCreator", f"UUID-named directories are not unique: copy={ra[1]} original={rb[1]}")
        return out
    if what == "DOELibrary":
        from gemseo.algos.doe.factory import DOELibraryFactory
        from gemseo.problems.optimization.rosenbrock import Rosenbrock

        algo = case.get("algo", "PYDOE_LHS")
        try:
            lib = DOELibraryFactory().create(algo)
        except Exception as e:  # noqa: BLE001
            out.status = "noinst"
            out.detail = str(e)[:100]
            return out
        kw = dict(case.get("settings", {"n_samples": 4}))
        if case.get("moment") == "executed":
            st, r = _call(lib.execute, Rosenbrock(), **kw)
            if st == "exc":
                out.status = "skipped"
                out.detail = r
                return out
        copy = _serialize(out, lib, case, tmp)
        if copy is None:
            return out
        va = OBS.canon({"samples": lib.samples, "unit": lib.unit_samples, "seed": lib.seed, "algo": lib.algo_name})
        vb = OBS.canon({"samples": copy.samples, "unit": copy.unit_samples, "seed": copy.seed, "algo": copy.algo_name})
        _cmp(out, "view-differs:doe", va, vb, "restored DOE library differs")
        sh = OBS.shared_state(lib, copy)
        if sh:
            out.fail("shared-state", "; ".join(sh[:4]))
        pa, pb = Rosenbrock(), Rosenbrock()
        rb = _call(copy.execute, pb, **kw)
        ra = _call(lib.execute, pa, **kw)
        if ra[0] != rb[0]:
            out.fail("execute-differs", f"original -> {ra}; copy -> {rb}"[:400])
        elif ra[0] == "ok":
            _cmp(out, "result-differs", database_view(pa.database), database_view(pb.database), "DOE samples/evaluations differ")
            _cmp(out, "view-differs-after-use:doe", OBS.canon({"seed": lib.seed, "s": lib.samples}), OBS.canon({"seed": copy.seed, "s": copy.samples}), "after the same run")
        return out
    raise ValueError(what)


# --------------------------------------------------------------------------- grammars


def build_grammar(case, rng: common.Rng):
    from gemseo.core.grammars.factory import GrammarFactory

    gtype = case.get("grammar", "JSONGrammar")
    g = GrammarFactory().create(gtype, name="g")
    ops = case.get("ops")
    if ops is None:
        # (their own generator: a replay, which has the ops, must leave `rng` in the same state as the first run)
        rng = common.make_rng(int(case.get("seed", 0)), "c20-gr-ops")
        ops = []
        names = ["a", "b", "c", "d", "e"]
        edits = ["names", "types", "data", "required", "defaults", "ns", "del", "merge", "rename", "restrict"]
        soft = ["required", "required", "unrequire", "unrequire", "defaults", "popdefault"]
        uses = ["validate", "validate", "schema", "pickle", "copy"]
        for _ in range(rng.randint(1, 6)):
            ops.append([rng.pick(edits), rng.pick(names), rng.randint(0, 5)])
        # the life goes on: the grammar is used (which builds what it builds lazily), then edited again
        for _ in range(rng.randint(0, 3)):
            ops.append([rng.pick(uses), rng.pick(names), rng.randint(0, 5)])
            for _ in range(rng.randint(0, 3)):
                ops.append([rng.pick(soft * 2 + edits), rng.pick(names), rng.randint(0, 5)])
        case["ops"] = ops
    types = [float, int, str, bool, np.ndarray, dict]
    datas = [1.5, 3, "s", True, np.array([1.0, 2.0]), np.array([1, 2])]
    for k, n, j in ops:
        try:
            if k == "names":
                g.update_from_names([n, n + "2"] if j % 2 else [n])
            elif k == "types":
                g.update_from_types({n: types[j % len(types)]})
            elif k == "data":
                g.update_from_data({n: datas[j % len(datas)]})
            elif k == "required" and n in g:
                if j % 2:
                    g.required_names.add(n)
                else:
                    g.required_names.discard(n)
            elif k == "defaults" and n in g:
                g.defaults[n] = datas[j % len(datas)] if j % 3 else np.array([0.5 * j])
            elif k == "ns" and n in g and j % 2:
                g.add_namespace(n, "ns")
            elif k == "del" and n in g and j % 3 == 0:
                del g[n]
            elif k == "merge":
                other = GrammarFactory().create(gtype, name="o")
                other.update_from_names([n + "_m"])
                other.defaults[n + "_m"] = np.array([float(j)])
                g.update(other)
            elif k == "unrequire":
                cur = sorted(g.required_names)
                if cur:
                    g.required_names.remove(cur[j % len(cur)])
            elif k == "popdefault":
                cur = sorted(g.defaults)
                if cur:
                    g.defaults.pop(cur[j % len(cur)])
            elif k == "rename" and n in g:
                g.rename_element(n, n + "_r")
            elif k == "restrict":
                cur = sorted(g.names)
                if len(cur) > 1:
                    g.restrict_to([x for i, x in enumerate(cur) if i != j % len(cur)])
            elif k == "validate":
                data = {x: np.array([1.0]) for x in g.names}
                data.update(g.defaults)
                if j % 3 == 0 and data:
                    data.pop(sorted(data)[j % len(data)])
                g.validate(data, raise_exception=False)
            elif k == "schema":
                _ = getattr(g, "schema", None)
            elif k == "pickle":
                import pickle as _pickle

                g = _pickle.loads(_pickle.dumps(g))
            elif k == "copy":
                g = g.copy()
        except Exception:  # noqa: BLE001
            pass
    return g


def run_grammar_case(case, tmp: Path) -> Outcome:
    out = Outcome()
    rng = common.make_rng(int(case.get("seed", 0)), "c20-gr")
    try:
        g = build_grammar(case, rng)
    except Exception as e:  # noqa: BLE001
        out.status = "noinst"
        out.detail = f"{type(e).__name__}: {e}"
        return out
    out.info["edits_done"] = sorted({o[0] for o in case.get("ops", [])} & {"validate", "schema", "pickle", "copy", "unrequire", "popdefault", "rename", "restrict"})
    v0, copy = _view_and_serialize(out, g, case, tmp, OBS.grammar_view)
    if copy is None:
        return out
    _cmp(out, "original-altered", v0, OBS.grammar_view(g), "serializing altered the original")
    try:
        v1 = OBS.grammar_view(copy)
    except Exception as e:  # noqa: BLE001
        out.fail("copy-broken", f"viewing the restored grammar raises {type(e).__name__}: {str(e)[:200]}")
        return out
    _cmp(out, "view-differs:grammar", v0, v1, "restored grammar differs")
    _cmp(out, "view-differs:grammar", OBS.schema_view(g), OBS.schema_view(copy), "schema property of the restored grammar differs")
    sh = OBS.shared_state(g, copy)
    if sh:
        out.fail("shared-state", "; ".join(sh[:4]))
    for data in OBS.grammar_probe_data(g, rng):
        a, b = OBS.validate_outcome(g, data), OBS.validate_outcome(copy, data)
        if a != b:
            out.fail("grammar-validation-differs", f"validate({ {k: (v.tolist() if hasattr(v, 'tolist') else v) for k, v in data.items()} }): original={a} copy={b}")
    # the same edits on both give the same grammar; editing the copy leaves the original alone
    def edit(h):
        r = []
        r.append(_call(h.update_from_names, ["zz"])[0])
        r.append(_call(h.defaults.update, {"zz": np.array([1.0])})[0])
        r.append(_call(h.required_names.discard, "zz")[0])
        if "a" in h:
            r.append(_call(h.required_names.add, "a")[0])
            r.append(_call(h.defaults.update, {"a": 7})[0])
        r.append(_call(h.update_from_types, {"yy": int})[0])
        return r

    ra = edit(copy)
    _cmp(out, "copy-affects-original", v0, OBS.grammar_view(g), "editing the copy changed the original")
    rb = edit(g)
    if ra != rb:
        out.fail("behaviour-differs:grammar", f"edits succeed differently: original={rb} copy={ra}")
    _cmp(out, "view-differs-after-use:grammar", OBS.grammar_view(g), OBS.grammar_view(copy), "after the same edits")
    for data in OBS.grammar_probe_data(g, rng):
        a, b = OBS.validate_outcome(g, data), OBS.validate_outcome(copy, data)
        if a != b:
            out.fail("grammar-validation-differs", f"after edits validate(...): original={a} copy={b}")
    # pickled again at this later moment of their life (edited after they were validated)
    for h, who in ((g, "original"), (copy, "first copy")):
        try:
            h.required_names.discard("a")
            h.required_names.discard("zz")
            h2 = _rt(h, case, tmp)
        except Exception as e:  # noqa: BLE001
            out.fail("second-generation-raises", f"serializing the {who} again raises {type(e).__name__}: {str(e)[:200]}")
            continue
        _cmp(out, "second-generation-differs", OBS.grammar_view(h), OBS.grammar_view(h2), f"{who} pickled again after further edits")
        for data in OBS.grammar_probe_data(h, rng):
            a, b = OBS.validate_outcome(h, data), OBS.validate_outcome(h2, data)
            if a != b:
                out.fail("grammar-validation-differs", f"{who} pickled again after further edits: validate(...): original={a} copy={b}")
    return out


# --------------------------------------------------------------------------- caches


def run_cache_case(case, tmp: Path) -> Outcome:
    from gemseo.caches.factory import CacheFactory

    out = Outcome()
    rng = common.make_rng(int(case.get("seed", 0)), "c20-ca")
    ctype = case.get("cache", "SimpleCache")
    tol = [0.0, 0.0, 1e-6, 0.125][rng.randint(0, 3)]
    kw: dict[str, Any] = {"tolerance": tol, "name": "mycache"}
    if ctype == "HDF5Cache":
        kw.update(hdf_file_path=str(Path(tmp) / f"{_tag()}.h5"), hdf_node_path="n" + str(rng.randint(0, 3)))
    cache = CacheFactory().create(ctype, **kw)
    n = int(case.get("n_entries", rng.randint(0, 3)))
    for k in range(n):
        x = {"x": np.array([float(k), rng.randint(-4, 4) / 4.0]), "p": np.array([1.0])}
        cache.cache_outputs(x, {"y": np.array([2.0 * k + 0.5]), "z": np.array([1.0, float(k)])})
        if rng.chance(0.5):
            cache.cache_jacobian(x, {"y": {"x": np.array([[1.0, float(k)]]), "p": np.array([[0.5]])}})
    # settings changed through the public API after the construction (and after the cache was used)
    from fractions import Fraction as _Fr

    want = {"tolerance": tol, "name": "mycache"}
    done = []
    for e in case.get("edits") or ():
        if e[0] == "tol":
            cache.tolerance = float(_Fr(e[1]))
            want["tolerance"] = float(_Fr(e[1]))
        elif e[0] == "name":
            cache.name = str(e[1])
            want["name"] = str(e[1])
        done.append(e[0])
    out.info["edits_done"] = done
    v0, copy = _view_and_serialize(out, cache, case, tmp, OBS.cache_view)
    if copy is None:
        return out
    _cmp(out, "view-differs:cache", v0, OBS.cache_view(copy), "restored cache differs")
    # positive and independent of the original's getters: the restored cache shows the values that were set
    got = {"tolerance": getattr(copy, "tolerance", None), "name": getattr(copy, "name", None)}
    if not (isinstance(got["tolerance"], float) and got["tolerance"] == want["tolerance"] and got["name"] == want["name"]):
        out.fail("setting-not-carried", f"settings when pickled {want}, settings of the restored cache {got}")
    if n and want["tolerance"] > 0.0:
        # a look-up within the current tolerance of a cached input: both return the cached outputs
        x0 = dict(list(cache.get_all_entries())[0].inputs)
        xq_near = {k: v.copy() for k, v in x0.items()}
        xq_near["x"][1] += want["tolerance"] / 4.0
        ea, eb = cache[xq_near], copy[xq_near]
        _cmp(out, "behaviour-differs:cache", OBS.canon(dict(ea.outputs)), OBS.canon(dict(eb.outputs)), "look-up within the tolerance differs")
        out.info["near_inputs"] = 1
        out.info["near_hits"] = int(bool(ea.outputs))
    if ctype != "HDF5Cache":
        sh = OBS.shared_state(cache, copy)
        if sh:
            out.fail("shared-state", "; ".join(sh[:4]))
    xq = {"x": np.array([0.0, 0.0]), "p": np.array([1.0])}
    if n:
        xq = dict(list(cache.get_all_entries())[0].inputs)
    ea, eb = cache[xq], copy[xq]
    _cmp(out, "behaviour-differs:cache", OBS.canon((dict(ea.outputs), {k: dict(v) for k, v in (ea.jacobian or {}).items()})),
         OBS.canon((dict(eb.outputs), {k: dict(v) for k, v in (eb.jacobian or {}).items()})), "lookup differs")
    xn = {"x": np.array([9.0, 9.0]), "p": np.array([1.0])}
    if ctype == "HDF5Cache":
        import pickle as _pickle

        from gemseo.caches.hdf5_cache import HDF5Cache

        # (single-writer protocol: a cache attached to a node keeps its own entry counter, so the one that
        #  writes is always the one attached last)
        # the state holds no copy of the entries: what the original stores after it was pickled is seen by
        # a copy restored later (a file-based cache stays attached to its file)
        blob = _pickle.dumps(cache)
        xl = {"x": np.array([7.0, 7.0]), "p": np.array([1.0])}
        cache.cache_outputs(xl, {"y": np.array([3.0]), "z": np.array([1.0, 2.0])})
        late = _pickle.loads(blob)
        va, vb = OBS.cache_view(cache)["entries"], OBS.cache_view(late)["entries"]
        if va != vb:
            out.fail("file-cache-detached", f"a copy restored after the original stored one more entry sees {len(vb)} entries, the file has {len(va)}")
        el = late[xl]
        if OBS.canon(dict(el.outputs or {})) != OBS.canon({"y": np.array([3.0]), "z": np.array([1.0, 2.0])}):
            out.fail("file-cache-detached", "a copy restored after the original stored one more entry does not find that entry")
        got = {"tolerance": getattr(late, "tolerance", None), "name": getattr(late, "name", None)}
        if not (got["tolerance"] == want["tolerance"] and got["name"] == want["name"]):
            out.fail("setting-not-carried", f"settings when pickled {want}, settings of the cache restored later {got}")
        late.cache_outputs(xn, {"y": np.array([1.0]), "z": np.array([0.0, 0.0])})
        re_attached = HDF5Cache(hdf_file_path=v0["file"], hdf_node_path=v0["node"])
        if OBS.cache_view(re_attached)["entries"] != OBS.cache_view(late)["entries"] or len(re_attached) != n + 2:
            out.fail("file-cache-detached", "what the restored cache stored is not in the original's file and node")
    else:
        copy.cache_outputs(xn, {"y": np.array([1.0]), "z": np.array([0.0, 0.0])})
        _cmp(out, "copy-affects-original", v0, OBS.cache_view(cache), "writing to the copy changed the original")
    return out


# --------------------------------------------------------------------------- discipline data


def run_data_case(case, tmp: Path) -> Outcome:
    from gemseo.core.discipline.discipline_data import DisciplineData

    out = Outcome()
    rng = common.make_rng(int(case.get("seed", 0)), "c20-dd")
    d = DisciplineData()
    for k in range(rng.randint(0, 5)):
        kind = rng.randint(0, 5)
        d[f"k{k}"] = [np.array([1.0, k]), Path("a") / f"b{k}", 3, "s", {"n": np.array([k])}, 2.5][kind]
    copy = _serialize(out, d, case, tmp)
    if copy is None:
        return out
    _cmp(out, "view-differs:data", OBS.canon(dict(d)), OBS.canon(dict(copy)), "restored data differ")
    for k in d:
        if type(d[k]) is not type(copy[k]):
            out.fail("view-differs:data", f"type of {k}: original={type(d[k]).__name__} copy={type(copy[k]).__name__}")
    if type(copy) is not DisciplineData:
        out.fail("view-differs:data", f"restored type {type(copy).__name__}")
    sh = OBS.shared_state({"d": d}, {"d": copy})
    if sh:
        out.fail("shared-state", "; ".join(sh[:4]))
    return out


RUNNERS = {
    "design_space": run_design_space_case,
    "function": run_function_case,
    "problem": run_problem_case,
    "scenario": run_scenario_case,
    "serializable": run_serializable_case,
    "grammar": run_grammar_case,
    "cache": run_cache_case,
    "data": run_data_case,
}
