"""C11 — saved histories, design spaces, problems and caches reload identically.

Correspondence: generated store/export histories are executed on a real `Database` writing a
temporary HDF5 file (root or nested node, direct calls or store / new-iteration listeners);
after EVERY operation the in-memory database, the raw file tree (read through h5py) and the
database reloaded with `Database.from_hdf` are canonicalised and compared with the Lean model
(Driver/C11.lean) line by line. Design spaces go through `to_hdf/from_hdf` and `to_csv/from_csv`
and are compared with the model's file formats.
Oracle (from the property text, independent of model and code): an expected content computed by a
plain-dict twin from the operation list; after every export the reloaded database must equal it
(points in order, dtypes, output names, kinds, shapes, exact values), the in-memory database must
equal it, the file written incrementally must reload like a single final export of a fresh
database, the input space must reload equal. Design spaces, optimization problems and HDF5 caches
are compared field by field with the generated specification (exact for HDF5, 16 significant
digits for text).
"""

from __future__ import annotations

import atexit
import itertools
import json
import math
import os
import shutil
import tempfile
from fractions import Fraction
from pathlib import Path
from typing import Any

import numpy as np

from harness import c11_ext
from harness import common
from harness.common import F
from harness.common import Result
from harness.common import rat

PID = "C11"

TRUSTED_EXTRA = (
    "C11: h5py/HDF5 store and return datasets faithfully (the raw tree is read back through h5py)",
    "C11: the pending buffer is keyed by a 64-bit hash of the point; theorems assume it injective on the points of a run (collision case stated separately in Props/C11.lean)",
    "C11: text format number printing (%.16g) and numpy.genfromtxt parsing are not modelled (oracle compares at 16 significant digits)",
    "C11: of an optimization problem the Lean model covers the attribute groups (description, function descriptions, flat solution fields) and the statement order of from_hdf; the mapping fields of the solution, the database/design space inside the problem file and append-mode rewrites are checked by the oracle only",
    "C11: of an HDF5 cache the Lean model covers the CSR layout of a sparse Jacobian block (SciPy's tocsr() is assumed to return the canonical CSR form of the matrix held by the container); hashing, entry indices and dense datasets are checked by the oracle only (C05 owns cache transparency)",
    "C11: strings written to HDF5 are ASCII (store_attr_h5data encodes with errors='ignore')",
)

_TMP_ROOT: str | None = None


def tmp_root() -> str:
    global _TMP_ROOT
    if _TMP_ROOT is None:
        _TMP_ROOT = tempfile.mkdtemp(prefix="verif-c11-")
        atexit.register(shutil.rmtree, _TMP_ROOT, ignore_errors=True)
    return _TMP_ROOT


_COUNTER = itertools.count()


def fresh_dir() -> str:
    d = os.path.join(tmp_root(), f"c{next(_COUNTER)}")
    os.makedirs(d)
    return d


# =========================================================================== database cases
# case = {"kind": "db", "node": "" | "a/b", "via": "direct" | "store_listener" | "iter_listener",
#         "space": bool, "ops": [["store", pt, {name: val}], ["export", "a" | "w"]]}
# pt  = {"int": bool, "xs": ["p/q", ...]}
# val = {"k": "f" | "i" | "np" | "a" | "l" | "ai", "shape": [..], "data": ["p/q", ...]}
#   f: python float, i: python int, np: numpy.float64 scalar, a: float ndarray, ai: int ndarray, l: list

NAME_POOL = ["f", "g", "h", "@f", "@g", "c_1", "z", "a", "B", "_o", "f10", "f2", "obj", "Zz", "k", "y_12"]


def _dy(rng, int_only=False) -> str:
    if int_only:
        return str(rng.randint(-6, 6))
    return rat(Fraction(rng.randint(-32, 32), rng.pick([1, 2, 4, 8])))


def gen_val(rng, name: str) -> dict[str, Any]:
    if name.startswith("@"):
        kind = rng.pick(["v", "m", "m", "a1"])
    else:
        kind = rng.pick(["f", "f", "f", "i", "np", "a1", "a1", "v", "v", "m", "l", "ai", "a0", "e"])
    if kind in ("f", "np"):
        return {"k": kind, "shape": [], "data": [_dy(rng)]}
    if kind == "i":
        return {"k": "i", "shape": [], "data": [_dy(rng, True)]}
    if kind == "a0":
        return {"k": "a", "shape": [], "data": [_dy(rng)]}
    if kind == "e":
        return {"k": "a", "shape": [0], "data": []}
    if kind == "a1":
        return {"k": "a", "shape": [1], "data": [_dy(rng)]}
    if kind == "v":
        n = rng.randint(2, 4)
        return {"k": "a", "shape": [n], "data": [_dy(rng) for _ in range(n)]}
    if kind == "ai":
        n = rng.randint(1, 3)
        return {"k": "ai", "shape": [n], "data": [_dy(rng, True) for _ in range(n)]}
    if kind == "l":
        n = rng.randint(1, 3)
        return {"k": "l", "shape": [n], "data": [_dy(rng) for _ in range(n)]}
    r, c = rng.randint(1, 3), rng.randint(1, 3)
    return {"k": "a", "shape": [r, c], "data": [_dy(rng) for _ in range(r * c)]}


def alt_rep(rng, pt) -> tuple[dict[str, Any], str]:
    """Another array EQUAL to the point (same database key) in another representation: integer <->
    float dtype, int32 <-> int64, 0.0 <-> -0.0, a strided view, or simply a new equal array."""
    opts = ["copy", "view"]
    integral = all(Fraction(t).denominator == 1 for t in pt["xs"])
    zeros = [j for j, t in enumerate(pt["xs"]) if Fraction(t) == 0]
    if integral:
        opts += ["flip"] * 4
    if pt["int"]:
        opts += ["width"]
    if zeros:
        opts += ["negzero"] * 4
    how = rng.pick(opts)
    q = {k: (list(v) if isinstance(v, list) else v) for k, v in pt.items() if k != "view"}
    if how == "flip":
        q = {"int": not pt["int"], "xs": [str(Fraction(t).numerator) for t in pt["xs"]]}
        if not q["int"] and zeros and rng.chance(0.3):
            q["nz"] = [rng.pick(zeros)]
            how = "flip+negzero"
    elif how == "width":
        q["dt"] = "int32" if pt.get("dt", "int64") == "int64" else "int64"
    elif how == "negzero":
        cur = sorted(pt.get("nz", ())) if not pt["int"] else []
        while True:
            nz = sorted(j for j in zeros if rng.chance(0.6))
            if nz != cur or pt["int"]:
                break
        q = {"int": False, "xs": list(pt["xs"])}
        if nz:
            q["nz"] = nz
        how = "negzero" if not pt["int"] else ("flip+negzero" if nz else "flip")
    elif how == "view":
        q["view"] = True
    return q, how


def gen_db_case(rng, in_scope: bool = True) -> dict[str, Any]:
    # representation-rich histories: the same point is stored again through other equal arrays
    rep_mode = in_scope and rng.chance(0.45)
    via = rng.pick(["direct"] * 7 + ["store_listener", "iter_listener", "iter_listener"])
    node = rng.pick(["", "", "n1", "n1/n2"])
    dim = rng.pick([1, 2, 2, 3])
    int_mode = rng.pick(["float", "float", "float", "int", "mixed"])
    many = rng.chance(0.25)
    n_ops = rng.pick([1, 2, 3, 4, 6, 8, 10, 12, 16, 20, 25])
    many_pts = rng.chance(0.12)  # more than 10 points: HDF5 lists "10" before "2"
    if many_pts:
        n_ops = rng.pick([24, 30, 36])
    names = list(NAME_POOL)
    pts: list[dict[str, Any]] = []
    seen = set()
    stored: list[dict[str, dict]] = []  # per point: current outputs
    exported: list[set] = []  # per point: names present in the file
    ops: list[list[Any]] = []
    have_file = False
    in_file: list[bool] = []  # per point: does the file hold it?
    restore_next: int | None = None

    def mark_exported():
        for j in range(len(pts)):
            exported[j] = set(stored[j])
            in_file[j] = True

    for _ in range(n_ops):
        if via != "direct" or rng.chance(0.8 if many_pts else 0.62) or not pts:
            # ---- store
            if restore_next is not None and restore_next < len(pts):
                i, restore_next = restore_next, None  # the point just created, stored again before any export
                op_pt = alt_rep(rng, pts[i])[0] if rng.chance(0.85) else pts[i]
            elif pts and rng.chance(0.25 if many_pts else 0.55):
                i = rng.randrange(len(pts))
                op_pt = alt_rep(rng, pts[i])[0] if rep_mode and rng.chance(0.6) else pts[i]
            else:
                span = 3
                while True:
                    span += 1
                    is_int = int_mode == "int" or (int_mode == "mixed" and rng.chance(0.5))
                    xs = [str(rng.randint(-span, span)) if is_int or rng.chance(0.8 if rep_mode else 0.4) else _dy(rng) for _ in range(dim)]
                    if rep_mode and rng.chance(0.35):
                        xs[rng.randrange(dim)] = "0"
                    # distinct by VALUE whatever the dtype: an all-zero int64 point and an all-zero
                    # float64 point have the same bytes, hence the same hash, and are one database key
                    key = tuple(Fraction(t) for t in xs)
                    if key not in seen:
                        seen.add(key)
                        break
                pts.append({"int": is_int, "xs": xs})
                if rep_mode:
                    # the FIRST representation of a point is not always the plain one
                    zeros = [j for j, t in enumerate(xs) if Fraction(t) == 0]
                    if is_int and rng.chance(0.15):
                        pts[-1]["dt"] = "int32"
                    elif not is_int and zeros and rng.chance(0.3):
                        pts[-1]["nz"] = [rng.pick(zeros)]
                    if rng.chance(0.1):
                        pts[-1]["view"] = True
                    if via != "store_listener" and rng.chance(0.5):
                        restore_next = len(pts) - 1
                op_pt = pts[-1]
                stored.append({})
                exported.append(set())
                in_file.append(False)
                i = len(pts) - 1
            k = rng.pick([0, 1, 1, 1, 2, 2, 3, 4]) if not many else rng.randint(0, 9)
            outs: dict[str, Any] = {}
            if in_scope:
                avail = [n for n in names if n not in exported[i]]
            else:
                avail = list(names)
            for n in rng.sample(avail, min(k, len(avail))):
                outs[n] = gen_val(rng, n)
            if in_scope and exported[i] and rng.chance(0.12):
                n = rng.pick(sorted(exported[i]))  # idempotent re-store of an exported output
                outs[n] = stored[i][n]
            if not in_scope and exported[i] and rng.chance(0.5):
                n = rng.pick(sorted(exported[i]))  # overwrite of an exported output (by design not propagated)
                outs[n] = gen_val(rng, n)
            new_iter = bool(outs) and not stored[i]
            stored[i].update(outs)
            ops.append(["store", op_pt, outs])
            if via == "store_listener" or (via == "iter_listener" and new_iter):
                ops.append(["export", "a"])
                mark_exported()
                have_file = True
        elif in_scope and have_file and rng.chance(0.08):
            # ---- update_from_hdf on the current database: every file entry is stored again
            ops.append(["update"])
        elif in_scope and have_file and rng.chance(0.15):
            # ---- restart: a new Database filled from the file; stores since the last export are lost
            ops.append(["reload"])
            restore_next = None
            keep = [j for j in range(len(pts)) if in_file[j]]
            stored = [{n: v for n, v in stored[j].items() if n in exported[j]} for j in keep]
            pts = [pts[j] for j in keep]
            exported = [exported[j] for j in keep]
            in_file = [True] * len(pts)
            seen = {tuple(Fraction(t) for t in q["xs"]) for q in pts}
        else:
            mode = "a" if rng.chance(0.8) else "w"
            ops.append(["export", mode])
            mark_exported()
            have_file = True
    if via == "direct" and (not have_file or rng.chance(0.5)):
        ops.append(["export", "a"])
    return {"kind": "db", "node": node, "via": via, "space": rng.chance(0.3), "ops": ops,
            # the caller reuses ONE array object for all the points (updated in place between stores),
            # passes HashableNdarray keys, pathlib paths
            "alias_x": rng.chance(0.5), "hashable": rng.chance(0.3), "pathlib": rng.chance(0.5)}


# --------------------------------------------------------------------------- protocol lines


def pt_tok(pt) -> str:
    return ("i:" if pt["int"] else "f:") + (",".join(pt["xs"]) if pt["xs"] else "[]")


def shape_tok(shape) -> str:
    return "x".join(str(s) for s in shape) if shape else "_"


def val_tok(v) -> str:
    if v["k"] in ("f", "i", "np"):
        return "s:" + v["data"][0]
    return "a:" + shape_tok(v["shape"]) + ":" + (",".join(v["data"]) if v["data"] else "[]")


def db_lines(case) -> list[str]:
    lines = ["new"]
    # the model works on database KEYS: a point is named by the representation the database holds
    # (the first one stored); the representation actually passed is in `raw_lines`
    for op in canonical_ops(case["ops"]):
        if op[0] == "store":
            lines.append(" ".join(["store", pt_tok(op[1]), *[f"{n}={val_tok(v)}" for n, v in op[2].items()]]))
        elif op[0] in ("reload", "update"):
            lines.append(op[0])
        else:
            lines.append(f"export {op[1]}")
    return lines


# --------------------------------------------------------------------------- canonical forms of real objects


def canon_pyval(v) -> str:
    """Canonical token of a Python output value: array (`ndarray`/`list`) or scalar."""
    if isinstance(v, (np.ndarray, list)):
        a = np.asarray(v)
        if np.iscomplexobj(a):
            a = a.real
        flat = [rat(t) for t in a.astype(float).ravel().tolist()]
        return "a:" + shape_tok(list(a.shape)) + ":" + (",".join(flat) if flat else "[]")
    if isinstance(v, complex):
        v = v.real
    return "s:" + rat(float(v))


def canon_pt(a: np.ndarray) -> str:
    kind = "i:" if a.dtype.kind in "iu" else "f:"
    xs = [rat(t) for t in a.tolist()]
    return kind + (",".join(xs) if xs else "[]")


def canon_outs(outs) -> str:
    return "&".join(f"{n}={canon_pyval(outs[n])}" for n in sorted(outs))


def canon_db(db) -> str:
    items = [canon_pt(x.wrapped_array) + "{" + canon_outs(o) + "}" for x, o in db.items()]
    return ";".join(items) if items else "-"


def canon_file(path: str, node: str) -> str:
    return canon_file_both(path, node)[0]


def canon_file_both(path: str, node: str) -> tuple[str, str]:
    """(raw tree of the groups x/k/v, datasets of the group `x` bit for bit), read through h5py."""
    import h5py

    if not os.path.exists(path):
        return "-", "-"
    with h5py.File(path, "r") as h5:
        g = h5[node] if node else h5
        xg, kg, vg = g["x"], g["k"], g["v"]
        idxs = sorted(int(n) for n in xg)
        ents = []
        reps = []
        for i in idxs:
            s = str(i)
            keys = [k.decode() if isinstance(k, bytes) else str(k) for k in kg[s][()]] if s in kg else ["<no-k>"]
            scal = [rat(t) for t in np.asarray(vg[s][()]).tolist()] if s in vg else []
            arrs = []
            an = f"arr_{s}"
            if an in vg:
                for j in sorted(int(n) for n in vg[an]):
                    a = np.asarray(vg[an][str(j)][()])
                    flat = [rat(t) for t in a.astype(float).ravel().tolist()]
                    arrs.append(f"{j}:{shape_tok(list(a.shape))}:" + (",".join(flat) if flat else "[]"))
            xa = np.asarray(xg[s][()])
            reps.append(f"{i}@{rep_line_of_array(xa)}")
            ents.append(
                f"{i}@{canon_pt(xa)}[" + "&".join(keys) + "|" + ",".join(scal) + "|" + "+".join(arrs) + "]"
            )
        return (";".join(ents) if ents else "-"), (";".join(reps) if reps else "-")


# --------------------------------------------------------------------------- implementation runner


def pkey(pt) -> tuple:
    """The database key of a point = its VALUES: arrays that are equal component by component
    (integer or float dtype, 0.0 or -0.0, any memory layout) are one key (`HashableNdarray.__eq__`)."""
    return tuple(Fraction(t) for t in pt["xs"])


def build_pt(pt) -> np.ndarray:
    """The array of a point *representation*: dtype (`int`, optional `dt` = int32/int64), values,
    negative zeros at the positions `nz` (float only), optionally a strided view (`view`)."""
    if pt["int"]:
        a = np.array([int(t) for t in pt["xs"]], dtype=np.dtype(pt.get("dt", "int64")))
    else:
        a = np.array([float(Fraction(t)) for t in pt["xs"]], dtype=np.float64)
        for j in pt.get("nz", ()):
            a[j] = -0.0
    if pt.get("view"):
        big = np.zeros(2 * len(a) + 1, dtype=a.dtype)
        big[1::2] = a
        a = big[1::2]  # non-contiguous view of a larger buffer
    return a


def rep_tok(pt) -> str:
    """Exact description of a representation: dtype, values, positions of the negative zeros."""
    dt = pt.get("dt", "int64") if pt["int"] else "float64"
    return f"{dt}[{','.join(pt['xs'])}]" + ("".join(f"-z{j}" for j in sorted(pt.get("nz", ()))) if not pt["int"] else "")


_DT_CODE = {"float64": "f", "int64": "i", "int32": "j"}


def rep_line_tok(pt) -> str:
    """Protocol token of the array passed to `store` (representation layer of the model)."""
    dt = _DT_CODE[pt.get("dt", "int64") if pt["int"] else "float64"]
    nz = sorted(pt.get("nz", ())) if not pt["int"] else []
    return f"{dt}|{','.join(pt['xs']) if pt['xs'] else '[]'}|{','.join(str(j) for j in nz) if nz else '-'}"


def rep_line_of_array(a: np.ndarray) -> str:
    vals = a.tolist()
    xs = [rat(t) for t in vals]
    nz = [str(j) for j, t in enumerate(vals) if isinstance(t, float) and t == 0.0 and math.copysign(1.0, t) < 0]
    return f"{_DT_CODE.get(a.dtype.name, a.dtype.name)}|{','.join(xs) if xs else '[]'}|{','.join(nz) if nz else '-'}"


def rep_lines(case) -> list[str]:
    """The history for the representation layer: the arrays exactly as they are passed."""
    lines = ["rnew"]
    for op in case["ops"]:
        if op[0] == "store":
            lines.append("rstore " + rep_line_tok(op[1]))
        elif op[0] in ("reload", "update"):
            lines.append("r" + op[0])
        else:
            lines.append(f"rexport {op[1]}")
    return lines


def rep_of_array(a: np.ndarray) -> str:
    """`rep_tok` of a real array (what the database / the file holds)."""
    xs = []
    for t in a.tolist():
        xs.append(rat(t) if isinstance(t, float) and math.isfinite(t) else str(t))
    nz = ""
    if a.dtype.kind == "f":
        nz = "".join(f"-z{j}" for j, t in enumerate(a.tolist()) if t == 0.0 and math.copysign(1.0, t) < 0)
    return f"{a.dtype.name}[{','.join(xs)}]" + nz


def build_val(v):
    k = v["k"]
    if k == "f":
        return float(Fraction(v["data"][0]))
    if k == "i":
        return int(v["data"][0])
    if k == "np":
        return np.float64(float(Fraction(v["data"][0])))
    if k == "l":
        return [float(Fraction(t)) for t in v["data"]]
    if k == "ai":
        return np.array([int(t) for t in v["data"]], dtype=np.int64).reshape(v["shape"])
    return np.array([float(Fraction(t)) for t in v["data"]], dtype=np.float64).reshape(v["shape"])


def make_space(dim: int):
    from gemseo.algos.design_space import DesignSpace

    ds = DesignSpace()
    if dim >= 2:
        ds.add_variable("x_shared", size=dim - 1, lower_bound=-10.0, upper_bound=10.0, value=0.5)
        ds.add_variable("yy", size=1, lower_bound=-np.inf, upper_bound=8.0)
    else:
        ds.add_variable("x_1", size=1, lower_bound=-10.0, upper_bound=np.inf, value=-0.25)
    return ds


class DbRun:
    """One execution of a database case on the real code, observed after every operation."""

    def __init__(self, case, workdir: str | None = None) -> None:
        from gemseo.algos.database import Database

        self.case = case
        self.dir = workdir or fresh_dir()
        self.path = os.path.join(self.dir, "db.h5")
        self.node = case["node"]
        dim = next((len(op[1]["xs"]) for op in case["ops"] if op[0] == "store"), 1)
        self.space = make_space(dim) if case.get("space") else None
        self.db = Database(input_space=self.space) if self.space is not None else Database()
        self.Database = Database
        self.lines: list[str] = []  # one per op
        self.rlines: list[str] = []  # one per op: representation layer (database keys, file datasets x/<i>)
        self.filex_s = "-"
        self.error: str | None = None
        self.file_s = "-"
        self.read_s = "-"
        self.reloads: list[tuple[int, Any]] = []  # (op index, reloaded database) after each export
        self.reload_errors: list[tuple[int, str]] = []
        self.space_equal: list[tuple[int, bool]] = []
        self._bufs: dict = {}
        self.final_single = None
        self.final_single_error: str | None = None

    def _export(self, mode: str) -> None:
        path = Path(self.path) if self.case.get("pathlib") else self.path
        if not self.node and mode == "w" and self.case.get("pathlib"):
            self.db.to_hdf(path)  # defaults: append=False, root node
        else:
            self.db.to_hdf(path, append=(mode == "a"), hdf_node_path=self.node)

    def _key(self, pt):
        """The array handed to `store`: a fresh array, or ONE buffer per dtype updated in place."""
        from gemseo.algos.hashable_ndarray import HashableNdarray

        a = build_pt(pt)
        if self.case.get("alias_x"):
            slot = (a.dtype.str, len(a), bool(pt.get("view")))
            buf = self._bufs.get(slot)
            if buf is None:
                buf = self._bufs[slot] = a if pt.get("view") else a.copy()
            buf[:] = a
            a = buf
        if self.case.get("hashable"):
            return HashableNdarray(a)
        return a

    def _refresh(self, op_index: int) -> None:
        self.file_s, self.filex_s = canon_file_both(self.path, self.node)
        try:
            re = self.Database.from_hdf(self.path, hdf_node_path=self.node, log=False)
            self.read_s = canon_db(re)
            self.reloads.append((op_index, re))
            # compared now: the in-memory input space is completed lazily by later stores
            self.space_equal.append((op_index, bool(re.input_space == self.db.input_space)))
        except Exception as e:  # noqa: BLE001
            self.read_s = "E"
            self.reload_errors.append((op_index, common.exc_class(e) + ": " + repr(e)[:120]))

    def run(self) -> "DbRun":
        via = self.case["via"]
        ops = self.case["ops"]
        flags = scope_flags(self.case)
        if via == "store_listener":
            self.db.add_store_listener(lambda x: self._export("a"))
        elif via == "iter_listener":
            self.db.add_new_iter_listener(lambda x: self._export("a"))
        i = 0
        while i < len(ops):
            op = ops[i]
            if self.error:
                self.lines.append("E")
                self.rlines.append("E")
                i += 1
                continue
            try:
                if op[0] == "store":
                    fused = via != "direct" and i + 1 < len(ops) and ops[i + 1][0] == "export"
                    self.db.store(self._key(op[1]), {n: build_val(v) for n, v in op[2].items()})
                    if fused:
                        # the listener exported inside `store`: the model's intermediate line is skipped
                        self.lines.append("*")
                        self.rlines.append("*")
                        i += 1
                        self._refresh(i)
                elif op[0] == "reload":
                    self.db = self.Database.from_hdf(self.path, hdf_node_path=self.node, log=False)
                elif op[0] == "update":
                    self.db.update_from_hdf(self.path, hdf_node_path=self.node)
                else:
                    self._export(op[1])
                    self._refresh(i)
                self.lines.append(f"in={int(flags[i])} db={canon_db(self.db)} file={self.file_s} read={self.read_s}")
                keys = [rep_line_of_array(x.wrapped_array) for x in self.db]
                self.rlines.append(f"keys={';'.join(keys) if keys else '-'} x={self.filex_s}")
            except Exception as e:  # noqa: BLE001
                self.error = common.exc_class(e) + ": " + repr(e)[:160]
                self.lines.append("E")
                self.rlines.append("E")
            i += 1
        if not self.error:
            # the run is over: ONE final export of the in-memory database to a new file, reloaded
            try:
                single = os.path.join(self.dir, "single-final.h5")
                self.db.to_hdf(single, hdf_node_path=self.node)
                self.final_single = self.Database.from_hdf(single, hdf_node_path=self.node, log=False)
            except Exception as e:  # noqa: BLE001
                self.final_single_error = common.exc_class(e) + ": " + repr(e)[:160]
        return self


# --------------------------------------------------------------------------- oracle (property text)


def spec_equal(spec, got) -> bool:
    """Does the Python object `got` hold the value described by `spec` (kind, shape, exact values)?"""
    try:
        if spec["k"] in ("f", "i", "np"):
            if isinstance(got, (np.ndarray, list)):
                return False
            return math.isfinite(float(got)) and F(float(got)) == Fraction(spec["data"][0])
        if not isinstance(got, (np.ndarray, list)):
            return False
        a = np.asarray(got)
        if list(a.shape) != list(spec["shape"]):
            return False
        flat = a.astype(float).ravel().tolist()
        return len(flat) == len(spec["data"]) and all(
            math.isfinite(g) and F(g) == Fraction(s) for g, s in zip(flat, spec["data"])
        )
    except (TypeError, ValueError):
        return False


def _twin(ops, upto: int):
    """Plain twin of the database, from the property text: ordered points, per point the last value
    stored under each name. A point is identified by its VALUES (`pkey`): storing again at an equal
    array of another representation (integer/float dtype, sign of a zero, layout) updates the SAME
    entry, which keeps the representation stored FIRST (a dict keeps its first key). A `reload`
    restarts from the content at the last export. Returns (expected content, canonical ops) where the
    canonical ops name every point by the representation the database holds for it."""
    order: list[tuple] = []
    content: dict[tuple, tuple[dict, dict]] = {}
    snap_order: list[tuple] = []
    snap: dict[tuple, tuple[dict, dict]] = {}
    canon: list[list[Any]] = []
    for op in ops[: upto + 1]:
        if op[0] == "export":
            snap_order = list(order)
            snap = {k: (v[0], dict(v[1])) for k, v in content.items()}
            canon.append(op)
            continue
        if op[0] == "reload":
            order = list(snap_order)
            content = {k: (v[0], dict(v[1])) for k, v in snap.items()}
            canon.append(op)
            continue
        if op[0] == "update":
            for k in snap_order:
                if k not in content:
                    content[k] = (snap[k][0], {})
                    order.append(k)
                content[k][1].update(snap[k][1])
            canon.append(op)
            continue
        key = pkey(op[1])
        if key not in content:
            content[key] = (op[1], {})
            order.append(key)
        content[key][1].update(op[2])
        canon.append(["store", content[key][0], op[2]])
    return [content[k] for k in order], canon


def expected_content(ops, upto: int) -> list[tuple[dict, dict]]:
    return _twin(ops, upto)[0]


def canonical_ops(ops) -> list[list[Any]]:
    """The history with every point named by the representation the database holds for its key."""
    return _twin(ops, len(ops))[1]


def db_matches(expected, db) -> str | None:
    """None when the real database holds exactly the expected content, else a description."""
    items = list(db.items())
    if len(items) != len(expected):
        return f"{len(items)} points instead of {len(expected)}"
    for i, ((pt, outs), (x, got)) in enumerate(zip(expected, items)):
        a = x.wrapped_array
        if (a.dtype.kind in "iu") != pt["int"]:
            return f"point {i}: dtype {a.dtype} (integer expected: {pt['int']}; held as {rep_tok(pt)})"
        if a.ndim != 1 or len(a) != len(pt["xs"]) or not all(
            math.isfinite(float(g)) and F(float(g)) == Fraction(s) for g, s in zip(a.tolist(), pt["xs"])
        ):
            return f"point {i}: coordinates {a.tolist()} instead of {pt['xs']}"
        if a.ndim == 1 and rep_of_array(a) != rep_tok(pt):
            return f"point {i}: held as {rep_of_array(a)} instead of {rep_tok(pt)} (dtype / sign of zeros)"
        if set(got) != set(outs):
            return f"point {i}: output names {sorted(got)} instead of {sorted(outs)}"
        for n, spec in outs.items():
            if not spec_equal(spec, got[n]):
                return f"point {i}: output {n!r} is {got[n]!r}, expected {val_tok(spec)}"
    return None


def single_export_reload(expected, node: str, space_dim: int | None):
    """A fresh database holding the expected content, exported once, reloaded."""
    from gemseo.algos.database import Database

    d = fresh_dir()
    p = os.path.join(d, "single.h5")
    db = Database(input_space=make_space(space_dim)) if space_dim else Database()
    for pt, outs in expected:
        db.store(build_pt(pt), {n: build_val(v) for n, v in outs.items()})
    db.to_hdf(p, hdf_node_path=node)
    out = Database.from_hdf(p, hdf_node_path=node, log=False)
    shutil.rmtree(d, ignore_errors=True)
    return out


def db_oracle(case, run: DbRun, twin: bool = True) -> list[tuple[str, str]]:
    """Property clauses violated by the implementation on this history: [(key, message)]."""
    bad: list[tuple[str, str]] = []
    ops = case["ops"]
    if run.error:
        bad.append(("export-raises", f"an operation of an in-scope history raised {run.error}"))
        return bad
    for idx, msg in run.reload_errors:
        bad.append(("reload-raises", f"Database.from_hdf raised after op {idx}: {msg}"))
    for idx, re in run.reloads:
        exp = expected_content(ops, idx)
        m = db_matches(exp, re)
        if m:
            bad.append(("reload-differs", f"after the export at op {idx} the reloaded database differs from the stored content: {m}"))
            break
    exp = expected_content(ops, len(ops))
    m = db_matches(exp, run.db)
    if m:
        bad.append(("memory-differs", f"the in-memory database differs from the stored content: {m}"))
    if run.final_single_error:
        bad.append(("single-export-raises", f"a single final export of the in-memory database (or its reload) raised {run.final_single_error}"))
    elif run.final_single is not None:
        m = db_matches(exp, run.final_single)
        if m:
            bad.append(("single-final-export-differs", f"a single final export of the in-memory database reloads differently from the stored content: {m}"))
        elif run.reloads and run.reloads[-1][0] == len(ops) - 1 and not bad:
            # the history ends with an export: the incrementally written file and the single final
            # export must reload to the same content, points held in the same representation
            inc = run.reloads[-1][1]
            a = [(rep_of_array(x.wrapped_array), canon_outs(o)) for x, o in inc.items()]
            b = [(rep_of_array(x.wrapped_array), canon_outs(o)) for x, o in run.final_single.items()]
            if a != b:
                bad.append(("incremental-vs-single", f"the incrementally written file reloads to {a} while a single final export of the same database reloads to {b}"))
    if run.reloads and not bad:
        idx, re = run.reloads[-1]
        for k, ok in run.space_equal:
            if not ok:
                bad.append(("input-space-differs", f"after the export at op {k} the reloaded input space differs from the in-memory one"))
                break
        if twin:
            dim = len(exp[0][0]["xs"]) if (exp and case.get("space")) else None
            try:
                single = single_export_reload(expected_content(ops, idx), case["node"], dim)
                if canon_db(single) != canon_db(re):
                    bad.append(("incremental-vs-single", "the incrementally written file reloads differently from a single final export"))
            except Exception as e:  # noqa: BLE001
                bad.append(("single-export-raises", f"single export of the final content raised {common.exc_class(e)}"))
    return bad


# --------------------------------------------------------------------------- comparing with the model


def compare_db(case, run: DbRun, model: list[str]) -> tuple[int, str, str] | None:
    """First disagreement (line index, impl, model) between the run and the model answers.

    model[0] answers `new`; model[k+1] answers op k.
    """
    n = len(case["ops"]) + 1
    for k, impl in enumerate(run.lines):
        if impl == "*":
            continue
        m = model[k + 1]
        if impl != m:
            return (k, impl, m)
    # representation layer: model[n] answers `rnew`, model[n + 1 + k] answers op k
    if len(model) >= 2 * n:
        for k, impl in enumerate(run.rlines):
            if impl == "*":
                continue
            m = model[n + 1 + k]
            if impl != m:
                return (k, "rep " + impl, "rep " + m)
    return None


def neighbours_db(case):
    ops = case["ops"]
    for i in range(len(ops)):
        c = dict(case)
        c["ops"] = ops[:i] + ops[i + 1 :]
        yield c
    for i in range(len(ops)):
        if ops[i][0] == "export":
            c = dict(case)
            c["ops"] = ops[:i] + [ops[i], ops[i]] + ops[i + 1 :]
            yield c
            c = dict(case)
            c["ops"] = ops[: i + 1] + [["reload"]] + ops[i + 1 :]
            yield c
    for node in ("", "n1/n2"):
        if node != case["node"]:
            c = dict(case)
            c["node"] = node
            yield c
    c = dict(case)
    c["ops"] = [*ops, ["export", "a"]]
    yield c


def fix_listener_ops(case):
    """After dropping ops of a listener case the export positions must be recomputed."""
    if case["via"] == "direct":
        return case
    stored: dict[tuple, dict] = {}
    ops = []
    for op in case["ops"]:
        if op[0] != "store":
            continue
        key = pkey(op[1])
        cur = stored.setdefault(key, {})
        new_iter = bool(op[2]) and not cur
        cur.update(op[2])
        ops.append(op)
        if case["via"] == "store_listener" or new_iter:
            ops.append(["export", "a"])
    c = dict(case)
    c["ops"] = ops
    return c


def scope_flags(case) -> list[bool]:
    """Per operation: is it inside the property's quantifier (harness bookkeeping, independent of
    the model's `inScopeB`)? A store must not change an output already present in the file."""
    stored: dict[tuple, dict] = {}
    in_file: dict[tuple, dict] = {}  # what the file holds: point -> name -> value token
    flags = []
    for op in case["ops"]:
        if op[0] == "store":
            key = pkey(op[1])
            cur = stored.setdefault(key, {})
            ok = True
            for n, v in op[2].items():
                if n in in_file.get(key, {}) and val_tok(cur[n]) != val_tok(v):
                    ok = False
            flags.append(ok)
            cur.update(op[2])
        elif op[0] == "reload":
            flags.append(True)
            stored = {k: dict(v) for k, v in in_file.items()}
        elif op[0] == "update":
            flags.append(True)
            for k, v in in_file.items():
                stored.setdefault(k, {}).update(v)
        else:
            flags.append(True)
            if op[1] == "w" or not in_file:
                in_file = {k: dict(v) for k, v in stored.items()}
            else:
                # append: an output already in the file keeps its file value
                for key, cur in stored.items():
                    ent = in_file.setdefault(key, {})
                    for n, v in cur.items():
                        ent.setdefault(n, v)
    return flags


def in_scope_db(case) -> bool:
    """No output already present in the file is overwritten with a different value."""
    return all(scope_flags(case))


def shrink_db(case, key: str):
    def fails(ops):
        c = fix_listener_ops({**case, "ops": ops})
        if not in_scope_db(c):
            return False
        try:
            return any(k == key for k, _ in db_oracle(c, DbRun(c).run(), twin=(key == "incremental-vs-single")))
        except Exception:  # noqa: BLE001
            return False

    if len(case["ops"]) <= 1:
        return case
    ops = common.shrink_list(case["ops"], fails, budget=80)
    c = fix_listener_ops({**case, "ops": ops})
    # drop outputs one at a time
    changed = True
    budget = 60
    while changed and budget > 0:
        changed = False
        for i, op in enumerate(c["ops"]):
            if op[0] != "store":
                continue
            for n in list(op[2]):
                budget -= 1
                outs = {m: v for m, v in op[2].items() if m != n}
                cand_ops = c["ops"][:i] + [["store", op[1], outs]] + c["ops"][i + 1 :]
                if fails(cand_ops):
                    c = fix_listener_ops({**c, "ops": cand_ops})
                    changed = True
                    break
            if changed:
                break
    return c


def check_db_cases(res: Result, cases: list[dict[str, Any]], in_scope: bool, twin_every: int = 1) -> None:
    all_lines: list[str] = []
    spans = []
    for c in cases:
        ls = db_lines(c) + rep_lines(c)
        spans.append((len(all_lines), len(ls)))
        all_lines += ls
    model_all = common.run_lean_driver(PID, all_lines)
    for ci, (case, (start, n)) in enumerate(zip(cases, spans)):
        model = model_all[start : start + n]
        res.evaluations += 1
        run = DbRun(case).run()
        ops = case["ops"]
        n_store = sum(1 for o in ops if o[0] == "store")
        n_exp = sum(1 for o in ops if o[0] == "export")
        if any(o[0] == "reload" for o in ops):
            res.count("db:has-reload")
        for flag in ("alias_x", "hashable", "pathlib"):
            if case.get(flag):
                res.count("db:" + flag)
        res.count(f"db:ops={min(len(ops) // 5 * 5, 25)}+")
        res.count(f"db:via={case['via']}")
        res.count("db:node=" + ("root" if not case["node"] else "nested"))
        res.count(f"db:exports={min(n_exp, 6)}")
        n_pts = len({pkey(o[1]) for o in ops if o[0] == "store"})
        res.count("db:points>=11" if n_pts >= 11 else "db:points<11")
        if any(o[0] == "export" and o[1] == "w" for o in ops):
            res.count("db:has-fresh-export")
        if in_scope:
            res.count("db:in-scope")
        else:
            res.count("db:probe")
        appended = _append_branches(case)
        for b in appended:
            res.count("db:branch=" + b)
        if n_exp >= 2 and n_store >= 2:
            res.nontrivial("db:" + " / ".join(db_lines(case)[1:]))
        res.sample({"case": "db", "protocol": db_lines(case)[:6], "impl_last": run.lines[-1] if run.lines else None, "model_last": model[len(case["ops"])], "rep_impl_last": run.rlines[-1] if run.rlines else None, "rep_model_last": model[-1]})
        bad = db_oracle(case, run, twin=(ci % twin_every == 0)) if in_scope else []
        for key, msg in bad:
            res.count("db:oracle-fail:" + key)
            if any(v.key == key and v.kind == "oracle" for v in res.violations):
                continue
            small = shrink_db(case, key)
            res.violate("oracle", key, msg, {"case": small, "impl_lines": DbRun(small).run().lines, "found_on": db_lines(case)})
        dis = compare_db(case, run, model)
        shutil.rmtree(run.dir, ignore_errors=True)
        if dis is None:
            res.traces_validated += 1
            continue
        res.disagreements += 1
        k, impl, m = dis
        if not in_scope:
            res.count("db:probe-disagreement")
            res.notes.append(f"out-of-scope probe disagreement at op {k}: impl={impl[:200]} model={m[:200]}")
            continue
        found = bool(bad) or any(v.kind == "oracle" for v in res.violations)
        searches = res.extra.setdefault("failing_input_searches", 0)
        if not found and searches >= 4:
            found = any(v.kind == "correspondence" for v in res.violations)
        if not found:
            res.extra["failing_input_searches"] = searches + 1
            for nb in neighbours_db(case):
                nb = fix_listener_ops(nb)
                if not in_scope_db(nb):
                    continue
                r2 = DbRun(nb).run()
                b2 = db_oracle(nb, r2)
                shutil.rmtree(r2.dir, ignore_errors=True)
                if b2:
                    key, msg = b2[0]
                    res.violate("oracle", key, msg, {"case": shrink_db(nb, key)})
                    found = True
                    break
        if not found:
            res.violate(
                "correspondence",
                "db-model-vs-impl",
                f"implementation and Lean model disagree after op {k} of a store/export history (no property-violating input found among its neighbours)",
                {"case": case, "op_index": k, "protocol_lines": db_lines(case) + rep_lines(case), "impl": impl, "model": m,
                 "correspondence": "Driver/C11.lean store/export state line"},
            )


def _rep_change(first, pt) -> str | None:
    """How the array passed by a store differs from the representation the database holds."""
    if pt.get("view"):
        return "strided-view" if rep_tok(first) == rep_tok(pt) else "strided-view+other"
    if rep_tok(first) == rep_tok(pt):
        return None
    if first["int"] != pt["int"]:
        base = "int-then-float" if first["int"] else "float-then-int"
        return base + ("+negative-zero" if pt.get("nz") else "")
    if first["int"]:
        return "int-width"
    return "sign-of-zero"


def _append_branches(case) -> set:
    """Which branches of the append path the history exercises (for the evidence histogram)."""
    out = set()
    stored: dict[tuple, dict] = {}
    exported: dict[tuple, set] = {}
    first: dict[tuple, dict] = {}  # representation held by the database
    other: dict[tuple, set] = {}  # other representations passed since the last export
    have = False
    for op in case["ops"]:
        if op[0] == "store":
            key = pkey(op[1])
            stored.setdefault(key, {}).update(op[2])
            ch = _rep_change(first.setdefault(key, op[1]), op[1])
            if ch:
                out.add("rep:" + ch)
                other.setdefault(key, set()).add(ch)
            continue
        if op[0] == "reload":
            stored = {k: {n: v for n, v in stored[k].items() if n in exported[k]} for k in exported}
            first = {k: first[k] for k in exported}
            other = {}
            out.add("append-after-reload")
            continue
        if op[0] == "update":
            out.add("update-from-file-on-current-database")
            continue
        if op[1] == "a" and have and exported:
            for key, cur in stored.items():
                if key not in exported:
                    out.add("append-new-point")
                    if other.get(key):
                        out.add("append-new-point-stored-through-several-representations")
                else:
                    new = set(cur) - exported[key]
                    if new:
                        out.add("append-new-outputs")
                        if other.get(key):
                            out.add("append-new-outputs-stored-through-another-representation")
                        kinds = {("s" if cur[n]["k"] in ("f", "i", "np") else "a") for n in new}
                        out.add("append-new-" + "+".join(sorted(kinds)))
                        if len(cur) > 10:
                            out.add("append-position>=10")
                        if not exported[key]:
                            out.add("append-to-empty-entry")
        elif op[1] == "w":
            out.add("fresh")
        else:
            out.add("first-or-empty-file-export")
        if other:
            out.add("export-after-store-through-another-representation")
        other = {}
        have = True
        for key, cur in stored.items():
            exported[key] = set(cur)
    return out


DS_NAMES = ["x", "y", "x_1", "x_shared", "alpha", "x10", "x1", "yy", "z", "Mach", "X", "_t", "name2", "v_1_2"]


def gen_ds_case(rng, exact: bool = True) -> dict[str, Any]:
    n = rng.pick([1, 1, 2, 2, 3, 4, 5])
    vs = []
    for name in rng.sample(DS_NAMES, n):
        size = rng.pick([1, 1, 1, 2, 3, 4])
        is_int = rng.chance(0.35)
        lb, ub, val = [], [], []
        for _ in range(size):
            if is_int:
                lo = None if rng.chance(0.3) else Fraction(rng.randint(-8, 0))
                hi = None if rng.chance(0.3) else Fraction(rng.randint(1, 9))
            else:
                lo = None if rng.chance(0.3) else Fraction(rng.randint(-64, 0), rng.pick([1, 2, 8]))
                hi = None if rng.chance(0.3) else Fraction(rng.randint(1, 64), rng.pick([1, 2, 8]))
            a = lo if lo is not None else Fraction(-16)
            b = hi if hi is not None else Fraction(16)
            if is_int:
                v = Fraction(rng.randint(math.ceil(a), math.floor(b)))
            else:
                v = rng.pick([a, b, (a + b) / 2, a + (b - a) * Fraction(rng.randint(0, 256), 256)])
                if not exact and rng.chance(0.7):
                    v = Fraction(float(a) + (float(b) - float(a)) * rng.random())
            lb.append(None if lo is None else rat(lo))
            ub.append(None if hi is None else rat(hi))
            val.append(rat(v))
        vs.append({"name": name, "size": size, "int": is_int, "lb": lb, "ub": ub, "value": val if rng.chance(0.7) else None})
    return {"kind": "ds", "node": rng.pick(["", "", "grp", "a/b"]), "vars": vs, "exact": exact}


def ds_line(case) -> str:
    def ol(l):
        return ",".join("_" if t is None else t for t in l) if l else "[]"

    parts = []
    for v in case["vars"]:
        parts.append(
            ":".join([v["name"], str(v["size"]), "i" if v["int"] else "f", ol(v["lb"]), ol(v["ub"]),
                      "N" if v["value"] is None else ",".join(v["value"])])
        )
    return "ds " + ";".join(parts)


def build_ds(case):
    from gemseo.algos.design_space import DesignSpace

    ds = DesignSpace()
    for v in case["vars"]:
        lb = np.array([-np.inf if t is None else float(Fraction(t)) for t in v["lb"]])
        ub = np.array([np.inf if t is None else float(Fraction(t)) for t in v["ub"]])
        kw = {}
        if v["value"] is not None:
            kw["value"] = np.array([float(Fraction(t)) for t in v["value"]])
        ds.add_variable(v["name"], size=v["size"], type_="integer" if v["int"] else "float", lower_bound=lb, upper_bound=ub, **kw)
    return ds


def canon_ds(ds) -> str:
    """Canonical form of a real design space through its public API."""
    parts = []
    for name in ds.variable_names:
        size = ds.get_size(name)
        typ = str(ds.get_type(name))
        lb = ds.get_lower_bound(name)
        ub = ds.get_upper_bound(name)
        lbs = ",".join("_" if not math.isfinite(t) else rat(t) for t in np.asarray(lb, dtype=float).tolist())
        ubs = ",".join("_" if not math.isfinite(t) else rat(t) for t in np.asarray(ub, dtype=float).tolist())
        if ds.has_current_value and name in ds.get_current_value(as_dict=True):
            cv = ds.get_current_value([name])
        else:
            cv = _cur(ds, name)
        vs = "N" if cv is None else ",".join(rat(t) for t in np.asarray(cv, dtype=float).tolist())
        parts.append(":".join([name, str(size), "i" if typ == "integer" else "f", lbs, ubs, vs]))
    return ";".join(parts) if parts else "-"


def _cur(ds, name):
    try:
        d = ds.get_current_value([name], as_dict=True)
        return d.get(name)
    except Exception:  # noqa: BLE001
        return None


def ds_observe(case) -> dict[str, Any]:
    from gemseo.algos.design_space import DesignSpace

    d = fresh_dir()
    obs: dict[str, Any] = {}
    try:
        ds = build_ds(case)
        obs["orig"] = canon_ds(ds)
        node = case["node"]
        p = os.path.join(d, "ds.h5")
        try:
            ds.to_hdf(p, hdf_node_path=node)
            r1 = DesignSpace.from_hdf(p, hdf_node_path=node)
            r2 = DesignSpace.from_file(p, hdf_node_path=node)
            obs["hdf"] = canon_ds(r1)
            obs["hdf_file"] = canon_ds(r2)
            # the generic entry points: to_file/from_file on an HDF path, same node
            p2 = os.path.join(d, "ds2.hdf5")
            try:
                if node:
                    ds.to_file(p2, hdf_node_path=node)
                else:
                    ds.to_file(p2)
                obs["hdf_to_file"] = canon_ds(DesignSpace.from_file(p2, hdf_node_path=node))
            except Exception as e:  # noqa: BLE001
                obs["hdf_to_file"] = "E:" + common.exc_class(e)
            obs["hdf_eq"] = bool(r1 == ds)
            obs["hdf_obj"] = r1
        except Exception as e:  # noqa: BLE001
            obs["hdf"] = "E"
            obs["hdf_exc"] = common.exc_class(e) + ": " + repr(e)[:120]
        p = os.path.join(d, "ds.csv")
        try:
            ds.to_csv(p)
            r1 = DesignSpace.from_csv(p)
            r2 = DesignSpace.from_file(p)
            obs["csv"] = canon_ds(r1)
            obs["csv_file"] = canon_ds(r2)
            obs["csv_obj"] = r1
            # documented options: a commented header + `header=`, and a permutation of the fields
            p3 = os.path.join(d, "ds_h.csv")
            try:
                ds.to_csv(p3, header_char="# ")
                obs["csv_header"] = canon_ds(DesignSpace.from_csv(p3, header=list(DesignSpace.TABLE_NAMES)))
            except Exception as e:  # noqa: BLE001
                obs["csv_header"] = "E:" + common.exc_class(e)
            p4 = os.path.join(d, "ds_p.csv")
            try:
                ds.to_csv(p4, fields=["name", "upper_bound", "type", "value", "lower_bound"])
                obs["csv_perm"] = canon_ds(DesignSpace.from_csv(p4))
            except Exception as e:  # noqa: BLE001
                obs["csv_perm"] = "E:" + common.exc_class(e)
        except Exception as e:  # noqa: BLE001
            obs["csv"] = "E"
            obs["csv_exc"] = common.exc_class(e) + ": " + repr(e)[:120]
    finally:
        shutil.rmtree(d, ignore_errors=True)
    return obs


def _sig16(x: float) -> float:
    return float(f"{x:.16g}")


def ds_spec_matches(case, ds, digits16: bool) -> str | None:
    """Independent comparison of a reloaded design space with the generated specification."""
    names = list(ds.variable_names)
    want = [v["name"] for v in case["vars"]]
    if names != want:
        return f"variable names {names} instead of {want}"
    for v in case["vars"]:
        n = v["name"]
        if ds.get_size(n) != v["size"]:
            return f"{n}: size {ds.get_size(n)} instead of {v['size']}"
        if (str(ds.get_type(n)) == "integer") != v["int"]:
            return f"{n}: type {ds.get_type(n)}"
        for label, got, spec, inf in (
            ("lower bound", ds.get_lower_bound(n), v["lb"], -math.inf),
            ("upper bound", ds.get_upper_bound(n), v["ub"], math.inf),
        ):
            got = np.asarray(got, dtype=float).tolist()
            if len(got) != len(spec):
                return f"{n}: {label} has {len(got)} components"
            for g, s in zip(got, spec):
                w = inf if s is None else float(Fraction(s))
                ok = (g == w) if not digits16 or not math.isfinite(w) else (_sig16(g) == _sig16(w))
                if not ok:
                    return f"{n}: {label} {g!r} instead of {w!r}"
        cv = _cur(ds, n)
        if v["value"] is None:
            if cv is not None:
                return f"{n}: current value {cv!r} although none was set"
        else:
            if cv is None:
                return f"{n}: current value lost"
            got = np.asarray(cv, dtype=float).tolist()
            if len(got) != len(v["value"]):
                return f"{n}: current value has {len(got)} components"
            for g, s in zip(got, v["value"]):
                w = float(Fraction(s))
                ok = math.isfinite(g) and ((g == w) if not digits16 else (_sig16(g) == _sig16(w)))
                if not ok:
                    return f"{n}: current value {g!r} instead of {w!r}"
            if v["int"] and np.asarray(cv).dtype.kind not in "iu":
                return f"{n}: current value of an integer variable has dtype {np.asarray(cv).dtype}"
    return None


def ds_oracle(case, obs) -> list[tuple[str, str]]:
    bad = []
    if obs.get("hdf") == "E":
        bad.append(("ds-hdf-raises", f"design space HDF round trip raised {obs.get('hdf_exc')}"))
    else:
        m = ds_spec_matches(case, obs["hdf_obj"], digits16=False)
        if m:
            bad.append(("ds-hdf-differs", "design space reloaded from HDF differs: " + m))
        elif not obs["hdf_eq"]:
            bad.append(("ds-hdf-differs", "design space reloaded from HDF is not == the original"))
        if obs["hdf_file"] != obs["hdf"]:
            bad.append(("ds-from-file-differs", "DesignSpace.from_file and from_hdf disagree"))
        if obs["hdf_to_file"] != obs["hdf"]:
            bad.append(("ds-to-file-differs", f"DesignSpace.to_file/from_file on an HDF path (node {case['node']!r}) gives {obs['hdf_to_file'][:80]} instead of the to_hdf/from_hdf result"))
    if obs.get("csv") == "E":
        bad.append(("ds-csv-raises", f"design space text round trip raised {obs.get('csv_exc')}"))
    else:
        m = ds_spec_matches(case, obs["csv_obj"], digits16=True)
        if m:
            bad.append(("ds-csv-differs", "design space reloaded from text differs: " + m))
        if obs["csv_file"] != obs["csv"]:
            bad.append(("ds-from-file-differs", "DesignSpace.from_file and from_csv disagree"))
        if obs["csv_header"] != obs["csv"]:
            bad.append(("ds-csv-header-option", f"to_csv(header_char='# ') + from_csv(header=TABLE_NAMES) gives {obs['csv_header'][:80]} instead of the plain text round trip"))
        if obs["csv_perm"] != obs["csv"]:
            bad.append(("ds-csv-fields-order", f"to_csv with permuted fields + from_csv gives {obs['csv_perm'][:80]} instead of the plain text round trip"))
    return bad


def shrink_ds(case, key):
    def fails(vs):
        c = {**case, "vars": vs}
        try:
            return any(k == key for k, _ in ds_oracle(c, ds_observe(c)))
        except Exception:  # noqa: BLE001
            return False

    if len(case["vars"]) <= 1:
        return case
    return {**case, "vars": common.shrink_list(case["vars"], fails, budget=30)}


def check_ds_cases(res: Result, cases) -> None:
    exact = [c for c in cases if c["exact"]]
    model = dict(zip((id(c) for c in exact), common.run_lean_driver(PID, [ds_line(c) for c in exact])))
    for case in cases:
        res.evaluations += 1
        obs = ds_observe(case)
        res.count("ds:" + ("exact" if case["exact"] else "rounded"))
        res.count(f"ds:nvars={len(case['vars'])}")
        res.count("ds:node=" + ("root" if not case["node"] else "nested"))
        if any(v["value"] is None for v in case["vars"]):
            res.count("ds:missing-value")
        if any(t is None for v in case["vars"] for t in v["lb"] + v["ub"]):
            res.count("ds:infinite-bound")
        if any(v["int"] for v in case["vars"]):
            res.count("ds:integer")
        if len(case["vars"]) >= 2:
            res.nontrivial(ds_line(case))
        bad = ds_oracle(case, obs)
        for key, msg in bad:
            if not any(v.key == key and v.kind == "oracle" for v in res.violations):
                res.violate("oracle", key, msg, {"case": shrink_ds(case, key)})
        if not case["exact"]:
            continue
        impl = f"hdf={obs.get('hdf')} csv={obs.get('csv')}"
        m = model[id(case)]
        res.sample({"case": "ds", "protocol": ds_line(case), "impl": impl, "model": m})
        if impl == m:
            res.traces_validated += 1
        else:
            res.disagreements += 1
            if not bad:
                found = False
                for i in range(len(case["vars"])):
                    nb = {**case, "vars": case["vars"][:i] + case["vars"][i + 1 :]}
                    if not nb["vars"]:
                        continue
                    b2 = ds_oracle(nb, ds_observe(nb))
                    if b2:
                        res.violate("oracle", b2[0][0], b2[0][1], {"case": nb})
                        found = True
                        break
                if not found:
                    res.violate("correspondence", "ds-model-vs-impl", "design-space round trip differs from the Lean model of the file formats",
                                {"case": case, "protocol_line": ds_line(case), "impl": impl, "model": m,
                                 "correspondence": "Driver/C11.lean `ds`"})


# =========================================================================== optimization-problem cases
# case = {"kind": "pb", "node": str, "append": bool, "minimize": bool, "dim": int, "two_vars": bool,
#         "cstr": [{"name", "type": "eq"|"ineq", "value": rat, "positive": bool, "k": int}], "obs": [names],
#         "run": None | {"algo": str, "max_iter": int}, "diff": str}

PB_CSTR_NAMES = ["g", "c_1", "a", "zz", "h10", "h2", "B", "cstr"]


def gen_pb_case(rng) -> dict[str, Any]:
    n_c = rng.pick([0, 1, 2, 2, 3, 4])
    names = rng.sample(PB_CSTR_NAMES, n_c)
    cstr = []
    for k, n in enumerate(names):
        cstr.append({"name": n, "type": rng.pick(["eq", "ineq", "ineq"]), "value": rat(rng.pick([Fraction(0), Fraction(1, 2), Fraction(-1, 4)])),
                     "positive": rng.chance(0.3), "k": k})
    return {
        "kind": "pb",
        "node": rng.pick(["", "", "node", "a/b"]),
        "append": rng.chance(0.3),
        "minimize": rng.chance(0.7),
        "dim": rng.pick([1, 2, 3]),
        "two_vars": rng.chance(0.5),
        "cstr": cstr,
        "obs": rng.sample(["obs", "o_2", "Aa"], rng.pick([0, 0, 1, 2])),
        "run": None if rng.chance(0.25) else {"algo": rng.pick(["SLSQP", "SLSQP", "PYDOE_FULLFACT", "L-BFGS-B"]), "max_iter": rng.randint(1, 7)},
        "diff": rng.pick(["user", "user", "finite_differences"]),
        # second stage: more evaluations recorded after a first save, then `to_hdf(append=True)` again
        "stage2": None if rng.chance(0.6) else [
            [[rat(Fraction(rng.randint(-16, 16), 8)) for _ in range(4)], rng.pick([["f"], ["f", "@f"], ["extra"], []])]
            for _ in range(rng.randint(1, 4))
        ],
        "final_overwrite": rng.chance(0.25),  # a last to_hdf(append=False) on the same path
        "sibling": rng.chance(0.3),  # another problem saved afterwards in another node of the same file
        "tols": None if rng.chance(0.4) else [rat(rng.pick([Fraction(1, 8), Fraction(1, 1024), Fraction(0)])),
                                              rat(rng.pick([Fraction(1, 4), Fraction(1, 4096), Fraction(0)]))],
    }


def build_problem(case):
    from gemseo.algos.design_space import DesignSpace
    from gemseo.algos.optimization_problem import OptimizationProblem
    from gemseo.core.mdo_functions.mdo_function import MDOFunction

    ds = DesignSpace()
    ds.add_variable("x", size=case["dim"], lower_bound=-2.0, upper_bound=2.0, value=np.full(case["dim"], 0.5))
    if case["two_vars"]:
        ds.add_variable("y_long", size=1, lower_bound=-1.0, upper_bound=3.0, value=0.25)
    pb = OptimizationProblem(ds)
    pb.differentiation_method = case["diff"]
    names = list(ds.variable_names)
    pb.objective = MDOFunction(lambda x: float(np.sum((x - 0.25) ** 2)), "f", jac=lambda x: 2 * (x - 0.25),
                               expr="sum((x-0.25)**2)", input_names=names, dim=1)
    for c in case["cstr"]:
        k = c["k"] % ds.dimension
        fn = MDOFunction(lambda x, k=k: np.array([x[k] - 0.125 * k]), c["name"],
                         jac=lambda x, k=k: np.eye(1, len(x), k), expr=f"x[{k}]-{0.125 * k}", input_names=names, dim=1)
        pb.add_constraint(fn, value=float(Fraction(c["value"])), positive=c["positive"],
                          constraint_type=MDOFunction.ConstraintType.EQ if c["type"] == "eq" else MDOFunction.ConstraintType.INEQ)
    for o in case["obs"]:
        pb.add_observable(MDOFunction(lambda x: np.array([2.0 * x[0]]), o, expr="2*x[0]", input_names=names, dim=1))
    if not case["minimize"]:
        pb.minimize_objective = False
    if case.get("tols"):
        pb.tolerances.equality = float(Fraction(case["tols"][0]))
        pb.tolerances.inequality = float(Fraction(case["tols"][1]))
    return pb


def _plain(v):
    if hasattr(v, "toarray") and hasattr(v, "tocsr"):
        return ["sparse", _plain(np.asarray(v.toarray()))]
    if isinstance(v, np.ndarray) and v.dtype.kind in "US":
        return ["str", list(v.shape), [str(t) for t in v.ravel().tolist()]]
    if isinstance(v, np.ndarray):
        return ["nd", list(v.shape), [repr(float(t)) for t in np.real(v).astype(float).ravel().tolist()]]
    if isinstance(v, (np.floating, float)):
        return repr(float(v))
    if isinstance(v, (np.integer, int)) and not isinstance(v, bool):
        return int(v)
    if isinstance(v, (np.bool_, bool)):
        return bool(v)
    if isinstance(v, dict):
        return {str(k): _plain(w) for k, w in v.items()}
    if isinstance(v, (list, tuple)):
        return [_plain(w) for w in v]
    if isinstance(v, bytes):
        return v.decode()
    return None if v is None else str(v)


def func_desc(f) -> dict[str, Any]:
    return {k: _plain(getattr(f, k, None)) for k in ("name", "f_type", "expr", "input_names", "dim", "special_repr", "output_names")}


SOLUTION_FIELDS = ("x_0", "x_0_as_dict", "x_opt", "x_opt_as_dict", "f_opt", "objective_name", "status", "optimizer_name",
                   "message", "n_obj_call", "n_grad_call", "n_constr_call", "is_feasible", "optimum_index",
                   "constraint_values", "constraints_grad")


def _norm_sol(field: str, v):
    """`constraint_values`/`constraints_grad`: a mapping without any value carries the same
    information as None (None entries are not written to the file)."""
    if field in ("constraint_values", "constraints_grad"):
        if isinstance(v, dict):
            v = {k: w for k, w in v.items() if w is not None}
        return v or None
    return v


def pb_desc(pb) -> dict[str, Any]:
    sol = pb.solution
    return {
        "objective": func_desc(pb.objective),
        "constraints": [func_desc(c) for c in pb.constraints],
        "observables": [func_desc(c) for c in pb.observables],
        "minimize_objective": bool(pb.minimize_objective),
        "solution": None if sol is None else {k: _norm_sol(k, _plain(getattr(sol, k, None))) for k in SOLUTION_FIELDS},
        "database": canon_db(pb.database),
        "design_space": canon_ds(pb.design_space),
        "extra": {"tolerances": [repr(float(pb.tolerances.equality)), repr(float(pb.tolerances.inequality))],
                  "differentiation_method": str(pb.differentiation_method),
                  "differentiation_step": repr(float(pb.differentiation_step))},
    }


def pb_observe(case) -> dict[str, Any]:
    from gemseo import execute_algo
    from gemseo.algos.optimization_problem import OptimizationProblem

    d = fresh_dir()
    obs: dict[str, Any] = {}
    try:
        pb = build_problem(case)
        if case["run"]:
            algo = case["run"]["algo"]
            try:
                if algo == "PYDOE_FULLFACT":
                    execute_algo(pb, algo_name=algo, algo_type="doe", n_samples=case["run"]["max_iter"] + 1)
                else:
                    execute_algo(pb, algo_name=algo, max_iter=case["run"]["max_iter"])
            except Exception as e:  # noqa: BLE001
                obs["run_exc"] = common.exc_class(e)
        p = os.path.join(d, "pb.h5")
        try:
            pb.to_hdf(p, append=case["append"] or bool(case.get("stage2")), hdf_node_path=case["node"])
            if case.get("stage2"):
                n = pb.design_space.dimension
                last = pb.database.get_x_vect(len(pb.database)) if len(pb.database) else None
                for k, (xs, names) in enumerate(case["stage2"]):
                    x = last if (k == 0 and last is not None) else np.array([float(Fraction(t)) for t in xs[:n]] + [0.0] * max(0, n - 4))
                    outs = {}
                    for nm in names:
                        if nm in pb.database.get(x, {}) if pb.database.get(x) else False:
                            continue
                        outs[nm] = np.array([1.0 + k, 2.0] if nm.startswith("@") else [0.5 * k]) if nm != "f" else float(k)
                    pb.database.store(x, outs)
                pb.to_hdf(p, append=True, hdf_node_path=case["node"])
            if case.get("final_overwrite"):
                pb.to_hdf(Path(p), hdf_node_path=case["node"])
            if case.get("sibling"):
                other = build_problem({**case, "dim": case["dim"] % 3 + 1, "two_vars": not case["two_vars"], "cstr": [], "obs": [],
                                       "minimize": True, "tols": None})
                execute_algo(other, algo_name="SLSQP", max_iter=2)
                other.to_hdf(p, append=True, hdf_node_path="sibling_" + (case["node"].replace("/", "_") or "root"))
            obs["orig"] = pb_desc(pb)
            pb2 = OptimizationProblem.from_hdf(p, hdf_node_path=case["node"])
            obs["back"] = pb_desc(pb2)
        except Exception as e:  # noqa: BLE001
            obs["exc"] = common.exc_class(e) + ": " + repr(e)[:160]
    finally:
        shutil.rmtree(d, ignore_errors=True)
    return obs


def pb_oracle(case, obs) -> list[tuple[str, str]]:
    bad = []
    if "exc" in obs:
        return [("pb-roundtrip-raises", f"problem to_hdf/from_hdf raised {obs['exc']}")]
    a, b = obs["orig"], obs["back"]
    if a["objective"] != b["objective"]:
        bad.append(("pb-objective-differs", f"objective description {b['objective']} instead of {a['objective']}"))
    for grp in ("constraints", "observables"):
        da = {f["name"]: f for f in a[grp]}
        dbb = {f["name"]: f for f in b[grp]}
        if da != dbb:
            bad.append((f"pb-{grp}-differ", f"{grp} descriptions differ: {sorted(dbb)} vs {sorted(da)}"))
        elif [f["name"] for f in a[grp]] != [f["name"] for f in b[grp]]:
            bad.append((f"pb-{grp}-order", f"{grp} reloaded in order {[f['name'] for f in b[grp]]} instead of {[f['name'] for f in a[grp]]}"))
    if a["minimize_objective"] != b["minimize_objective"]:
        bad.append(("pb-minimize-differs", "minimize_objective flag differs"))
    if (a["solution"] is None) != (b["solution"] is None):
        bad.append(("pb-solution-presence", "solution present on one side only"))
    elif a["solution"] is not None:
        for k in SOLUTION_FIELDS:
            if a["solution"][k] != b["solution"][k]:
                bad.append(("pb-solution-" + k, f"solution field {k}: {b['solution'][k]!r} instead of {a['solution'][k]!r}"))
                break
    if a["extra"]["tolerances"] != b["extra"]["tolerances"]:
        bad.append(("pb-tolerances-differ", f"constraint tolerances (equality, inequality) {b['extra']['tolerances']} instead of {a['extra']['tolerances']}"))
    if a["database"] != b["database"]:
        bad.append(("pb-database-differs", "the database of the reloaded problem differs"))
    if a["design_space"] != b["design_space"]:
        bad.append(("pb-design-space-differs", f"design space {b['design_space']} instead of {a['design_space']}"))
    return bad


def check_pb_cases(res: Result, cases) -> None:
    for case in cases:
        res.evaluations += 1
        obs = pb_observe(case)
        res.count("pb:node=" + ("root" if not case["node"] else "nested"))
        res.count("pb:run=" + (case["run"]["algo"] if case["run"] else "none"))
        res.count(f"pb:ncstr={len(case['cstr'])}")
        if case.get("stage2"):
            res.count("pb:two-stage-append")
        if case.get("sibling"):
            res.count("pb:second-problem-in-same-file")
        if case.get("final_overwrite"):
            res.count("pb:final-overwrite")
        if "orig" in obs and obs["orig"]["solution"] is not None:
            res.count("pb:with-solution")
        if case["run"] and len(case["cstr"]) >= 1:
            res.nontrivial("pb:" + json.dumps(case, sort_keys=True))
        res.sample({"case": "pb", "spec": case})
        if "orig" in obs and "back" in obs and obs["orig"]["extra"] != obs["back"]["extra"]:
            res.count("pb:info-differentiation-attributes-differ(not in the property statement)")
        for key, msg in pb_oracle(case, obs):
            if not any(v.key == key and v.kind == "oracle" for v in res.violations):
                res.violate("oracle", key, msg, {"case": shrink_pb(case, key)})


def shrink_pb(case, key):
    def fails(c):
        try:
            return any(k == key for k, _ in pb_oracle(c, pb_observe(c)))
        except Exception:  # noqa: BLE001
            return False

    cur = case
    for k, v in (("obs", []), ("two_vars", False), ("dim", 1), ("append", False), ("minimize", True), ("diff", "user"), ("tols", None), ("stage2", None), ("final_overwrite", False), ("sibling", False)):
        if cur.get(k) != v and fails({**cur, k: v}):
            cur = {**cur, k: v}
    if len(cur["cstr"]) > 1:
        cur = {**cur, "cstr": common.shrink_list(cur["cstr"], lambda cs: fails({**cur, "cstr": cs}), budget=12)}
    if cur["run"] and fails({**cur, "run": None}):
        cur = {**cur, "run": None}
    elif cur["run"] and fails({**cur, "run": {**cur["run"], "max_iter": 1}}):
        cur = {**cur, "run": {**cur["run"], "max_iter": 1}}
    return cur


# =========================================================================== HDF5 cache cases
# case = {"kind": "cache", "nodes": [str], "tol": rat, "ops": [["out"|"jac", node_i, x, y, val] | ["reopen", node_i]]}


def gen_cache_case(rng) -> dict[str, Any]:
    nodes = rng.pick([["node"], ["a/b"], ["n1", "n2"], ["n1", "g/n2"]])
    ops = []
    big = rng.chance(0.35)  # more than 9 entries: HDF5 lists "10" before "2"
    for _ in range(rng.pick([14, 18, 24, 30]) if big else rng.pick([1, 2, 4, 6, 9, 12])):
        ni = rng.randrange(len(nodes))
        r = rng.random()
        x = rng.randint(0, 7 if big else 3)
        y = rng.randint(0, 1)
        if r < 0.5:
            ops.append(["out", ni, x, y, rng.randint(-8, 8)])
        elif r < 0.85:
            ops.append(["jac", ni, x, y, rng.randint(-8, 8)])
        else:
            ops.append(["reopen", ni])
    return {"kind": "cache", "nodes": nodes, "ops": ops, "names": rng.pick([["x", "y"], ["x_long", "B"], ["b", "a"]]),
            "sparse": rng.chance(0.3), "strings": rng.chance(0.3)}


def _cache_entries(cache) -> list:
    out = []
    if not len(cache):
        return out
    for e in cache.get_all_entries():
        jac = e.jacobian or {}
        out.append(
            (
                tuple(sorted((k, _plain(v).__repr__()) for k, v in e.inputs.items())),
                tuple(sorted((k, _plain(v).__repr__()) for k, v in (e.outputs or {}).items())),
                tuple(sorted((o, i, _plain(v).__repr__()) for o, d in jac.items() for i, v in d.items())),
            )
        )
    return out


def cache_observe(case) -> dict[str, Any]:
    from gemseo.caches.hdf5_cache import HDF5Cache

    d = fresh_dir()
    p = os.path.join(d, "cache.h5")
    nx, ny = case["names"]
    obs: dict[str, Any] = {"bad": []}
    try:
        caches = [HDF5Cache(hdf_file_path=p, hdf_node_path=n) for n in case["nodes"]]
        def mk_inp(x, y):
            inp = {nx: np.array([float(x), 1.0]), ny: np.array([y])}
            if case.get("strings"):
                inp["tag"] = np.array(["ab", "c"])
            return inp

        def mk_jac(val):
            j = np.array([[val / 2, 0.0]])
            if case.get("sparse"):
                from scipy.sparse import csr_array

                return csr_array(j)
            return j

        # plain twin: per node, ordered entries {inputs -> (outputs, jac)}; first write of a group wins
        twin: list[dict] = [dict() for _ in case["nodes"]]
        for k, op in enumerate(case["ops"]):
            if op[0] == "reopen":
                ni = op[1]
                before = _cache_entries(caches[ni])
                re = HDF5Cache(hdf_file_path=p, hdf_node_path=case["nodes"][ni])
                after = _cache_entries(re)
                if before != after or len(re) != len(caches[ni]):
                    obs["bad"].append(("cache-reopen-differs", f"after op {k} the cache re-instantiated on node {case['nodes'][ni]!r} lists different entries"))
                caches[ni] = re
                continue
            _, ni, x, y, val = op
            inp = mk_inp(x, y)
            key = (x, y)
            ent = twin[ni].setdefault(key, {"out": None, "jac": None})
            if op[0] == "out":
                caches[ni].cache_outputs(inp, {"o": np.array([val / 4]), "m": np.array([[1.0, val], [0.5, 2.0]])})
                if ent["out"] is None:
                    ent["out"] = val
            else:
                caches[ni].cache_jacobian(inp, {"o": {nx: mk_jac(val)}})
                if ent["jac"] is None:
                    ent["jac"] = val
        for ni, node in enumerate(case["nodes"]):
            re = HDF5Cache(hdf_file_path=p, hdf_node_path=node)
            live = _cache_entries(caches[ni])
            back = _cache_entries(re)
            if live != back or len(re) != len(caches[ni]):
                obs["bad"].append(("cache-reopen-differs", f"the cache re-instantiated on node {node!r} lists different entries"))
            # against the twin
            exp = []
            for (x, y), ent in twin[ni].items():
                inputs = tuple(sorted((k, _plain(v).__repr__()) for k, v in mk_inp(x, y).items()))
                outs = () if ent["out"] is None else tuple(sorted([
                    ("o", _plain(np.array([ent["out"] / 4])).__repr__()),
                    ("m", _plain(np.array([[1.0, ent["out"]], [0.5, 2.0]])).__repr__())]))
                jac = () if ent["jac"] is None else (("o", nx, _plain(mk_jac(ent["jac"])).__repr__()),)
                exp.append((inputs, outs, jac))
            if back != exp:
                obs["bad"].append(("cache-reopen-content", f"node {node!r}: reopened entries differ from what was cached"))
    except Exception as e:  # noqa: BLE001
        obs["bad"].append(("cache-raises", "HDF5Cache raised " + common.exc_class(e) + ": " + repr(e)[:120]))
    finally:
        shutil.rmtree(d, ignore_errors=True)
    return obs


def check_cache_cases(res: Result, cases) -> None:
    for case in cases:
        res.evaluations += 1
        obs = cache_observe(case)
        res.count(f"cache:nodes={len(case['nodes'])}")
        if case.get("sparse"):
            res.count("cache:sparse-jacobian")
        if case.get("strings"):
            res.count("cache:string-input")
        res.count(f"cache:ops={min(len(case['ops']) // 4 * 4, 28)}+")
        n_ent = max(len({(o[1], o[2], o[3]) for o in case["ops"] if o[0] != "reopen" and o[1] == ni}) for ni in range(len(case["nodes"])))
        res.count("cache:entries>=10" if n_ent >= 10 else "cache:entries<10")
        if len(case["ops"]) >= 4:
            res.nontrivial("cache:" + json.dumps(case, sort_keys=True))
        for key, msg in obs["bad"]:
            if any(v.key == key and v.kind == "oracle" for v in res.violations):
                continue

            def fails(ops, key=key):
                return any(k == key for k, _ in cache_observe({**case, "ops": ops})["bad"])
            small = {**case, "ops": common.shrink_list(case["ops"], fails, budget=40)}
            res.violate("oracle", key, msg, {"case": small})


# =========================================================================== run / replay


def exhaustive_db_cases(max_len: int) -> list[dict[str, Any]]:
    """All histories of length <= max_len over a reduced alphabet: two points, stores of {}, {f}, {g},
    {f, g} (f a Python scalar, g an array; fixed values, so re-stores are idempotent), append export,
    fresh export, restart (only once a file exists)."""
    p0 = {"int": False, "xs": ["0", "1"]}
    p1 = {"int": True, "xs": ["2", "3"]}
    f = {"k": "f", "shape": [], "data": ["1/2"]}
    g = {"k": "a", "shape": [2], "data": ["1", "-3/4"]}
    alphabet: list[list[Any]] = []
    for p in (p0, p1):
        for outs in ({}, {"f": f}, {"g": g}, {"g": g, "f": f}):
            alphabet.append(["store", p, outs])
    alphabet += [["export", "a"], ["export", "w"], ["reload"]]
    cases = []
    for n in range(1, max_len + 1):
        for seq in itertools.product(alphabet, repeat=n):
            have = False
            ok = True
            for op in seq:
                if op[0] == "export":
                    have = True
                elif op[0] == "reload" and not have:
                    ok = False
                    break
            if ok and any(op[0] != "store" for op in seq):
                cases.append({"kind": "db", "node": "", "via": "direct", "space": False, "ops": [list(o) for o in seq]})
    return cases


def exhaustive_rep_cases(max_len: int) -> list[dict[str, Any]]:
    """All histories of length <= max_len over: one point as int64 / as float64, another point with a zero /
    with a negative zero (each with a fixed output set), append export, fresh export, restart."""
    f = {"k": "f", "shape": [], "data": ["1/2"]}
    g = {"k": "a", "shape": [2], "data": ["1", "-3/4"]}
    alphabet: list[list[Any]] = [
        ["store", {"int": True, "xs": ["2", "3"]}, {}],
        ["store", {"int": False, "xs": ["2", "3"]}, {"f": f}],
        ["store", {"int": False, "xs": ["0", "1"]}, {"g": g}],
        ["store", {"int": False, "xs": ["0", "1"], "nz": [0]}, {}],
        ["export", "a"], ["export", "w"], ["reload"],
    ]
    cases = []
    for n in range(2, max_len + 1):
        for seq in itertools.product(alphabet, repeat=n):
            have = False
            ok = True
            for op in seq:
                if op[0] == "export":
                    have = True
                elif op[0] == "reload" and not have:
                    ok = False
                    break
            if ok and any(op[0] == "export" for op in seq) and any(op[0] == "store" for op in seq):
                cases.append({"kind": "db", "node": "", "via": "direct", "space": False, "ops": [list(o) for o in seq]})
    return cases


def load_corpus() -> list[dict[str, Any]]:
    d = common.CORPUS_DIR / PID
    out = []
    if d.is_dir():
        for p in sorted(d.glob("*.json")):
            out.append(json.loads(p.read_text())["case"])
    return out


def run(ctx) -> Result:
    res = Result(PID)
    res.rule = (
        "db: random store/export histories (1-25 ops, 16 output names incl. gradients '@f', value kinds python float/int, "
        "numpy scalar, 0-d/size-1/vector/matrix/empty/int arrays, lists, empty entries, int/float/mixed points, root/nested node, "
        "direct exports or store/new-iteration listeners, fresh and append exports, restarts from the file; in 45 % of the histories a point is "
        "stored again through EQUAL arrays of another representation -- int64 <-> float64, int32, 0.0 <-> -0.0, strided views -- "
        "in particular right after its first store, before any export); non-trivial = >= 2 stores and >= 2 exports, "
        "distinct by protocol lines. ds: random design spaces (1-5 variables, sizes 1-4, float/integer, infinite bounds, missing "
        "values, multi-character names), non-trivial = >= 2 variables. pbd: problems built from a generated specification of every "
        "written attribute (1-3 design variables with 1- and multi-character names; per function 0-3 input and output names of 1 and "
        "several characters, dim, expr, special_repr; linear problems with MDOLinearFunction objective/constraints; maximization; "
        "differentiation method/step; tolerances incl. 0; solution given field by field incl. 0, 0.0, False, None, or computed from "
        "the problem), non-trivial = >= 1 constraint or observable. jac: HDF5Cache files with dense/CSR/CSC/COO/LIL/DOK/DIA/BSR "
        "Jacobian blocks (array and matrix flavours), square non-symmetric and rectangular, 1-11 entries, 1-2 nodes, reloaded by a new "
        "HDF5Cache on the same file and node, non-trivial = >= 2 blocks."
    )
    res.assumptions = [
        "in-scope histories never overwrite an output already present in the file with a different value (append mode does not propagate overwrites by design); such histories are probed against the model only",
        "the points of a history have distinct 64-bit hashes",
        "'same points' = the arrays the database holds, bit for bit (dtype, values, sign of zeros): arrays that are equal component by component are ONE database key (HashableNdarray) and the database keeps the array stored first; the file, its reload and a single final export must hold exactly those arrays; float32 points are not generated",
    ]
    rng = ctx.rng
    corpus = load_corpus()
    db_corpus = [c for c in corpus if c["kind"] == "db"]
    check_db_cases(res, [c for c in db_corpus if in_scope_db(c)], True)
    check_ds_cases(res, [c for c in corpus if c["kind"] == "ds"])
    check_pb_cases(res, [c for c in corpus if c["kind"] == "pb"])
    check_cache_cases(res, [c for c in corpus if c["kind"] == "cache"])
    c11_ext.check_pbd_cases(res, [c for c in corpus if c["kind"] == "pbd"])
    c11_ext.check_jac_cases(res, [c for c in corpus if c["kind"] == "jac"])
    res.count("corpus", len(corpus))
    n_db = 3000 if ctx.thorough else 260
    n_ds = 2000 if ctx.thorough else 200
    batch = 100
    done = 0
    while done < n_db and time_left(ctx):
        cases = [gen_db_case(rng, True) for _ in range(min(batch, n_db - done))]
        check_db_cases(res, cases, True, twin_every=1 if ctx.thorough else 2)
        done += len(cases)
    if ctx.thorough:
        ex = exhaustive_rep_cases(4) + exhaustive_db_cases(4)
        res.count("db:exhaustive-representations-small-scope", len(exhaustive_rep_cases(4)))
        for k in range(0, len(ex), 400):
            if not time_left(ctx):
                res.notes.append(f"exhaustive enumeration stopped after {k} of {len(ex)} histories (deadline)")
                break
            check_db_cases(res, ex[k : k + 400], True, twin_every=5)
        else:
            res.exhaustive = True
        res.count("db:exhaustive-small-scope", len(ex))
    probes = [gen_db_case(rng, False) for _ in range(n_db // 8)]
    check_db_cases(res, [c for c in probes if not in_scope_db(c)], False)
    check_ds_cases(res, [gen_ds_case(rng, exact=True) for _ in range(n_ds)])
    check_ds_cases(res, [gen_ds_case(rng, exact=False) for _ in range(n_ds // 4)])
    check_pb_cases(res, [gen_pb_case(rng) for _ in range(400 if ctx.thorough else 60)])
    check_cache_cases(res, [gen_cache_case(rng) for _ in range(400 if ctx.thorough else 60)])
    # second-generation streams (harness/c11_ext.py), compared with the model line by line
    for label, gen, chk, n in (("pbd", c11_ext.gen_pbd_case, c11_ext.check_pbd_cases, 1500 if ctx.thorough else 150),
                               ("jac", c11_ext.gen_jac_case, c11_ext.check_jac_cases, 600 if ctx.thorough else 60)):
        cases = [gen(rng) for _ in range(n)]  # all drawn first: the streams do not depend on the deadline
        for k in range(0, n, 40):
            if not time_left(ctx):
                res.notes.append(f"{label} stream stopped after {k} of {n} cases (deadline)")
                break
            chk(res, cases[k : k + 40])
    return res


def time_left(ctx) -> bool:
    import time

    return time.time() < ctx.deadline


def replay(path: str) -> int:
    data = json.loads(Path(path).read_text())
    rp = data.get("replay", data)
    case = rp.get("case")
    if case is None:
        print(json.dumps(rp, indent=1)[:4000])
        return 1
    if case["kind"] == "db":
        r = DbRun(case).run()
        model = common.run_lean_driver(PID, db_lines(case) + rep_lines(case))
        n = len(case["ops"]) + 1
        for k, (ln, impl) in enumerate(zip(db_lines(case)[1:], r.lines)):
            print(f"op {k}: {ln}\n   impl : {impl}\n   model: {model[k + 1]}")
            print(f"   {rep_lines(case)[k + 1]}\n   impl : {r.rlines[k]}\n   model: {model[n + 1 + k]}")
        bad = db_oracle(case, r) if in_scope_db(case) else []
        for k, m in bad:
            print("ORACLE FAILS:", k, m)
        return 1 if bad else 0
    if case["kind"] == "ds":
        obs = ds_observe(case)
        print("line :", ds_line(case))
        print("impl : hdf=%s csv=%s" % (obs.get("hdf"), obs.get("csv")))
        print("model:", common.run_lean_driver(PID, [ds_line(case)])[0])
        bad = ds_oracle(case, obs)
        for k, m in bad:
            print("ORACLE FAILS:", k, m)
        return 1 if bad else 0
    if case["kind"] == "pb":
        obs = pb_observe(case)
        for part in ("orig", "back"):
            print(part, ":", json.dumps(obs.get(part), indent=1, default=str)[:3000])
        bad = pb_oracle(case, obs)
        for k, m in bad:
            print("ORACLE FAILS:", k, m)
        return 1 if bad else 0
    if case["kind"] == "pbd":
        return c11_ext.replay_pbd(case)
    if case["kind"] == "jac":
        return c11_ext.replay_jac(case)
    if case["kind"] == "cache":
        obs = cache_observe(case)
        for k, m in obs["bad"]:
            print("ORACLE FAILS:", k, m)
        return 1 if obs["bad"] else 0
    print("unknown case kind")
    return 1
