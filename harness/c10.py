"""C10 - function algebra and transformations evaluate and differentiate exactly.

For random expression trees over MDOFunctions (polynomial user functions, linear and quadratic
functions; + - * / neg offset scaling; restriction, composition with a linear map, concatenation,
normalisation of linear functions, Taylor and convex-linear approximations, constraint
aggregations) the real objects are built and evaluated in-process; the same tree and point go to
the Lean driver (Driver/C10.lean) on one protocol line; values and Jacobians are compared:
exactly when every float intermediate is exactly representable (exact stream), within
2^-40 x (absolute-value majorant of the expression) otherwise (rounded stream).

Oracle (independent of the model and of the code): dual-number arithmetic over Fraction written
from the mathematical definitions (harness/c10_tree.py); mpmath (60 digits) for KS/IKS.
It also checks that no operand value is modified in place: arrays returned by user functions,
arrays given as arguments, public coefficient arrays and `last_eval` of the operands.

Sessions (harness/c10_hist.py): histories on ONE tree - the caller's point buffer updated in place
between evaluate/jac (every order), public parameters of linear/quadratic/user functions reassigned
or edited in place, trees built before and after the edit, sub-expressions called on their own.
Every call is judged by the same oracle on the operands as they are now at the current content of
the buffer, and compared with the session state machine of the model (`step` in Model/C10.lean).
"""

from __future__ import annotations

import copy
import json
import math
from fractions import Fraction
from typing import Any

import numpy as np

from harness import common
from harness.common import F
from harness.common import Result
from harness.common import rat
from harness.c10_tree import BINOPS
from harness.c10_tree import EXACT_AGG
from harness.c10_tree import SMOOTH_AGG
from harness.c10_tree import IllShaped
from harness.c10_tree import Impl
from harness.c10_tree import Q
from harness.c10_tree import Undefined
from harness.c10_tree import canon_jac
from harness.c10_tree import canon_value
from harness.c10_tree import children
from harness.c10_tree import is_linear_object
from harness.c10_tree import oracle_eval
from harness.c10_tree import out_dim
from harness.c10_tree import protocol_line
from harness.c10_tree import smooth_agg_reference
from harness.c10_tree import share_classes
from harness.c10_tree import share_consistent
from harness.c10_tree import shared_nodes
from harness.c10_tree import tree_depth
from harness.c10_tree import tree_ops
from harness.c10_tree import view_indices
from harness.c10_tree import view_polys
from harness import c10_hist as hist

PID = "C10"
REL = Fraction(1, 2**40)
REL_SMOOTH = Fraction(1, 2**36)

TRUSTED_EXTRA = (
    "C10: leaves are harness-defined polynomial user functions (exact rational evaluation rounded once); "
    "their own value/Jacobian pairs are the universally quantified parameters of the theorems",
    "C10: rounded stream bound 2^-40 x majorant (same expression with absolute values); KS/IKS against mpmath at 60 digits, bound 2^-36",
    "C10: exp/log of the smooth aggregations are not modelled in the executable model (noncomputable real-analysis model in Analysis/C10Aggregation.lean)",
    "C10: sessions - the current parameters of a function object are what its public getters return after each edit (read back exactly); "
    "objects hold their parameters by value in the model (the harness gives every object its own arrays: no aliasing between objects)",
    "C10: storage model (Store/Arr/SExpr.run/Hist of Model/C10.lean) - its allocation points are transcribed by hand from the code of the "
    "value path (FunctionRestriction.__extend_subvect, LinearCompositeFunction, operators, negation, Concatenate); it is compared on every "
    "run with the values and the np.shares_memory pattern of the real returned arrays; Jacobian arrays and the other node kinds are outside it",
)

# --------------------------------------------------------------------------- generation


def _coef(rng) -> int:
    return rng.pick([-3, -2, -1, 1, 2, 3])


def gen_poly(rng, n: int, m: int, style: str | None = None) -> dict:
    polys = []
    for _ in range(m):
        monos: dict[tuple, int] = {}
        for _ in range(rng.pick([1, 2, 2, 3])):
            e = [0] * n
            for _ in range(rng.pick([0, 1, 1, 2, 2, 3])):
                e[rng.randrange(n)] += 1
            monos[tuple(e)] = monos.get(tuple(e), 0) + _coef(rng)
        polys.append([[str(c), list(e)] for e, c in monos.items() if c != 0])
    if style is None:
        style = rng.pick(["s", "a"]) if m == 1 else "a"
    return {"op": "poly", "style": style, "polys": polys}


def gen_lin(rng, n: int, m: int) -> dict:
    return {
        "op": "lin",
        "A": [[str(rng.randint(-3, 3)) for _ in range(n)] for _ in range(m)],
        "b": [str(rng.randint(-3, 3)) for _ in range(m)],
    }


def gen_quad(rng, n: int) -> dict:
    return {
        "op": "quad",
        "Q": [[str(rng.randint(-2, 2)) for _ in range(n)] for _ in range(n)],
        "b": None if rng.chance(0.3) else [str(rng.randint(-3, 3)) for _ in range(n)],
        "c": str(rng.randint(-3, 3)),
    }


def gen_point(rng, n: int, integer: bool | None = None) -> list[str]:
    if integer is None:
        integer = rng.chance(0.6)
    if integer:
        return [str(rng.randint(-3, 3)) for _ in range(n)]
    return [rat(Fraction(rng.randint(-6, 6), 2)) for _ in range(n)]


def view_specs(n: int, m: int) -> list:
    """Every way of returning m of the n components of the input array without a copy: the array itself, or a
    basic slice of it (forward, strided, reversed)."""
    out: list = ["self"] if m == n else []
    seen = set()
    for step in (1, 2, -1, -2):
        for start in [None, *range(n)]:
            for stop in [None, *range(n + 1)]:
                idx = tuple(list(range(n))[slice(start, stop, step)])
                if len(idx) == m and (idx, step) not in seen:
                    seen.add((idx, step))
                    out.append([start, stop, step])
    return out


def gen_view_leaf(rng, n: int, m: int) -> dict | None:
    """A user function that returns (a view of) the array it receives: x -> x, x -> x[1:], x -> x[::-1], ..."""
    specs = view_specs(n, m)
    if not specs:
        return None
    view = "self" if (m == n and rng.chance(0.4)) else rng.pick(specs)
    return {"op": "poly", "style": "w", "view": view, "polys": view_polys(n, view)}


def view_kind(node: dict) -> str:
    v = node["view"]
    return "input-array-itself" if v == "self" else ("reversed-slice" if v[2] < 0 else "slice")


VIEW_LEAF_RATE = 0.16


def gen_leaf(rng, n: int, m: int) -> dict:
    r = rng.random()
    if m <= n and rng.chance(VIEW_LEAF_RATE):
        v = gen_view_leaf(rng, n, m)
        if v is not None:
            return v
    if m == 1 and n <= 3 and r < 0.2:
        return gen_quad(rng, n)
    if r < 0.4:
        return gen_lin(rng, n, m)
    return gen_poly(rng, n, m)


# ---- one function object used at several places of a tree


def gen_shared_target(rng, n: int, m: int, depth: int, node_gen=None) -> dict:
    """The function object that is used twice: a restriction / a linear composition (often of a function that
    returns a view of its input), or any node."""
    gen_node = node_gen or globals()["gen_node"]
    r = rng.random()
    node = None
    if r < 0.45 and n <= 4:
        kf = rng.pick([1, 1, 2])
        N = n + kf
        frozen = sorted(rng.sample(range(N), kf))
        inner = gen_view_leaf(rng, N, m) if (m <= N and rng.chance(0.6)) else None
        node = {"op": "res", "a": inner or gen_node(rng, N, m, max(depth - 1, 0)), "N": N, "frozen": frozen, "values": gen_point(rng, kf)}
    elif r < 0.65:
        k = rng.pick([m, 2, 3])
        inner = gen_view_leaf(rng, k, m) if (m <= k and rng.chance(0.6)) else None
        node = {"op": "lc", "a": inner or gen_node(rng, k, m, max(depth - 1, 0)), "A": [[str(rng.randint(-2, 2)) for _ in range(n)] for _ in range(k)]}
    elif r < 0.8 and m <= n:
        node = gen_view_leaf(rng, n, m)
    if node is None:
        node = gen_node(rng, n, m, max(depth, 0))
    node["share"] = "s%d" % rng.randrange(10**9)
    return node


SHARED_HOWS = ("lc-lc", "lc-lc", "res-res", "same-argument", "direct-lc")


def gen_shared_pair(rng, n: int, m: int, depth: int, how: str | None = None, node_gen=None) -> tuple[dict, dict, str]:
    """Two operands R^n -> R^m that use ONE function object S, in general at different arguments:
    S(Ax), S(Bx) | S(x with frozen u), S(x with frozen v) | S(x), S(x) | S(x), S(Bx)."""
    how = how or rng.pick(SHARED_HOWS)
    if how == "res-res" and n > 4:
        how = "lc-lc"
    mat = lambda rows, cols: [[str(rng.randint(-2, 2)) for _ in range(cols)] for _ in range(rows)]  # noqa: E731
    if how == "lc-lc":
        k = rng.pick([1, 2, 2, 3, m])
        s1 = gen_shared_target(rng, k, m, depth - 1, node_gen)
        a = {"op": "lc", "a": s1, "A": mat(k, n)}
        b = {"op": "lc", "a": copy.deepcopy(s1), "A": mat(k, n)}
    elif how == "res-res":
        kf = rng.pick([1, 1, 2])
        N = n + kf
        s1 = gen_shared_target(rng, N, m, depth - 1, node_gen)
        f1 = sorted(rng.sample(range(N), kf))
        f2 = f1 if rng.chance(0.6) else sorted(rng.sample(range(N), kf))
        a = {"op": "res", "a": s1, "N": N, "frozen": f1, "values": gen_point(rng, kf)}
        b = {"op": "res", "a": copy.deepcopy(s1), "N": N, "frozen": f2, "values": gen_point(rng, kf)}
    elif how == "same-argument":
        a = gen_shared_target(rng, n, m, depth, node_gen)
        b = copy.deepcopy(a)
    else:
        a = gen_shared_target(rng, n, m, depth, node_gen)
        b = {"op": "lc", "a": copy.deepcopy(a), "A": mat(n, n)}
    if rng.chance(0.5):
        a, b = b, a
    return a, b, how


SHARED_RATE = 0.12


def gen_store_tree(rng, n: int, m: int, depth: int) -> dict:
    """A tree of the fragment of the storage model (`SExpr`): user functions returning views or new arrays,
    restriction, linear composition, operators between functions, generic negation, concatenation, one object twice."""
    if depth <= 0 or rng.chance(0.15):
        v = gen_view_leaf(rng, n, m) if (m <= n and rng.chance(0.5)) else None
        return v or gen_poly(rng, n, m)
    k = rng.pick(["bin", "bin", "res", "res", "lc", "lc", "neg", "cat", "twice", "twice"])
    if k == "bin":
        return {"op": rng.pick(BINOPS), "a": gen_store_tree(rng, n, m, depth - 1), "b": gen_store_tree(rng, n, rng.pick([m, m, 1]), depth - 1)}
    if k == "res" and n <= 4:
        kf = rng.pick([1, 1, 2])
        N = n + kf
        return {"op": "res", "a": gen_store_tree(rng, N, m, depth - 1), "N": N, "frozen": sorted(rng.sample(range(N), kf)), "values": gen_point(rng, kf)}
    if k == "lc":
        kk = rng.pick([m, 2, 3])
        return {"op": "lc", "a": gen_store_tree(rng, kk, m, depth - 1), "A": [[str(rng.randint(-2, 2)) for _ in range(n)] for _ in range(kk)]}
    if k == "cat" and m >= 2:
        p = rng.randint(1, m - 1)
        return {"op": "cat", "args": [gen_store_tree(rng, n, p, depth - 1), gen_store_tree(rng, n, m - p, depth - 1)]}
    if k == "twice":
        a, b, how = gen_shared_pair(rng, n, m, depth - 1, None, gen_store_tree)
        return {"op": rng.pick(BINOPS), "a": a, "b": b, "shared_how": how}
    return {"op": "neg", "a": gen_store_tree(rng, n, m, depth - 1)}


def gen_store_session(rng) -> dict | None:
    """A session inside the storage model: one tree of the fragment, the caller's buffer written in place or replaced,
    evaluate / func / jac of the root, every returned array kept."""
    n = rng.pick([1, 2, 2, 3, 3])
    m = rng.pick([1, 2, 2, 3])
    if rng.chance(0.4):
        m = n
    tree = gen_store_tree(rng, n, m, rng.randint(1, 3))
    try:
        out_dim(tree, n)
    except IllShaped:
        return None
    if not share_consistent(tree) or hist.store_tokens(tree, n) is None:
        return None
    pts = in_scope_points(tree, n, [gen_point(rng, n) for _ in range(10)])
    pts = [p for i, p in enumerate(pts) if p not in pts[:i]]
    if len(pts) < 2:
        return None
    script = [{"do": "x", "p": pts[0], "how": "fresh"}]
    for _ in range(rng.randint(4, 9)):
        r = rng.random()
        if r < 0.3 and script[-1]["do"] != "x":
            script.append({"do": "x", "p": rng.pick(pts), "how": "inplace"})
        elif r < 0.4 and script[-1]["do"] != "x":
            script.append({"do": "x", "p": rng.pick(pts), "how": "fresh"})
        else:
            script.append({"do": rng.pick(["v", "v", "f", "j"])})
    if sum(1 for s_ in script if s_["do"] in ("v", "f")) < 2:
        return None
    return {"hist": True, "n": n, "tree": tree, "script": script}


def gen_linear(rng, n: int, m: int, depth: int, nrm_ok: bool = False) -> dict:
    """A node whose real object is an MDOLinearFunction.

    `nrm_ok`: a normalised function expects normalised inputs and GEMSEO refuses (by design) to
    combine it with functions that do not; `normalize` is therefore generated at the top only.
    """
    if depth <= 0:
        return gen_lin(rng, n, m)
    k = rng.pick(["lin", "neg", "offn", "offa", "lres", "t1", "t1"] + (["nrm", "nrm", "nrm"] if nrm_ok else []))
    if k == "lin":
        return gen_lin(rng, n, m)
    if k == "neg":
        return {"op": "neg", "a": gen_linear(rng, n, m, depth - 1)}
    if k == "offn":
        return {"op": "offn", "a": gen_linear(rng, n, m, depth - 1), "v": str(rng.randint(-3, 3))}
    if k == "offa":
        return {"op": "offa", "a": gen_linear(rng, n, m, depth - 1), "v": [str(rng.randint(-3, 3)) for _ in range(m)]}
    if k == "lres" and n <= 4:
        kf = rng.pick([1, 1, 2])
        frozen = sorted(rng.sample(range(n + kf), kf))
        if rng.chance(0.3):
            frozen = frozen[::-1]
        return {"op": "lres", "a": gen_linear(rng, n + kf, m, depth - 1), "frozen": frozen, "values": gen_point(rng, kf)}
    if k == "nrm":
        lb = [rng.randint(-3, 1) for _ in range(n)]
        ub = [l + rng.pick([1, 2, 4]) for l in lb]
        return {
            "op": "nrm",
            "a": gen_linear(rng, n, m, depth - 1, True),
            "lb": [str(l) for l in lb],
            "ub": [str(u) for u in ub],
            "mask": [int(rng.chance(0.7)) for _ in range(n)],
        }
    return {"op": "t1", "a": gen_node(rng, n, m, depth - 1), "at": gen_point(rng, n)}


def gen_scalar(rng, n: int, depth: int) -> dict:
    """A scalar function in the strict sense: float value and 1D gradient."""
    if depth <= 0:
        r = rng.random()
        if r < 0.3 and n <= 3:
            return gen_quad(rng, n)
        if r < 0.5:
            return gen_lin(rng, n, 1)
        return gen_poly(rng, n, 1, "s")
    k = rng.pick(["leaf", "add", "sub", "mul", "mul", "div", "neg", "offn", "res", "lc", "num"])
    if k == "leaf":
        return gen_scalar(rng, n, 0)
    if k in BINOPS:
        return {"op": k, "a": gen_scalar(rng, n, depth - 1), "b": gen_scalar(rng, n, depth - 1)}
    if k == "num":
        return {"op": rng.pick(["add", "mul", "sub", "div"]), "a": gen_scalar(rng, n, depth - 1), "b": {"op": "num", "v": str(rng.pick([-3, -2, 2, 4]))}}
    if k == "neg":
        return {"op": "neg", "a": gen_scalar(rng, n, depth - 1)}
    if k == "offn":
        return {"op": "offn", "a": gen_scalar(rng, n, depth - 1), "v": str(rng.randint(-3, 3))}
    if k == "res" and n <= 4:
        N = n + 1
        return {"op": "res", "a": gen_scalar(rng, N, depth - 1), "N": N, "frozen": [rng.randrange(N)], "values": gen_point(rng, 1)}
    kk = rng.pick([1, 2, 3])
    return {"op": "lc", "a": gen_scalar(rng, kk, depth - 1), "A": [[str(rng.randint(-2, 2)) for _ in range(n)] for _ in range(kk)]}


def gen_second_operand(rng, n: int, m: int, depth: int, op: str) -> tuple[int, dict]:
    """Return (dimension of the first operand, second operand)."""
    r = rng.random()
    if r < 0.62:
        return m, gen_node(rng, n, m, depth - 1)
    if r < 0.72 and m > 1:
        return m, gen_node(rng, n, 1, depth - 1)  # vector (*) scalar function
    if r < 0.80 and m > 1:
        return 1, gen_node(rng, n, m, depth - 1)  # scalar function (*) vector
    if r < 0.90:
        v = rng.pick([-3, -2, 2, 3, Fraction(1, 2), 4, Fraction(-1, 4)]) if op in ("mul", "div") else rng.randint(-3, 3)
        return m, {"op": "num", "v": rat(Fraction(v))}
    vals = [rng.pick([-3, -2, -1, 1, 2, 3, 4]) for _ in range(m)]
    return m, {"op": "arr", "v": [str(v) for v in vals]}


OPS = [
    ("leaf", 2.0),
    ("add", 2.0),
    ("sub", 1.5),
    ("mul", 4.0),
    ("div", 2.5),
    ("neg", 1.0),
    ("offn", 0.7),
    ("offa", 0.7),
    ("res", 1.5),
    ("lc", 2.0),
    ("cat", 2.0),
    ("t1", 1.0),
    ("t2", 1.0),
    ("cl", 1.2),
    ("agg", 1.5),
    ("linear", 1.5),
]


def gen_node(rng, n: int, m: int, depth: int, top: bool = False) -> dict:
    if depth <= 0:
        return gen_leaf(rng, n, m)
    tot = sum(w for _, w in OPS)
    r = rng.random() * tot
    op = OPS[-1][0]
    for name, w in OPS:
        if r < w:
            op = name
            break
        r -= w
    if op == "leaf":
        return gen_leaf(rng, n, m)
    if op in BINOPS:
        if rng.chance(SHARED_RATE):
            a, b, how = gen_shared_pair(rng, n, m, depth - 1)
            return {"op": op, "a": a, "b": b, "shared_how": how}
        ma, b = gen_second_operand(rng, n, m, depth, op)
        return {"op": op, "a": gen_node(rng, n, ma, depth - 1), "b": b}
    if op == "neg":
        return {"op": "neg", "a": gen_node(rng, n, m, depth - 1)}
    if op == "offn":
        return {"op": "offn", "a": gen_node(rng, n, m, depth - 1), "v": rat(Fraction(rng.randint(-6, 6), 2))}
    if op == "offa":
        return {"op": "offa", "a": gen_node(rng, n, m, depth - 1), "v": [str(rng.randint(-3, 3)) for _ in range(m)]}
    if op == "res" and n <= 4:
        kf = rng.pick([1, 1, 2])
        N = n + kf
        frozen = sorted(rng.sample(range(N), kf))
        if rng.chance(0.3):
            frozen = frozen[::-1]
        return {"op": "res", "a": gen_node(rng, N, m, depth - 1), "N": N, "frozen": frozen, "values": gen_point(rng, kf)}
    if op == "lc":
        k = rng.pick([1, 2, 2, 3, 3])
        if rng.chance(0.35):
            k = m  # inner input dimension == output dimension: a wrong product is silently wrong
        A = [[str(rng.randint(-2, 2)) for _ in range(n)] for _ in range(k)]
        return {"op": "lc", "a": gen_node(rng, k, m, depth - 1), "A": A}
    if op == "cat" and m >= 2 and m % 2 == 0 and rng.chance(SHARED_RATE):
        a, b, how = gen_shared_pair(rng, n, m // 2, depth - 1)
        return {"op": "cat", "args": [a, b], "shared_how": how}
    if op == "cat" and m >= 2:
        parts = []
        left = m
        while left > 0:
            p = rng.randint(1, left)
            parts.append(p)
            left -= p
        return {"op": "cat", "args": [gen_node(rng, n, p, depth - 1) for p in parts]}
    if op == "t1":
        return {"op": "t1", "a": gen_node(rng, n, m, depth - 1), "at": gen_point(rng, n)}
    if op == "t2" and m == 1:
        # a Hessian approximation is symmetric; the approximated function is a genuine scalar
        # function (float value, 1D gradient), as compute_quadratic_approximation requires
        H = [[0] * n for _ in range(n)]
        for i in range(n):
            for j in range(i, n):
                H[i][j] = H[j][i] = rng.randint(-2, 2)
        return {"op": "t2", "a": gen_scalar(rng, n, depth - 1), "at": gen_point(rng, n), "H": [[str(c) for c in r] for r in H]}
    if op == "cl":
        at = [str(rng.pick([-3, -2, -1, 1, 2, 3])) for _ in range(n)]
        mask = None if rng.chance(0.4) else [int(rng.chance(0.6)) for _ in range(n)]
        return {"op": "cl", "a": gen_node(rng, n, m, depth - 1), "at": at, "mask": mask}
    if op == "agg" and m == 1:
        return gen_agg(rng, n, depth, rng.pick(EXACT_AGG))
    if op == "linear":
        return gen_linear(rng, n, m, depth, top)
    return gen_leaf(rng, n, m)


def gen_agg(rng, n: int, depth: int, kind: str) -> dict:
    # the aggregated constraint is vector-valued (an array of >= 2 components)
    mc = rng.pick([2, 2, 3, 3, 4])
    if rng.chance(0.3) and n >= 2:
        mc = n
    idx = None
    if rng.chance(0.4):
        k = rng.randint(1, mc)
        idx = sorted(rng.sample(range(mc), k))
    k = mc if idx is None else len(idx)
    r = rng.random()
    if r < 0.35:
        scale: Any = "1"
    elif r < 0.7:
        scale = rat(rng.pick([Fraction(2), Fraction(3), Fraction(1, 2), Fraction(4)]))
    else:
        scale = [rat(rng.pick([Fraction(1), Fraction(2), Fraction(3), Fraction(1, 2)])) for _ in range(k)]
    rho = rat(rng.pick([Fraction(1), Fraction(2), Fraction(5), Fraction(10), Fraction(100)]))
    return {"op": "agg", "kind": kind, "a": gen_node(rng, n, mc, depth - 1), "idx": idx, "scale": scale, "rho": rho}



def gen_probe_case(rng) -> dict | None:
    """Out-of-scope probes (never a violation): documented limitations of the code."""
    n = rng.pick([2, 3])
    kind = rng.pick(["scalar+vector-constant", "nonsymmetric-hessian", "array-style-t2"])
    if kind == "scalar+vector-constant":
        tree = {"op": rng.pick(["add", "sub"]), "a": gen_scalar(rng, n, 1), "b": {"op": "arr", "v": [str(rng.randint(-3, 3)) for _ in range(n)]}}
    elif kind == "nonsymmetric-hessian":
        H = [[str(rng.randint(-2, 2)) for _ in range(n)] for _ in range(n)]
        tree = {"op": "t2", "a": gen_scalar(rng, n, 1), "at": gen_point(rng, n), "H": H}
    else:
        tree = {"op": "t2", "a": gen_poly(rng, n, 1, "a"), "at": gen_point(rng, n), "H": [["0"] * n for _ in range(n)]}
    try:
        out_dim(tree, n)
    except IllShaped:
        return None
    pts = in_scope_points(tree, n, [gen_point(rng, n) for _ in range(4)])[:1]
    if not pts:
        return None
    return {"n": n, "tree": tree, "points": pts, "order": "vj", "probe": kind}


def has_smooth(node: dict) -> bool:
    return (node["op"] == "agg" and node["kind"] in SMOOTH_AGG) or any(has_smooth(c) for c in children(node))


def in_scope_points(tree: dict, n: int, pts: list[list[str]]) -> list[list[str]]:
    """Keep the points where the mathematical combination is defined and well conditioned."""
    good = []
    for p in pts:
        try:
            x = [Fraction(t) for t in p]
            if has_smooth(tree):
                vals, jac, o = oracle_eval(tree["a"], x)
            else:
                vals, jac, o = oracle_eval(tree, x)
            if o.min_divisor is not None and o.min_divisor < Fraction(1, 2):
                continue
            if any(q.m > 2**70 for q in vals):
                continue
            good.append(p)
        except Undefined:
            continue
    return good


def gen_case(rng, max_depth: int = 4, smooth: bool = False) -> dict | None:
    n = rng.pick([1, 2, 2, 3, 3])
    m = rng.pick([1, 1, 2, 2, 3])
    if rng.chance(0.4):
        m = n
    depth = rng.randint(1, max_depth)
    if smooth:
        tree = gen_agg(rng, n, depth, rng.pick(SMOOTH_AGG))
    else:
        tree = gen_node(rng, n, m, depth, top=True)
    try:
        out_dim(tree, n)
    except IllShaped:
        return None
    if not share_consistent(tree):
        return None
    pts = in_scope_points(tree, n, [gen_point(rng, n) for _ in range(6)])
    pts = [p for i, p in enumerate(pts) if p not in pts[:i]][:2]  # two DIFFERENT points whenever possible
    if not pts:
        return None
    return {"n": n, "tree": tree, "points": pts, "order": rng.pick(["vj", "jv"])}


# --------------------------------------------------------------------------- implementation side


def observe(case: dict) -> dict:
    """Build the real objects and evaluate them; everything the oracle needs is in the result."""
    if case.get("disc"):
        return observe_disc(case)
    obs: dict[str, Any] = {"points": []}
    n = case["n"]
    try:
        impl = Impl(case["tree"], n)
    except (IllShaped, Undefined):
        raise
    except Exception as e:  # noqa: BLE001
        obs["build_exc"] = common.exc_class(e) + ": " + repr(e)[:200]
        return obs
    root = impl.root
    pts = list(case["points"])
    seq = pts + pts[:1]  # the first point again at the end: results must not depend on history
    held: list[tuple[str, np.ndarray, np.ndarray]] = []  # every array returned so far, with a copy: re-read after later calls
    for p in seq:
        x = np.array([float(Fraction(t)) for t in p])
        x_ref = x.copy()
        rec: dict[str, Any] = {"x": p}
        calls = ["v", "j", "v", "j"] if case.get("order", "vj") == "vj" else ["j", "v", "j", "v"]
        for c in calls:
            slot = c + ("2" if c in rec or c + "_exc" in rec else "")
            try:
                if c == "v":
                    out = root.evaluate(x)
                    rec[slot] = canon_value(out)
                else:
                    out = root.jac(x)
                    rec[slot] = canon_jac(out)
                if isinstance(out, np.ndarray) and out.dtype != object:
                    held.append((f"{'evaluate' if c == 'v' else 'jac'}({p})", out, out.copy()))
            except Exception as e:  # noqa: BLE001
                rec[slot + "_exc"] = common.exc_class(e) + ": " + repr(e)[:160]
            over = [label for label, arr, ref in held if arr.shape != ref.shape or not np.array_equal(arr, ref, equal_nan=True)]
            if over:
                rec.setdefault("overwritten", []).append(f"the array returned by {over[0]} was changed by a later {'evaluate' if c == 'v' else 'jac'}({p})")
                held = [(label, arr, arr.copy()) for label, arr, _ in held]
        if not np.array_equal(x, x_ref):
            rec["x_modified"] = True
        rec["modified"] = impl.modified_operands()
        # last_eval of every operand object
        le = []
        for node, obj in impl.objects:
            v = getattr(obj, "last_eval", None)
            if v is not None:
                try:
                    le.append((id(node), node["op"], canon_value(v)))
                except Exception:  # noqa: BLE001
                    pass
        rec["last_eval"] = le
        obs["points"].append(rec)
    obs["impl"] = impl
    return obs


# --------------------------------------------------------------------------- oracle


def close(impl: float, q: Q, rel: Fraction = REL) -> tuple[bool, bool]:
    """(ok, compared exactly)."""
    if not isinstance(impl, float) or not math.isfinite(impl):
        return False, False
    err = abs(F(impl) - q.v)
    if q.exact_expected():
        return err == 0, True
    return err <= rel * q.m, False


def root_sig(tree: dict, n: int) -> str:
    """Short stable classification of the root operation and its operand kinds."""
    op = tree["op"]

    def kind(node, nn):
        if node["op"] == "num":
            return "num"
        if node["op"] == "arr":
            return "arr"
        try:
            d = out_dim(node, nn)
        except IllShaped:
            return "?"
        base = "lin" if is_linear_object(node) else ("quad" if node["op"] in ("quad", "t2") else "fn")
        return f"{base}{'1' if d == 1 else 'v'}"

    if op in BINOPS:
        return f"{op}({kind(tree['a'], n)},{kind(tree['b'], n)})"
    if op == "agg":
        sc = "vecscale" if isinstance(tree["scale"], list) else ("unit" if Fraction(tree["scale"]) == 1 else "scaled")
        return f"agg-{tree['kind']}({sc}{',idx' if tree['idx'] is not None else ''})"
    if op in ("neg", "offn", "offa", "t1", "cl", "nrm"):
        return f"{op}({kind(tree['a'], n)})"
    if op == "res":
        return f"res({kind(tree['a'], tree['N'])})"
    if op == "lres":
        return f"lres({kind(tree['a'], n + len(tree['frozen']))})"
    if op == "lc":
        return f"lc({kind(tree['a'], len(tree['A']))})"
    if op == "cat":
        return "cat"
    return op


def judge(case: dict, obs: dict, res: Result | None = None) -> list[tuple[str, str]]:
    """Property clauses violated by the implementation on this case: list of (clause, message)."""
    bad: list[tuple[str, str]] = []
    tree, n = case["tree"], case["n"]
    if "build_exc" in obs:
        return [("raises-build", f"building the function raised {obs['build_exc']}")]
    smooth = has_smooth(tree)
    traces: dict[int, list] = {}
    first: dict[str, Any] = {}
    for rec in obs["points"]:
        x = [Fraction(t) for t in rec["x"]]
        try:
            if smooth:
                exp_v, exp_j, extra = smooth_expectation(tree, x)
                orc = None
            else:
                exp_v, exp_j, orc = oracle_eval(tree, x)
                extra = None
        except Undefined:
            continue
        if orc is not None:
            for k, v in orc.trace.items():
                traces.setdefault(k, []).extend(v)
        m = len(exp_v)
        for slot in ("v", "v2"):
            if slot + "_exc" in rec:
                bad.append(("raises-evaluate", f"evaluate({rec['x']}) raised {rec[slot + '_exc']}"))
                continue
            got = rec.get(slot)
            if got is None:
                continue
            if len(got) != m:
                bad.append(("value-shape", f"evaluate({rec['x']}) has {len(got)} components, the combination has {m}"))
                continue
            for i, (g, e) in enumerate(zip(got, exp_v)):
                ok, exact = close_any(g, e, smooth)
                if res is not None:
                    res.count("compared-exactly" if exact else "compared-rounded")
                if not ok:
                    bad.append(("value", f"evaluate({rec['x']})[{i}] = {g!r}, mathematically {show(e)}"))
                    break
            if smooth and extra is not None:
                for key, msg in extra(got[0]):
                    bad.append((key, f"at {rec['x']}: {msg}"))
        for slot in ("j", "j2"):
            if exp_j is None:
                continue  # not differentiable here (tie of a max): no claim on the Jacobian
            if slot + "_exc" in rec:
                bad.append(("raises-jac", f"jac({rec['x']}) raised {rec[slot + '_exc']}"))
                continue
            got = rec.get(slot)
            if got is None:
                continue
            if len(got) != m or any(len(r) != n for r in got):
                bad.append(("jac-shape", f"jac({rec['x']}) has shape {len(got)}x{len(got[0]) if got else 0}, expected {m}x{n}"))
                continue
            stop = False
            for i in range(m):
                for j in range(n):
                    ok, exact = close_any(got[i][j], exp_j[i][j], smooth)
                    if res is not None:
                        res.count("compared-exactly" if exact else "compared-rounded")
                    if not ok:
                        bad.append(("jac", f"jac({rec['x']})[{i}][{j}] = {got[i][j]!r}, exact derivative {show(exp_j[i][j])}"))
                        stop = True
                        break
                if stop:
                    break
        # repeatability (same point, same call): results must not depend on the call history
        for a, b, what in (("v", "v2", "evaluate"), ("j", "j2", "jac")):
            if a in rec and b in rec and rec[a] != rec[b]:
                bad.append(("history-dependent", f"two successive {what}({rec['x']}) calls returned {rec[a]} then {rec[b]}"))
        key = json.dumps(rec["x"])
        if key in first:
            for s in ("v", "j"):
                if s in rec and s in first[key] and rec[s] != first[key][s]:
                    bad.append(("history-dependent", f"{'evaluate' if s == 'v' else 'jac'}({rec['x']}) changed after evaluations at other points: {first[key][s]} then {rec[s]}"))
        else:
            first[key] = rec
        if rec.get("x_modified"):
            bad.append(("operand-modified", "the input vector was modified in place"))
        if rec["modified"]:
            bad.append(("operand-modified", "modified in place: " + "; ".join(sorted(set(rec["modified"]))[:3])))
        if rec.get("overwritten"):
            bad.append(("result-overwritten", rec["overwritten"][0] + ": a value returned to the caller is not the value of the function at its point any more"))
    # last_eval of operands: must be a value the operand really takes at a point it was evaluated at
    if not smooth:
        same_object = share_classes(tree)  # one function object used at several places: evaluated at the points of all of them
        for rec in obs["points"]:
            for nid, op, val in rec["last_eval"]:
                if nid == id(tree):
                    continue  # the root's own value is judged above
                cands = [t for g in same_object.get(nid, [nid]) for t in traces.get(g, [])]
                if not cands:
                    continue
                if not any(len(val) == len(c) and all(math.isfinite(a) and abs(F(a) - b) <= REL * max(1, abs(b)) for a, b in zip(val, c)) for _, c in cands):
                    bad.append(("operand-last-eval", f"last_eval of the operand `{op}` is {val}, not a value it takes at the evaluated points"))
                    break
    # de-duplicate, keep order
    seen = set()
    out = []
    for k, msg in bad:
        if k not in seen:
            seen.add(k)
            out.append((k, msg))
    return out


def show(e) -> str:
    if isinstance(e, Q):
        return rat(e.v) if e.v.denominator < 10**6 else f"{float(e.v)!r}"
    return str(e)


def close_any(g, e, smooth: bool) -> tuple[bool, bool]:
    if smooth:
        ref, tol = e
        if not isinstance(g, float) or not math.isfinite(g):
            return False, False
        import mpmath as mp

        return bool(abs(mp.mpf(g) - ref) <= tol), False
    return close(g, e)


def smooth_expectation(tree: dict, x: list[Fraction]):
    """Expected value/gradient of a root KS/IKS aggregation as (mpf, tol) pairs + the bound clauses."""
    import mpmath as mp

    if tree["op"] != "agg" or tree["kind"] not in SMOOTH_AGG:
        raise Undefined("smooth aggregation below the root")
    vals, jac, o = oracle_eval(tree["a"], x)
    if jac is None:
        raise Undefined("inner function not differentiable")
    kind = tree["kind"]
    rho = Fraction(tree["rho"])
    val, grad, gmax, k = smooth_agg_reference(kind, [q.v for q in vals], [[c.v for c in r] for r in jac], tree["idx"], tree["scale"], rho)
    maj = max([q.m for q in vals] + [Fraction(1)])
    majj = max([c.m for r in jac for c in r] + [Fraction(1)])
    smax = max([Fraction(c) for c in tree["scale"]] if isinstance(tree["scale"], list) else [Fraction(tree["scale"])])
    tol_v = mp.mpf(float(REL_SMOOTH * maj * smax * (1 + rho)))
    tol_j = mp.mpf(float(REL_SMOOTH * majj * maj * smax * smax * (1 + rho) * (1 + rho) * k))
    r = mp.mpf(rho.numerator) / rho.denominator

    def bounds(got: float):
        out = []
        gv = mp.mpf(got)
        slack = mp.log(k) / r
        if kind == "uks":
            if not (gv >= gmax - tol_v):
                out.append(("bound", f"upper-bound KS {got!r} is below the maximum {mp.nstr(gmax, 17)}"))
            if not (gv <= gmax + slack + tol_v):
                out.append(("bound", f"upper-bound KS {got!r} exceeds max + log(k)/rho = {mp.nstr(gmax + slack, 17)}"))
        elif kind == "lks":
            if not (gv <= gmax + tol_v):
                out.append(("bound", f"lower-bound KS {got!r} is above the maximum {mp.nstr(gmax, 17)}"))
        elif kind == "iks":
            if not (gv <= gmax + tol_v):
                out.append(("bound", f"IKS {got!r} is above the maximum {mp.nstr(gmax, 17)}"))
        return out

    return [(val, tol_v)], [[(g, tol_j) for g in grad]], bounds


# --------------------------------------------------------------------------- shrinking


def local_point(node: dict, child_index: int, x: list[Fraction]) -> tuple[int, list[Fraction]] | None:
    """Input dimension and point at which `node` evaluates its child when evaluated at x."""
    op = node["op"]
    n = len(x)
    if op in ("res", "lres"):
        frozen = node["frozen"]
        N = n + len(frozen)
        vals = dict(zip(frozen, [Fraction(t) for t in node["values"]]))
        active = [i for i in range(N) if i not in vals]
        full = [Fraction(0)] * N
        for k, i in enumerate(active):
            full[i] = x[k]
        for i, v in vals.items():
            full[i] = v
        return N, full
    if op == "lc":
        A = [[Fraction(t) for t in r] for r in node["A"]]
        return len(A), [sum((a * xi for a, xi in zip(r, x)), Fraction(0)) for r in A]
    if op == "nrm":
        lb = [Fraction(t) for t in node["lb"]]
        ub = [Fraction(t) for t in node["ub"]]
        return n, [(l + (u - l) * xi) if k else xi for l, u, k, xi in zip(lb, ub, node["mask"], x)]
    if op in ("t1", "t2"):
        return n, [Fraction(t) for t in node["at"]]
    return n, list(x)


def simple_leaf(n: int, m: int, variant: int) -> dict:
    polys = []
    for i in range(m):
        e1 = [0] * n
        e1[i % n] = 1
        e2 = [0] * n
        e2[(i + 1) % n] += 1
        e2[(i + variant) % n] += 1
        polys.append([[str(i + 2), e1], ["1", e2]])
    return {"op": "poly", "style": "a", "polys": polys}


def fails(case: dict, clause: str | None) -> list[tuple[str, str]]:
    try:
        out_dim(case["tree"], case["n"])
        if case.get("hist"):
            bad = hist.judge_session(case, hist.observe_session(case), session_expect)
        else:
            obs = observe(case)
            bad = judge(case, obs)
    except (IllShaped, Undefined):
        return []
    except Exception:  # noqa: BLE001
        return []
    if clause is None:
        return bad
    return [b for b in bad if b[0] == clause]


def shrink(case: dict, clause: str, budget: int = 60) -> tuple[dict, str]:
    """Smallest failing case found (single point, sub-tree, simple leaves) and the clause it violates."""
    cur = copy.deepcopy(case)
    calls = 0
    # 1. single point
    for p in cur["points"]:
        c = dict(cur, points=[p])
        calls += 1
        if fails(c, clause):
            cur = c
            break
    changed = True
    while changed and calls < budget:
        changed = False
        tree, n = cur["tree"], cur["n"]
        x = [Fraction(t) for t in cur["points"][0]]
        # 2. descend into a failing child (any clause of the same family); every point is carried down
        # (a failure that needs two different points stays reproducible)
        for ci, ch in enumerate(children(tree)):
            if ch["op"] in ("num", "arr"):
                continue
            lp = local_point(tree, ci, x)
            if lp is None:
                continue
            cn = lp[0]
            cpts = [[rat(t) for t in local_point(tree, ci, [Fraction(t) for t in p])[1]] for p in cur["points"]]
            cpts = [p for i, p in enumerate(cpts) if p not in cpts[:i]]
            c = {"n": cn, "tree": ch, "points": cpts, "order": cur.get("order", "vj")}
            calls += 1
            sub_bad = fails(c, None)
            if sub_bad:
                # the root cause is below: go on with the clause the sub-tree violates
                cur = c
                if not any(k == clause for k, _ in sub_bad):
                    clause = sub_bad[0][0]
                changed = True
                break
        if changed:
            continue
        # 3. replace non-leaf children by simple leaves
        for key in ("a", "b"):
            ch = tree.get(key)
            if not isinstance(ch, dict) or ch["op"] in ("num", "arr", "poly"):
                continue
            if tree["op"] in ("lres", "nrm") or (tree["op"] in ("neg", "offn", "offa") and is_linear_object(ch)):
                repl_of = lambda cn, cm, v: gen_lin(common.make_rng(v, "shrink"), cn, cm)  # noqa: E731
            else:
                repl_of = simple_leaf
            ci = 0 if key == "a" else 1
            cn = local_point(tree, ci, x)[0]
            try:
                cm = out_dim(ch, cn)
            except IllShaped:
                continue
            for variant in (1, 2):
                t2 = dict(tree)
                t2[key] = repl_of(cn, cm, variant)
                c = dict(cur, tree=t2)
                calls += 1
                if fails(c, clause):
                    cur = c
                    changed = True
                    break
            if changed:
                break
        if changed:
            continue
        if tree["op"] == "cat" and len(tree["args"]) > 1:
            for i in range(len(tree["args"])):
                t2 = dict(tree, args=tree["args"][:i] + tree["args"][i + 1 :])
                c = dict(cur, tree=t2)
                calls += 1
                if fails(c, clause):
                    cur = c
                    changed = True
                    break
    return cur, clause


# --------------------------------------------------------------------------- correspondence with the Lean model


def model_lines(case: dict) -> list[str]:
    return [protocol_line(case["tree"], case["n"], [Fraction(t) for t in p]) for p in case["points"]]


def parse_model(ans: str):
    """`v=<rats> J=<row;row>` -> (values, rows) | error tag."""
    if not ans.startswith("v="):
        return ans
    v, j = ans.split(" ")
    vals = [Fraction(t) for t in v[2:].split(",")] if v[2:] != "[]" else []
    rows = [[Fraction(t) for t in r.split(",")] if r != "[]" else [] for r in j[2:].split(";")] if j[2:] != "[]" else []
    return vals, rows


def compare_with_model(case: dict, obs: dict, answers: list[str]) -> list[str]:
    """Differences between the real code and the model on the points of the case (in scope only)."""
    diffs = []
    tree = case["tree"]
    for p, ans, rec in zip(case["points"], answers, obs["points"]):
        x = [Fraction(t) for t in p]
        try:
            exp_v, exp_j, _ = oracle_eval(tree, x)
        except Undefined:
            continue
        mod = parse_model(ans)
        if isinstance(mod, str):
            diffs.append(f"model answers {mod} at {p}")
            continue
        mv, mj = mod
        got = rec.get("v")
        if got is None or len(got) != len(mv):
            diffs.append(f"value at {p}: code {got if got is not None else rec.get('v_exc')}, model {[rat(t) for t in mv]}")
        else:
            for i, (g, e) in enumerate(zip(got, mv)):
                scale = exp_v[i] if i < len(exp_v) else Q(e)
                if not close(g, Q(e, scale.m, scale.d))[0]:
                    diffs.append(f"value[{i}] at {p}: code {g!r}, model {rat(e)}")
                    break
        if exp_j is None:
            continue
        gj = rec.get("j")
        if gj is None or len(gj) != len(mj) or any(len(a) != len(b) for a, b in zip(gj, mj)):
            diffs.append(f"jacobian at {p}: code {gj if gj is not None else rec.get('j_exc')}, model {[[rat(t) for t in r] for r in mj]}")
        else:
            done = False
            for i, (ra, rb) in enumerate(zip(gj, mj)):
                for j, (g, e) in enumerate(zip(ra, rb)):
                    scale = exp_j[i][j] if i < len(exp_j) and j < len(exp_j[i]) else Q(e)
                    if not close(g, Q(e, scale.m, scale.d))[0]:
                        diffs.append(f"jacobian[{i}][{j}] at {p}: code {g!r}, model {rat(e)}")
                        done = True
                        break
                if done:
                    break
    return diffs


def driver_available() -> bool:
    return (common.LEAN_DIR / "Driver" / f"{PID}.lean").exists()


# --------------------------------------------------------------------------- run


def case_key(case: dict) -> str:
    return json.dumps([case["n"], case["tree"], case["points"]], sort_keys=True)


def count_alias_features(res: Result, tree: dict, n: int, prefix: str) -> None:
    """Histogram of the aliasing-relevant features of a tree: user functions returning (a view of) their input and what
    calls them; one function object used at several places."""
    seen: set[str] = set()

    def visit(node: dict, parent: str) -> None:
        if node["op"] == "poly" and node.get("style") == "w":
            seen.add(f"view-leaf:{view_kind(node)}")
            seen.add(f"view-leaf-called-by:{parent}")
        if node.get("shared_how"):
            seen.add(f"one-object-twice:{node['shared_how']}({node['op']})")
        if node.get("share") is not None:
            seen.add("shared-object:" + (("view-leaf" if node.get("style") == "w" else node["op"])
                                         + ("(view-leaf)" if any(c.get("style") == "w" for c in children(node)) else "")))
        for c in children(node):
            visit(c, node["op"] if node["op"] != "agg" else "agg-" + node["kind"])

    visit(tree, "caller(root)")
    for k in seen:
        res.count(prefix + k)


def check_cases(res: Result, cases: list[dict], in_scope: bool = True, use_model: bool = True) -> None:
    answers: list[list[str]] = [[] for _ in cases]
    exact_cases = [i for i, c in enumerate(cases) if not has_smooth(c["tree"])]
    if use_model and driver_available() and exact_cases:
        lines: list[str] = []
        spans = []
        for i in exact_cases:
            ls = model_lines(cases[i])
            spans.append((i, len(lines), len(lines) + len(ls)))
            lines += ls
        out = common.run_lean_driver(PID, lines)
        for i, a, b in spans:
            answers[i] = out[a:b]
    for case, ans in zip(cases, answers):
        res.evaluations += 1
        tree, n = case["tree"], case["n"]
        try:
            obs = observe(case)
        except (IllShaped, Undefined):
            res.count("skipped-ill-shaped")
            continue
        ops = tree_ops(tree)
        for o in set(ops):
            res.count("op:" + o)
        count_alias_features(res, tree, n, "")
        if len(case["points"]) > 1:
            res.count("points:2-different(results of the first re-read after the second)")
        m = out_dim(tree, n)
        res.count(f"n={n},m={m}{'(n==m)' if n == m else ''}")
        res.count(f"depth={tree_depth(tree)}")
        res.count("stream:" + ("smooth" if has_smooth(tree) else "algebraic"))
        if tree_depth(tree) >= 2:
            res.nontrivial(case_key(case))
        bad = judge(case, obs, res) if in_scope else []
        res.sample({"protocol_line": model_lines(case)[0] if not has_smooth(tree) else "(smooth aggregation: rounded oracle only)",
                    "impl_value": obs["points"][0].get("v") if obs.get("points") else obs.get("build_exc"),
                    "model": ans[0] if ans else None})
        reported = False
        for clause, msg in bad:
            small, sclause = shrink(case, clause)
            small_bad = fails(small, sclause) or [(clause, msg)]
            key = f"{sclause}:{root_sig(small['tree'], small['n'])}"
            res.violate("oracle", key, small_bad[0][1] + f" [tree root: {root_sig(small['tree'], small['n'])}]",
                        {"case": small, "clause": sclause, "original_case": case if small != case else None})
            reported = True
        if ans and "build_exc" not in obs:
            diffs = compare_with_model(case, obs, ans)
            if diffs:
                res.disagreements += 1
                if in_scope and not reported:
                    found = search_failing_input(res, case)
                    if not found:
                        res.violate(
                            "correspondence",
                            f"model-vs-impl:{root_sig(tree, n)}",
                            "implementation and Lean model disagree (no property-violating input found around the case): " + diffs[0],
                            {"case": case, "protocol_lines": model_lines(case), "model": ans, "differences": diffs,
                             "correspondence": "Driver/C10.lean `eval`"},
                        )
                elif not in_scope:
                    res.count("probe-disagreement:" + str(case.get("probe", "")))
            else:
                res.traces_validated += 1


def search_failing_input(res: Result, case: dict) -> bool:
    """Neighbours of a disagreeing case: every sub-tree at its local point, other points, both call orders."""
    rng = common.make_rng(0, "c10-search:" + case_key(case)[:200])
    cands = []
    for order in ("vj", "jv"):
        cands.append(dict(case, order=order))
    for _ in range(6):
        cands.append(dict(case, points=[gen_point(rng, case["n"])]))

    def subs(tree, n, x):
        for ci, ch in enumerate(children(tree)):
            if ch["op"] in ("num", "arr"):
                continue
            lp = local_point(tree, ci, x)
            if lp:
                yield {"n": lp[0], "tree": ch, "points": [[rat(t) for t in lp[1]]], "order": "vj"}
                yield from subs(ch, lp[0], lp[1])

    cands += list(subs(case["tree"], case["n"], [Fraction(t) for t in case["points"][0]]))
    for c in cands[:40]:
        bad = fails(c, None)
        if bad:
            clause, msg = bad[0]
            small, sclause = shrink(c, clause)
            key = f"{sclause}:{root_sig(small['tree'], small['n'])}"
            res.violate("oracle", key, msg, {"case": small, "clause": sclause})
            return True
    return False




# --------------------------------------------------------------------------- sessions (histories on one tree)

SESSION_GENS = {
    "case": lambda rng, max_depth, smooth=False: gen_case(rng, max_depth=max_depth, smooth=smooth),
    "smooth": lambda tree: has_smooth(tree),
    "point": gen_point,
    "poly": gen_poly,
    "quad": gen_quad,
    "in_scope": in_scope_points,
}


def gen_session_case(rng) -> dict | None:
    return hist.gen_session_case(rng, SESSION_GENS)


SWEEP_KINDS = [
    "add", "sub", "mul", "div", "neg", "offn", "offa", "res", "lc", "cat", "t1", "t2", "cl",
    "agg-sumsq", "agg-possumsq", "agg-max", "agg-uks", "agg-lks", "agg-iks", "nrm", "lres", "lin", "quad", "poly",
]
VIEW_WRAPPERS = ["poly", "res", "lc", "neg", "offn", "offa", "cat", "cl", "mul", "add-num", "agg-sumsq", "agg-possumsq", "agg-max", "agg-uks"]
SWEEP_KINDS += ["view:" + w for w in VIEW_WRAPPERS]
SWEEP_KINDS += [f"twice:{op}:{how}" for op in (*BINOPS, "cat") for how in ("lc-lc", "res-res", "same-argument", "direct-lc")]
SWEEP_CALLS = ("v", "j", "f")
SWEEP_MIDS = ("nothing", "x-inplace", "x-fresh-equal", "x-fresh-new")


def gen_view_tree(rng, w: str) -> tuple[int, dict] | None:
    """A user function returning (a view of) its input array, called by a node of kind `w`."""
    n = rng.pick([2, 3, 3])
    m = rng.randint(1, n) if not w.startswith("agg-") else rng.randint(2, n)
    if rng.chance(0.4):
        m = n
    if w == "poly":
        return n, gen_view_leaf(rng, n, m)
    if w == "res":
        kf = rng.pick([1, 1, 2])
        N = n + kf
        m = rng.randint(1, N)
        return n, {"op": "res", "a": gen_view_leaf(rng, N, m), "N": N, "frozen": sorted(rng.sample(range(N), kf)), "values": gen_point(rng, kf)}
    if w == "lc":
        k = rng.pick([2, 3, 4])
        m = rng.randint(1, k)
        return n, {"op": "lc", "a": gen_view_leaf(rng, k, m), "A": [[str(rng.randint(-2, 2)) for _ in range(n)] for _ in range(k)]}
    v = gen_view_leaf(rng, n, m)
    if w == "neg":
        return n, {"op": "neg", "a": v}
    if w == "offn":
        return n, {"op": "offn", "a": v, "v": str(rng.randint(-3, 3))}
    if w == "offa":
        return n, {"op": "offa", "a": v, "v": [str(rng.randint(-3, 3)) for _ in range(m)]}
    if w == "cat":
        other = gen_view_leaf(rng, n, rng.randint(1, n)) if rng.chance(0.5) else gen_poly(rng, n, rng.randint(1, 2))
        return n, {"op": "cat", "args": [v, other] if rng.chance(0.5) else [other, v]}
    if w == "cl":
        return n, {"op": "cl", "a": v, "at": [str(rng.pick([-3, -2, -1, 1, 2, 3])) for _ in range(n)],
                   "mask": None if rng.chance(0.4) else [int(rng.chance(0.6)) for _ in range(n)]}
    if w == "mul":
        return n, {"op": rng.pick(["mul", "add", "sub"]), "a": v, "b": gen_node(rng, n, rng.pick([m, 1]), 1)}
    if w == "add-num":
        return n, {"op": rng.pick(["add", "mul", "sub", "div"]), "a": v, "b": {"op": "num", "v": str(rng.pick([-3, -2, 2, 4]))}}
    if w.startswith("agg-"):
        node = gen_agg(rng, n, 0, w[4:])
        node["a"] = v
        node["idx"] = None if rng.chance(0.6) else sorted(rng.sample(range(m), rng.randint(1, m)))
        k = m if node["idx"] is None else len(node["idx"])
        if isinstance(node["scale"], list):
            node["scale"] = [rat(rng.pick([Fraction(1), Fraction(2), Fraction(3), Fraction(1, 2)])) for _ in range(k)]
        return n, node
    return None


def gen_tree_of_kind(rng, kind: str) -> tuple[int, dict] | None:
    """A random tree whose root is of the given kind (operators: both operands are functions)."""
    if kind.startswith("view:") or kind.startswith("twice:"):
        for _ in range(100):
            if kind.startswith("view:"):
                nt = gen_view_tree(rng, kind[5:])
                if nt is None or nt[1] is None:
                    continue
                n, tree = nt
            else:
                _, op, how = kind.split(":")
                n = rng.pick([1, 2, 2, 3])
                m = rng.pick([1, 2, 3])
                a, b, how = gen_shared_pair(rng, n, m, 2, how)
                tree = {"op": "cat", "args": [a, b], "shared_how": how} if op == "cat" else {"op": op, "a": a, "b": b, "shared_how": how}
            try:
                out_dim(tree, n)
            except IllShaped:
                continue
            if share_consistent(tree):
                return n, tree
        return None
    for _ in range(400):
        n = rng.pick([1, 2, 2, 3])
        m = rng.pick([1, 2, 3])
        if rng.chance(0.4):
            m = n
        if kind.startswith("agg-"):
            tree = gen_agg(rng, n, 1, kind[4:])
        elif kind == "lin":
            tree = gen_lin(rng, n, m)
        elif kind == "quad":
            tree = gen_quad(rng, n)
        elif kind == "poly":
            tree = gen_poly(rng, n, m)
        elif kind in BINOPS:
            tree = {"op": kind, "a": gen_node(rng, n, m, 1), "b": gen_node(rng, n, rng.pick([m, m, 1]), 1)}
        elif kind in ("nrm", "lres"):
            tree = gen_linear(rng, n, m, 2, True)
        else:
            tree = gen_node(rng, n, m, 2, top=True)
        if tree["op"] != ("agg" if kind.startswith("agg-") else kind):
            continue
        try:
            out_dim(tree, n)
        except IllShaped:
            continue
        return n, tree
    return None


def gen_sweep_sessions(rng, calls=SWEEP_CALLS, mids=SWEEP_MIDS, trees_per_kind: int = 1) -> list[dict]:
    """For EVERY root node kind and EVERY pair of successive calls with every kind of buffer update in
    between: `c1 ; (nothing | x[:] = p2 | x = array(p1) | x = array(p2)) ; c2`."""
    out = []
    for kind in SWEEP_KINDS:
        for _ in range(trees_per_kind):
            pts: list = []
            for _attempt in range(8):
                nt = gen_tree_of_kind(rng, kind)
                if nt is None:
                    continue
                n, tree = nt
                pts = in_scope_points(tree, n, [gen_point(rng, n) for _ in range(10)])
                pts = [p for i, p in enumerate(pts) if p not in pts[:i]]
                if len(pts) >= 2:
                    break
            if len(pts) < 2:
                continue
            for c1 in calls:
                for mid in mids:
                    for c2 in calls:
                        p1, p2 = pts[0], pts[1]
                        script = [{"do": "x", "p": p1, "how": "fresh"}, {"do": c1}]
                        if mid == "x-inplace":
                            script.append({"do": "x", "p": p2, "how": "inplace"})
                        elif mid == "x-fresh-equal":
                            script.append({"do": "x", "p": list(p1), "how": "fresh"})
                        elif mid == "x-fresh-new":
                            script.append({"do": "x", "p": p2, "how": "fresh"})
                        script.append({"do": c2})
                        out.append({"hist": True, "n": n, "tree": tree, "script": script, "sweep": kind})
    return out


def session_expect(desc: dict, x: list[Fraction]):
    """The oracle for a tree description at an exact point (see hist.judge_session)."""
    if has_smooth(desc):
        exp_v, exp_j, bounds = smooth_expectation(desc, x)
        return exp_v, exp_j, (lambda g, e: close_any(g, e, True)), bounds
    exp_v, exp_j, _ = oracle_eval(desc, x)
    return exp_v, exp_j, close, None


def session_key(small: dict, clause: str) -> str:
    """`history-<clause>` when the failure needs a history (several calls, an in-place update of the
    point buffer, an edit of a parameter); the plain clause when one call on a fresh array fails."""
    sig = root_sig(small["tree"], small["n"])
    return f"{'history-' if hist.is_history(small) else ''}{clause}:{sig}"


def plain_failure_of_session(case: dict, obs: dict) -> tuple[dict, list[tuple[str, str]]] | None:
    """A history-free witness: the tree with the parameters in force at some call of the session,
    evaluated once on fresh arrays at the point of that call, already violates the property."""
    descs = hist.descs_of(case, obs)
    cur = None
    tried = set()
    for k, st in enumerate(case["script"]):
        if st["do"] == "x":
            cur = st["p"]
        elif st["do"] in hist.CALLS and cur is not None:
            c = {"n": case["n"], "tree": descs[k], "points": [cur], "order": "vj"}
            key = case_key(c)
            if key in tried:
                continue
            tried.add(key)
            if len(tried) > 6:
                break
            b = fails(c, None)
            if b:
                return c, b
    return None


def check_sessions(res: Result, cases: list[dict], use_model: bool = True) -> None:
    all_lines: list[str] = []
    spans_of: list[tuple[int, list[tuple[int, int]]]] = []
    for c in cases:
        ls, spans = hist.session_lines(c)
        spans_of.append((len(all_lines), spans))
        all_lines += ls
    store_of: list[tuple[int, list[str], list[int]] | None] = []
    for c in cases:
        sl = hist.store_lines(c)
        store_of.append(None if sl is None else (len(all_lines), sl[0], sl[1]))
        if sl is not None:
            all_lines += sl[0]
    out = common.run_lean_driver(PID, all_lines) if use_model and driver_available() and all_lines else None
    for case, (base, spans), store in zip(cases, spans_of, store_of):
        res.evaluations += 1
        tree, n = case["tree"], case["n"]
        try:
            obs = hist.observe_session(case)
        except (IllShaped, Undefined):
            res.count("skipped-ill-shaped")
            continue
        res.count("stream:session")
        sc = case["script"]
        res.count(f"session-calls={min(sum(1 for s in sc if s['do'] in hist.CALLS), 9)}")
        for s_ in sc:
            if s_["do"] == "set":
                res.count(f"session-set:{s_['attr']}({s_['how']})")
            elif s_["do"] == "x":
                res.count(f"session-x:{s_['how']}")
            else:
                res.count("session-step:" + s_["do"])
        for pat in hist.script_patterns(case):
            res.count("session-history:" + pat)
        for o in set(tree_ops(tree)):
            res.count("session-op:" + o)
        count_alias_features(res, tree, n, "session-")
        if any(r.get("result_is_callers_buffer") for r in obs.get("steps", [])):
            res.count("session-result-is-the-callers-own-buffer(not re-read)")
        res.nontrivial("session:" + json.dumps([n, tree, sc], sort_keys=True))
        bad = hist.judge_session(case, obs, session_expect, res)
        first_call = next((r for s_, r in zip(sc, obs.get("steps", [])) if s_["do"] in hist.CALLS), {})
        fa, fb = spans[next(i for i, s_ in enumerate(sc) if s_["do"] in hist.CALLS)]
        res.sample({"protocol_line": "; ".join(hist.session_lines(case)[0][:4]) + " ...", "impl_value": first_call.get("got", first_call.get("exc")),
                    "model": out[base + fb - 1] if out and fb > fa else None})
        reported = False
        plain_done = False
        for clause, msg in bad:
            if not plain_done:
                # does a single call on a fresh array already fail (with the operands as they are at that step)?
                plain_done = True
                plain = plain_failure_of_session(case, obs)
                if plain is not None:
                    pcase, pbad = plain
                    for pclause, pmsg in pbad:
                        small, sclause = shrink(pcase, pclause)
                        small_bad = fails(small, sclause) or [(pclause, pmsg)]
                        res.violate("oracle", f"{sclause}:{root_sig(small['tree'], small['n'])}",
                                    small_bad[0][1] + f" [tree root: {root_sig(small['tree'], small['n'])}] [found by the session stream]",
                                    {"case": small, "clause": sclause, "original_case": case})
                    reported = True
                    break
            small, sclause = hist.shrink_session(case, clause, fails, local_point)
            small_bad = fails(small, sclause) or [(clause, msg)]
            res.violate("oracle", session_key(small, sclause), small_bad[0][1] + f" [tree root: {root_sig(small['tree'], small['n'])}]",
                        {"case": small, "clause": sclause, "original_case": case if small != case else None})
            reported = True
        if out is not None and "build_exc" not in obs:
            answers = [out[base + i] for i in range(spans[-1][1])] if spans else []
            diffs = hist.compare_session_with_model(case, obs, answers, spans, close, parse_model, Q)
            if diffs:
                res.disagreements += 1
                if not reported:
                    res.violate(
                        "correspondence",
                        f"model-vs-impl:session:{root_sig(tree, n)}",
                        "implementation and Lean model disagree on a session (the oracle holds on it): " + diffs[0],
                        {"case": case, "protocol_lines": hist.session_lines(case)[0], "model": answers, "differences": diffs,
                         "correspondence": "Driver/C10.lean sessions (`step` of Model/C10.lean)"},
                    )
            else:
                res.traces_validated += 1
        if out is not None and store is not None and "build_exc" not in obs:
            sbase, slines, ssteps = store
            res.count("storage-model:sessions")
            res.count("storage-model:calls", len(ssteps))
            if any(obs["steps"][k].get("in_buffer") for k in ssteps if k < len(obs["steps"])):
                res.count("storage-model:session-with-a-result-in-the-callers-buffer")
            sdiffs = hist.compare_store_with_model(case, obs, slines, ssteps, out[sbase : sbase + len(slines)], close, Q)
            if sdiffs:
                res.disagreements += 1
                if not reported:
                    res.violate(
                        "correspondence",
                        f"model-vs-impl:storage:{root_sig(tree, n)}",
                        "implementation and Lean storage model disagree on where the returned arrays live (the oracle holds on the session): " + sdiffs[0],
                        {"case": case, "protocol_lines": slines, "model": out[sbase : sbase + len(slines)], "differences": sdiffs,
                         "correspondence": "Driver/C10.lean storage histories (`Hist.step`, `SExpr.run` of Model/C10.lean)"},
                    )
            else:
                res.traces_validated += 1


# --------------------------------------------------------------------------- ConstraintAggregation discipline

DISC_METHOD = {"sumsq": "SUM", "possumsq": "POS_SUM", "max": "MAX", "uks": "upper_bound_KS", "lks": "lower_bound_KS", "iks": "IKS"}


def gen_disc_case(rng) -> dict:
    """The discipline aggregates its input vector: same as aggregating the identity function, whose
    total Jacobian is the partial Jacobian the discipline returns."""
    m = rng.pick([2, 3, 3, 4, 5])
    kind = rng.pick(["sumsq", "possumsq", "uks", "lks", "iks", "max"])
    node = gen_agg(rng, m, 0, kind)
    k = m
    idx = None
    if rng.chance(0.4):
        k = rng.randint(1, m)
        idx = sorted(rng.sample(range(m), k))
    node["idx"] = idx
    if isinstance(node["scale"], list):
        node["scale"] = [rat(rng.pick([Fraction(1), Fraction(2), Fraction(3), Fraction(1, 2)])) for _ in range(k)]
    node["a"] = {"op": "lin", "A": [[("1" if i == j else "0") for j in range(m)] for i in range(m)], "b": ["0"] * m}
    pts = in_scope_points(node, m, [gen_point(rng, m) for _ in range(6)])[:2]
    return {"n": m, "tree": node, "points": pts or [[str(i) for i in range(m)]], "order": "vj", "disc": True}


def observe_disc(case: dict) -> dict:
    from gemseo.disciplines.constraint_aggregation import ConstraintAggregation

    node = case["tree"]
    kind = node["kind"]
    opts: dict[str, Any] = {}
    if node["idx"] is not None:
        opts["indices"] = list(node["idx"])
    sc = node["scale"]
    scale_arr = None
    if isinstance(sc, list):
        scale_arr = np.array([float(Fraction(c)) for c in sc])
        opts["scale"] = scale_arr
    else:
        opts["scale"] = float(Fraction(sc))
    if kind in SMOOTH_AGG:
        opts["rho"] = float(Fraction(node["rho"]))
    obs: dict[str, Any] = {"points": []}
    try:
        disc = ConstraintAggregation(["c"], DISC_METHOD[kind], **opts)
    except Exception as e:  # noqa: BLE001
        obs["build_exc"] = common.exc_class(e) + ": " + repr(e)[:200]
        return obs
    out_name = f"{DISC_METHOD[kind]}_c"
    scale_ref = None if scale_arr is None else scale_arr.copy()
    for p in list(case["points"]) + list(case["points"][:1]):
        rec: dict[str, Any] = {"x": p, "modified": [], "last_eval": []}
        v = np.array([float(Fraction(t)) for t in p])
        v_ref = v.copy()
        for slot in ("v", "j", "v2", "j2"):
            try:
                if slot.startswith("v"):
                    rec[slot] = canon_value(disc.execute({"c": v})[out_name])
                else:
                    rec[slot] = canon_jac(disc.linearize({"c": v}, compute_all_jacobians=True)[out_name]["c"])
            except Exception as e:  # noqa: BLE001
                rec[slot + "_exc"] = common.exc_class(e) + ": " + repr(e)[:160]
        if not np.array_equal(v, v_ref):
            rec["modified"].append("input data of the discipline")
        if scale_ref is not None and not np.array_equal(scale_arr, scale_ref):
            rec["modified"].append("scale option of the discipline")
        obs["points"].append(rec)
    return obs

# --------------------------------------------------------------------------- symbolic stream (for all x)


def symbolic_ok(tree: dict) -> bool:
    """The real code of every node is dtype-agnostic: it can be evaluated on sympy symbols."""
    for o in tree_ops(tree):
        if o in ("res", "cl") or (o.startswith("agg-") and o != "agg-sumsq"):
            return False
    return True


def _rat_fun_equal(a, b, syms) -> bool:
    """a == b as rational functions of syms, up to a relative coefficient error of 2^-40
    (the code's constants are floats: 1.0/3.0 is not the rational 1/3)."""
    import sympy as sp

    na, da = sp.fraction(sp.together(sp.sympify(a)))
    nb, db = sp.fraction(sp.together(sp.sympify(b)))
    p1 = sp.Poly(sp.expand(na * db), *syms)
    p2 = sp.Poly(sp.expand(nb * da), *syms)
    diff = p1 - p2
    scale = sum(abs(float(c)) for c in p1.coeffs()) + sum(abs(float(c)) for c in p2.coeffs())
    worst = max([abs(float(c)) for c in diff.coeffs()] + [0.0])
    if not math.isfinite(worst) or not math.isfinite(scale):
        return False
    return worst <= float(REL) * max(scale, 1e-300) or worst == 0.0


def symbolic_verdict(case: dict) -> tuple[str, list[tuple[str, str]]]:
    """Evaluate the real objects on object arrays of sympy symbols: value and Jacobian are compared
    with the oracle's expressions as rational functions, i.e. for every real input at once.
    Pure function of the case (run in worker processes): ("ok" | "skipped" | "large" | "bad", clauses)."""
    import sympy as sp

    from harness.c10_tree import SQ
    from harness.c10_tree import Oracle

    common.quiet_gemseo()
    tree, n = case["tree"], case["n"]
    syms = sp.symbols(f"x0:{n}", real=True)
    x = np.array(syms, dtype=object)
    try:
        exp = Oracle().ev(tree, [SQ(t) for t in syms])
    except (Undefined, IllShaped):
        return "skipped", []
    exp_v = [d.v.v for d in exp]
    if sum(sp.count_ops(e) for e in exp_v) > 400 or tree_ops(tree).count("div") > 2:
        return "large", []
    bad: list[tuple[str, str]] = []
    try:
        impl = Impl(tree, n)
        v = np.atleast_1d(impl.root.evaluate(x)).ravel()
        jac = np.atleast_2d(impl.root.jac(x))
    except Exception as e:  # noqa: BLE001
        return "bad", [("symbolic-raises", f"evaluation on symbols raised {common.exc_class(e)}: {repr(e)[:150]}")]
    if len(v) != len(exp_v) or jac.shape != (len(exp_v), n):
        return "bad", [("symbolic-shape", f"value/Jacobian shapes {len(v)}, {jac.shape} for a function R^{n} -> R^{len(exp_v)}")]
    for i, (g, e) in enumerate(zip(v, exp_v)):
        if not _rat_fun_equal(g, e, syms):
            bad.append(("symbolic-value", f"component {i}: the code evaluates {sp.simplify(g)} for symbolic inputs, the combination is {sp.simplify(e)}"))
            break
    done = False
    for i, e in enumerate(exp_v):
        for j, sj in enumerate(syms):
            if not _rat_fun_equal(jac[i, j], sp.diff(e, sj), syms):
                bad.append(("symbolic-jac", f"jac[{i}][{j}] is {sp.simplify(jac[i, j])} for symbolic inputs, the derivative is {sp.simplify(sp.diff(e, sj))}"))
                done = True
                break
        if done:
            break
    return ("bad", bad) if bad else ("ok", [])


def check_symbolic(res: Result, cases: list[dict], deadline: float | None = None, workers: int = 8, per_case_s: float = 40.0) -> None:
    """Symbolic stream over a pool of worker processes (sympy can be slow on some rational functions:
    a case that does not finish in `per_case_s` is counted as `symbolic-timeout`, never as a verdict)."""
    import multiprocessing as mp
    import time as _time

    if not cases:
        return
    ctx = mp.get_context("fork")
    pool = ctx.Pool(processes=min(workers, len(cases)), maxtasksperchild=25)
    try:
        pending = [(case, pool.apply_async(symbolic_verdict, (case,))) for case in cases]
        for case, fut in pending:
            tree, n = case["tree"], case["n"]
            res.evaluations += 1
            res.count("stream:symbolic")
            try:
                budget = per_case_s if deadline is None else max(1.0, min(per_case_s, deadline - _time.time()))
                status, bad = fut.get(timeout=budget)
            except mp.TimeoutError:
                res.count("symbolic-timeout")
                continue
            except Exception as e:  # noqa: BLE001
                res.count("symbolic-worker-error")
                res.notes.append(f"symbolic worker error: {e!r}"[:200])
                continue
            if status == "skipped":
                res.count("symbolic-skipped")
                continue
            if status == "large":
                res.count("symbolic-skipped-large")
                continue
            if tree_depth(tree) >= 2:
                res.nontrivial("sym:" + case_key(case))
            if status == "ok":
                res.count("symbolic-identities-proved")
                continue
            # a symbolic difference has numeric witnesses: look for one and shrink it (standard replay)
            rng = common.make_rng(1, "c10-sym:" + case_key(case)[:200])
            found = False
            for _ in range(24):
                c = dict(case, points=[gen_point(rng, n)])
                nb = fails(c, None)
                if nb:
                    clause, msg = nb[0]
                    small, sclause = shrink(c, clause)
                    res.violate("oracle", f"{sclause}:{root_sig(small['tree'], small['n'])}", msg + " [found by the symbolic stream]",
                                {"case": small, "clause": sclause})
                    found = True
                    break
            if not found:
                # A symbolic difference without any numeric witness among 24 random points is not a failing input:
                # it is what float rounding of the constants of a node evaluated numerically at construction
                # (Taylor / convex-linear expansion points, divisions) leaves in the symbolic expression
                # (seen: -4.4e-16 instead of 0 in a first-order Taylor node). A genuine discrepancy between two
                # rational functions is non-zero at almost every point, so it has witnesses. Counted, never a verdict.
                clause, msg = bad[0]
                res.count("symbolic-difference-without-numeric-witness")
                res.notes.append(f"symbolic difference without numeric witness (rounding of constants): {msg}"[:300])
    finally:
        pool.terminate()
        pool.join()


def gen_symbolic_case(rng) -> dict | None:
    for _ in range(30):
        c = gen_case(rng, max_depth=3)
        if c is not None and symbolic_ok(c["tree"]) and c["n"] <= 3:
            return c
    return None


def load_corpus() -> list[dict]:
    d = common.CORPUS_DIR / PID
    out = []
    if d.is_dir():
        for p in sorted(d.glob("*.json")):
            out.append(json.loads(p.read_text())["case"])
    return out


def run(ctx) -> Result:
    res = Result(PID)
    res.rule = (
        "random expression trees (depth 1-4; input dimension 1-3 (+frozen inputs), output dimension 1-4 with n==m over-represented; "
        "polynomial/linear/quadratic leaves with small integer coefficients; second operands: function of the same dimension, scalar "
        "function, number, array) evaluated at 2 integer or half-integer points, each twice and in both call orders; "
        "a case is non-trivial when its tree has depth >= 2; distinct by (tree, points). "
        "About 16 % of the leaves with m <= n are user functions returning their input array or a basic-slice view of it; 12 % of the operator / "
        "even concatenation nodes use ONE function object twice (S(Ax), S(Bx) | restrictions of S at different frozen values | S, S | S, S(Bx)); "
        "every returned array of a case is kept and re-read after the later calls. "
        "Sessions (harness/c10_hist.py): one tree (all node kinds, KS/IKS roots included), one point buffer owned by the caller, a script of "
        "7-14 steps among: in-place update of the buffer / another array (equal or new content), evaluate / jac / func of the root or of a "
        "sub-expression, edit of a public parameter of a leaf (quad_coeffs, linear_coeffs, coefficients, value_at_zero by setter, whole-array "
        "or single-entry in-place write; func/jac of a user function), tree kept (call-time paths only) or rebuilt; every session is non-trivial, "
        "distinct by (tree, script); storage sessions: trees of the fragment of the storage model (views, new arrays, restriction, linear "
        "composition, operators, negation, concatenation, shared objects), 5-10 steps of buffer writes and evaluate/func/jac"
    )
    res.assumptions = [
        "evaluation points keep every divisor >= 1/2 in magnitude and avoid the singular set x_i = x_hat_i of convex linearisations",
        "the Jacobian of `max` is only claimed where the maximiser is unique",
        "KS/IKS aggregations are at the root of the tree (rounded stream, mpmath reference)",
        "sum-of-squares aggregations with a scale are taken as sum(scale * g^2) (the code's documented parameter); KS/IKS/max aggregate scale * g",
        "sessions: after an edit of an operand, a tree built BEFORE the edit is called again only if every node between the root and the operand "
        "calls it at call time (operators, generic neg/offset, restriction, linear composition, concatenation, aggregations); the linear overrides, "
        "Taylor polynomials and convex linearisations copy/evaluate the operand at construction and are rebuilt (the property does not say which "
        "parameters they should follow); the current parameters of an object are what its public getters return",
    ]
    rng = ctx.rng
    n_cases = 12000 if ctx.thorough else 2000
    n_smooth = 2000 if ctx.thorough else 150
    corpus = load_corpus()
    check_cases(res, [c for c in corpus if not c.get("hist")], True)
    check_sessions(res, [c for c in corpus if c.get("hist")])
    res.count("corpus", len(corpus))
    batch: list[dict] = []
    import time

    while len(batch) < n_cases:
        c = gen_case(rng, max_depth=4)
        if c is not None:
            batch.append(c)
    for i in range(0, len(batch), 400):
        if time.time() > ctx.deadline:
            res.notes.append(f"deadline reached after {i} generated cases")
            break
        check_cases(res, batch[i : i + 400], True)
    smooth: list[dict] = []
    while len(smooth) < n_smooth:
        c = gen_case(rng, max_depth=3, smooth=True)
        if c is not None:
            smooth.append(c)
    check_cases(res, smooth, True)
    sweep = (gen_sweep_sessions(rng, trees_per_kind=2) if ctx.thorough
             else gen_sweep_sessions(rng, calls=("v", "j"), mids=("nothing", "x-inplace", "x-fresh-equal")))
    for c in sweep:
        res.count("session-sweep-kind:" + c["sweep"])
    for i in range(0, len(sweep), 400):
        check_sessions(res, sweep[i : i + 400])
    n_sess = 4000 if ctx.thorough else 700
    sessions: list[dict] = []
    while len(sessions) < n_sess:
        c = gen_session_case(rng)
        if c is not None:
            sessions.append(c)
    for i in range(0, len(sessions), 300):
        if time.time() > ctx.deadline:
            res.notes.append(f"deadline reached after {i} sessions")
            break
        check_sessions(res, sessions[i : i + 300])
    n_store = 1500 if ctx.thorough else 200
    store_sessions: list[dict] = []
    while len(store_sessions) < n_store:
        c = gen_store_session(rng)
        if c is not None:
            store_sessions.append(c)
    res.count("stream:storage-session", len(store_sessions))
    for i in range(0, len(store_sessions), 300):
        check_sessions(res, store_sessions[i : i + 300])
    probes = [c for c in (gen_probe_case(rng) for _ in range(60)) if c is not None]
    check_cases(res, probes, False)
    res.count("stream:probe(out-of-scope)", len(probes))
    disc_cases = [gen_disc_case(rng) for _ in range(3000 if ctx.thorough else 200)]
    check_cases(res, disc_cases, True)
    res.count("stream:discipline", len(disc_cases))
    n_sym = 1500 if ctx.thorough else 120
    sym: list[dict] = []
    while len(sym) < n_sym:
        c = gen_symbolic_case(rng)
        if c is not None:
            sym.append(c)
    t_sym = time.time()
    check_symbolic(res, sym, deadline=ctx.deadline, workers=12 if ctx.thorough else 8)
    res.extra["symbolic_stream_wall_s"] = round(time.time() - t_sym, 1)
    return res


def replay_session(case: dict) -> int:
    obs = hist.observe_session(case)
    bad = hist.judge_session(case, obs, session_expect)
    descs = hist.descs_of(case, obs)
    ans = None
    if driver_available():
        lines, spans = hist.session_lines(case)
        out = common.run_lean_driver(PID, lines)
        ans = [out[b - 1] if b > a else None for a, b in spans]
    cur = None
    for k, (st, rec) in enumerate(zip(case["script"], obs.get("steps", []))):
        d = st["do"]
        if d == "x":
            cur = st["p"]
            print(f"[{k}] point buffer {'updated in place' if st['how'] == 'inplace' else '= new array'}: {cur}")
        elif d == "set":
            print(f"[{k}] set {st['attr']} of node {st['leaf']} ({st['how']}): {st.get('val')} -> public attributes now {rec.get('readback')}")
        elif d == "rebuild":
            print(f"[{k}] the operations are built again on the same leaf objects")
        else:
            print(f"[{k}] {'jac' if d == 'j' else 'evaluate' if d == 'v' else 'func'}(x){' of node %d' % st['on'] if st.get('on') else ''} ->", rec.get("got", rec.get("exc")))
            try:
                target = descs[k] if not st.get("on") else hist.walk(descs[k], case["n"])[st["on"]][0]
                ev, ej, _ = oracle_eval(target, [Fraction(t) for t in cur])
                print("      exact:", [rat(q.v) for q in ev] if d != "j" else (None if ej is None else [[rat(c.v) for c in r] for r in ej]))
            except Undefined as e:
                print("      (oracle undefined here:", e, ")")
            if ans and ans[k]:
                print("      model:", ans[k])
    for k, msg in bad:
        print("ORACLE FAILS:", k, msg)
    return 1 if bad else 0


def replay(path: str) -> int:
    data = json.loads(open(path).read())
    rp = data["replay"]
    case = rp.get("case")
    if case is None:
        print(json.dumps(rp, indent=1)[:3000])
        return 1
    if case.get("hist"):
        return replay_session(case)
    obs = observe(case)
    bad = judge(case, obs)
    for rec in obs.get("points", []):
        print("x =", rec["x"], "evaluate ->", rec.get("v", rec.get("v_exc")), "jac ->", rec.get("j", rec.get("j_exc")))
        try:
            ev, ej, _ = oracle_eval(case["tree"], [Fraction(t) for t in rec["x"]])
            print("   exact value:", [rat(q.v) for q in ev], "exact Jacobian:", None if ej is None else [[rat(c.v) for c in r] for r in ej])
        except Undefined as e:
            print("   (oracle undefined here:", e, ")")
    if driver_available() and not has_smooth(case["tree"]):
        for line, a in zip(model_lines(case), common.run_lean_driver(PID, model_lines(case))):
            print("model:", a, "   <-", line)
    for k, msg in bad:
        print("ORACLE FAILS:", k, msg)
    return 1 if bad else 0
