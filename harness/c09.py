"""C09 — composite processes differentiate by the exact chain rule.

Correspondence: generated process trees (MDOChain / MDOParallelChain / MDOAdditiveChain / MDAChain
without strong couplings, nested) of polynomial harness disciplines (`harness/c09_disc.py`) are
built with the real classes; histories of 1-4 `add_differentiated_inputs/outputs` + `linearize`
calls are replayed on them and on the Lean model (Driver/C09.lean, same protocol line); the blocks
returned after every call and the (inputs, outputs) every leaf discipline was asked to
differentiate are compared.  Histories also contain plain executions and come back to points visited
earlier (with one-entry, no or all-entries caches on every object); for flat chains a second protocol
line (`eval`) makes the driver run the evaluation-state model (EChain.exec/lin, mdaExec/mdaLin) and
the output data of every execution and the data every leaf holds when it computes its Jacobian are
compared.  A size-agnostic stream (`gen_flex_case`, leaves `FlexDisc` defined for vectors of any length)
linearizes the same process object at input points whose vectors have different lengths: the sizes are data
(`S` token of the `case` line), zero blocks must have the shape of the current point.

Oracle: forward-mode automatic differentiation with dual numbers over `Fraction`, written from the
*definition of the function the process computes* (sequential composition, independent parallel
execution with last-writer-wins, sums of the additive chain, topological execution of an
uncoupled MDA) — not from the code and not from the model.
"""

from __future__ import annotations

import contextlib
import copy
import io
import json
from fractions import Fraction
from typing import Any

import numpy as np

from harness import common
from harness.common import F
from harness.common import Result
from harness.common import rat
from harness.c09_flex import expand_spec

PID = "C09"

TRUSTED_EXTRA = (
    "C09: the recursion over nested processes and the per-node request state of Driver/C09.lean are glue "
    "(not kernel-checked); every node calls the verified functions chainJac/parJac/addJac/ChainState.request",
    "C09: list-of-lists Rat matrices of the driver stand for the matrix blocks of the theorems "
    "(Lemmas/C09Mat proves the correspondence for well-shaped lists)",
    "C09: leaf disciplines return their exact partial derivatives (harness PolyDisc); "
    "Discipline.linearize's Jacobian-cache/early-return paths are exercised, not modelled",
    "C09: the evaluation-state model (EChain.exec/lin, mdaExec/mdaLin: caches, data held by every discipline, "
    "linearization points) is run by the driver on FLAT chains only (`eval` lines); for nested processes the "
    "theorem linearization_points_history is applied level by level (a chain is a Local discipline: "
    "EChain.asDisc_local) and the driver uses the partial derivatives at the current point",
    "C09: size-agnostic stream: the harness discipline FlexDisc (floats) and the oracle (dual numbers over Fraction) "
    "both evaluate the expansion harness/c09_flex.expand_spec of a leaf template at the lengths of the current input "
    "vectors (the definition of the leaf function); the sizes sent to the driver (`S`) are derived from the input point "
    "through the definition of the composed function, never read from the process under test",
)

# =========================================================================== process trees
# node = {"t": "L", "spec": PolyDisc spec}
#      | {"t": "C", "kids": [...]}                      MDOChain
#      | {"t": "P", "kids": [...]}                      MDOParallelChain
#      | {"t": "A", "sums": [...], "kids": [...]}       MDOAdditiveChain
#      | {"t": "M", "kids": [leaves], "par": bool}      MDAChain(chain_linearize=True)
# case = {"sizes": {var: size}, "proc": node, "reqs": [{"in": [...], "out": [...], "all": bool,
#         "point": {var: ["p/q", ...]}}]}


def leaves(node):
    if node["t"] == "L":
        yield node
    else:
        for k in node["kids"]:
            yield from leaves(k)


def node_outs(node) -> list[str]:
    if node["t"] == "L":
        return [n for n, _ in node["spec"]["outs"]]
    out: list[str] = []
    for k in node["kids"]:
        for n in node_outs(k):
            if n not in out:
                out.append(n)
    return out


def topo_leaves(kids):
    """Execution order of an uncoupled MDA: a topological order of the name-based graph (stable)."""
    n = len(kids)
    ins = [set(node_ins(k)) for k in kids]
    outs = [set(node_outs(k)) for k in kids]
    left = list(range(n))
    order = []
    while left:
        for i in left:
            if not any(outs[j] & ins[i] for j in left if j != i):
                order.append(i)
                left.remove(i)
                break
        else:
            return None  # cyclic
    return [kids[i] for i in order]


def node_ins(node) -> list[str]:
    t = node["t"]
    if t == "L":
        return [n for n, _ in node["spec"]["ins"]]
    res: list[str] = []
    if t == "C":
        written: set[str] = set()
        for k in node["kids"]:
            for n in node_ins(k):
                if n not in written and n not in res:
                    res.append(n)
            written |= set(node_outs(k))
        return res
    if t == "M":
        allouts = set(node_outs(node))
        for k in node["kids"]:
            for n in node_ins(k):
                if n not in allouts and n not in res:
                    res.append(n)
        return res
    for k in node["kids"]:
        for n in node_ins(k):
            if n not in res:
                res.append(n)
    return res


def in_scope(node) -> bool:
    """The property's quantifier: acyclic name-based dependency graph, chains listed in a valid order."""
    t = node["t"]
    # An input that is also an output of the same discipline/process is an OVERWRITTEN variable
    # ("pass-through and overwritten variables" of the quantifier): the process reads the value it
    # receives and returns the new one; as a data flow the composition is acyclic.  Only an MDAChain
    # gives it another meaning (a self-coupling solved by an MDA, C07): excluded under "M" below.
    if t == "L":
        return True
    if not all(in_scope(k) for k in node["kids"]):
        return False
    kids = node["kids"]
    if t == "C":
        # no discipline writes a variable that an earlier one reads (the chain order is a topological
        # order of the name-based graph, which is then acyclic)
        read: set[str] = set()
        for k in kids:
            if set(node_outs(k)) & read:
                return False
            read |= set(node_ins(k))
        return True
    if t == "M":
        if any(k["t"] != "L" for k in kids):
            return False
        if set(node_ins(node)) & set(node_outs(node)):
            return False
        seen: set[str] = set()
        for k in kids:
            o = set(node_outs(k))
            if o & seen or o & set(node_ins(k)):
                return False  # a variable computed twice / self-coupled: not "without strong couplings"
            seen |= o
        return topo_leaves(kids) is not None
    if t == "A":
        # a summed output is never an input of a child (the sum would mix an input with outputs)
        for k in kids:
            if set(node["sums"]) & set(node_ins(k)):
                return False
    return True


# =========================================================================== semantics (oracle side)


class Dual:
    """value + gradient with respect to the seeds (forward-mode AD over Fraction)."""

    __slots__ = ("v", "g")

    def __init__(self, v, g=None):
        self.v = Fraction(v)
        self.g = g if g is not None else {}

    def __add__(self, o):
        g = dict(self.g)
        for k, x in o.g.items():
            g[k] = g.get(k, 0) + x
        return Dual(self.v + o.v, g)

    def scale(self, a: Fraction):
        return Dual(self.v * a, {k: x * a for k, x in self.g.items()})

    def __mul__(self, o):
        g = {k: x * o.v for k, x in self.g.items()}
        for k, x in o.g.items():
            g[k] = g.get(k, 0) + x * self.v
        return Dual(self.v * o.v, g)


def spec_at(spec, env):
    """The fixed-size specification of a leaf on the data `env`: the specification itself, or, for a
    size-agnostic leaf (`"flex"`), its template written at the lengths of the input vectors of `env`."""
    if spec.get("flex"):
        return expand_spec(spec, {n: len(env[n]) for n, _ in spec["ins"]})
    return spec


def eval_poly(spec, env):
    spec = spec_at(spec, env)
    out = {}
    for o, comps in spec["poly"].items():
        vec = []
        for c in comps:
            acc = Dual(Fraction(c["c"]))
            for n, i, a in c.get("lin", []):
                acc = acc + env[n][int(i)].scale(Fraction(a))
            for n1, i1, n2, i2, b in c.get("quad", []):
                acc = acc + (env[n1][int(i1)] * env[n2][int(i2)]).scale(Fraction(b))
            vec.append(acc)
        out[o] = vec
    return out


def sem(node, env, visit=None):
    """Outputs of the process on the data `env` (name -> list of Dual): the function it computes."""
    t = node["t"]
    if t == "L":
        if visit is not None:
            visit(node, env)
        return eval_poly(node["spec"], env)
    if t in ("C", "M"):
        kids = node["kids"] if t == "C" else topo_leaves(node["kids"])
        env = dict(env)
        out = {}
        for k in kids:
            o = sem(k, env, visit)
            env.update(o)
            out.update(o)
        return out
    outs = [sem(k, env, visit) for k in node["kids"]]
    merged = {}
    for o in outs:
        merged.update(o)
    if t == "A":
        for s in node["sums"]:
            parts = [o[s] for o in outs if s in o]
            if parts:
                tot = parts[0]
                for p in parts[1:]:
                    tot = [a + b for a, b in zip(tot, p)]
                merged[s] = tot
    return merged


def seeds(case, point):
    env = {}
    for n in node_ins(case["proc"]):
        env[n] = [Dual(Fraction(v), {(n, j): Fraction(1)}) for j, v in enumerate(point[n])]
    return env


def truth(case, point):
    """{(o, x): matrix of Fraction} for all outputs/inputs of the top process at `point`."""
    proc = case["proc"]
    out = sem(proc, seeds(case, point))
    res = {}
    for o in node_outs(proc):
        for x in node_ins(proc):
            res[(o, x)] = [[comp.g.get((x, j), Fraction(0)) for j in range(len(point[x]))] for comp in out[o]]
    return res


def leaf_tables(case, point):
    """Exact partial blocks of every leaf at the point it is evaluated at: [(leaf_id, out, in, matrix)]."""
    tabs = []
    ids = {id(l): i for i, l in enumerate(leaves(case["proc"]))}

    def visit(leaf, env):
        spec = spec_at(leaf["spec"], env)
        loc = {n: [Dual(env[n][j].v, {(n, j): Fraction(1)}) for j in range(s)] for n, s in spec["ins"]}
        out = eval_poly(spec, loc)
        for o, _ in spec["outs"]:
            for n, s in spec["ins"]:
                tabs.append((ids[id(leaf)], o, n, [[c.g.get((n, j), Fraction(0)) for j in range(s)] for c in out[o]]))

    sem(case["proc"], seeds(case, point), visit)
    return tabs


def is_flex(case) -> bool:
    return any(l["spec"].get("flex") for l in leaves(case["proc"]))


def sizes_at(case, point):
    """Sizes of all the variables at an input point (the sizes are data: lengths of the vectors of the point
    and of the vectors the disciplines compute from them).  None when a variable would take two different
    lengths along the evaluation (not an input point of the process as generated here: a summed output,
    an output of two parallel disciplines, an input that is also an output must have ONE length)."""
    if not is_flex(case):
        return dict(case["sizes"])
    sizes: dict[str, int] = {n: len(point[n]) for n in node_ins(case["proc"])}
    ok = [True]

    def note(n, k):
        if sizes.setdefault(n, k) != k:
            ok[0] = False

    def visit(leaf, env):
        sp = spec_at(leaf["spec"], env)
        for n, k in sp["ins"] + sp["outs"]:
            note(n, int(k))

    try:
        sem(case["proc"], seeds(case, point), visit)
    except (KeyError, IndexError, ZeroDivisionError):
        return None
    return sizes if ok[0] else None


def _rep(fr: Fraction) -> bool:
    return Fraction(float(fr)) == fr


def exact_ok(case) -> bool:
    """Every float intermediate of the run is exactly representable.

    (1) the float evaluation of every leaf (term by term, as PolyDisc does it) and of its partials;
    (2) any Jacobian accumulation, in any order: every intermediate is a multiple of 2^-K bounded by
        M = prod_leaves (1 + sum |entries|'), checked M * 2^K < 2^52.
    """
    sizes = case["sizes"]
    for req in [r for q in case["reqs"] for r in ([{"point": p} for p in q.get("pre", [])] + [q])]:
        ok = [True]

        def visit(leaf, env, ok=ok):
            spec = spec_at(leaf["spec"], env)
            for o, comps in spec["poly"].items():
                for c in comps:
                    acc = Fraction(c["c"])
                    for n, i, a in c.get("lin", []):
                        t = Fraction(a) * env[n][int(i)].v
                        acc += t
                        ok[0] &= _rep(t) and _rep(acc)
                    for n1, i1, n2, i2, b in c.get("quad", []):
                        t0 = Fraction(b) * env[n1][int(i1)].v
                        t = t0 * env[n2][int(i2)].v
                        acc += t
                        ok[0] &= _rep(t0) and _rep(t) and _rep(acc) and abs(acc) < 2**30

        point = req["point"]
        sem(case["proc"], seeds(case, point), visit)
        if not ok[0]:
            return False
        big_m = Fraction(1)
        big_k = 0
        per_leaf: dict[int, tuple[Fraction, int]] = {}
        for lid, _, _, m in leaf_tables(case, point):
            s, k = per_leaf.get(lid, (Fraction(0), 0))
            for row in m:
                for e in row:
                    if e != 0:
                        s += max(abs(e), 1)
                        k = max(k, e.denominator.bit_length() - 1)
            per_leaf[lid] = (s, k)
        for s, k in per_leaf.values():
            big_m *= 1 + s
            big_k += k
        if big_m * 2**big_k >= 2**52:
            return False
    del sizes
    return True


# =========================================================================== generator

_ALPHA = "abcdefghijklmnopqrstuvwxyz"
# cache of a process (chain, parallel/additive chain, MDAChain): default one-entry cache, none, all evaluations
_PROC_CACHES = ["SimpleCache"] * 4 + [""] + ["MemoryFullCache"] * 2


class Gen:
    def __init__(self, rng: common.Rng, scope: bool = True):
        self.rng = rng
        self.scope = scope
        names = [a for a in _ALPHA] + [a + b for a in "abpxyz" for b in "abxyz"]
        rng.shuffle(names)
        self.pool = names
        self.sizes: dict[str, int] = {}
        self.n_leaf = 0

    def fresh(self) -> str:
        n = self.pool.pop()
        self.sizes[n] = self.rng.pick([1, 1, 1, 2, 2, 3])
        return n

    def coef(self) -> Fraction:
        return Fraction(self.rng.pick([1, 1, 2, 3, -1, -2, -3, 2, 1, -1])) / self.rng.pick([1, 1, 1, 1, 2])

    def leaf(self, ins: list[str], outs: list[str]):
        rng = self.rng
        poly = {}
        for o in outs:
            comps = []
            for _ in range(self.sizes[o]):
                c = {"c": rat(rng.pick([0, 0, 1, -1, 2])), "lin": [], "quad": []}
                for n in ins:
                    if rng.chance(0.2):
                        continue  # structurally zero block row for this input
                    for j in range(self.sizes[n]):
                        if rng.chance(0.7):
                            c["lin"].append([n, j, rat(self.coef())])
                if ins and rng.chance(0.3):
                    for _ in range(rng.pick([1, 1, 2])):
                        n1, n2 = rng.pick(ins), rng.pick(ins)
                        c["quad"].append([n1, rng.randrange(self.sizes[n1]), n2, rng.randrange(self.sizes[n2]), rat(rng.pick([1, -1, 1, 2]))])
                comps.append(c)
            poly[o] = comps
        spec = {
            "name": f"D{self.n_leaf}",
            "ins": [[n, self.sizes[n]] for n in ins],
            "outs": [[o, self.sizes[o]] for o in outs],
            "poly": poly,
            "kind": rng.pick(["dense", "dense", "dense", "sparse", "sparse", "operator"]),
            "jac_all": rng.chance(0.6),
            "cache": rng.pick(["SimpleCache"] * 5 + ["", "MemoryFullCache"]),
        }
        self.n_leaf += 1
        return {"t": "L", "spec": spec}

    def pick_ins(self, avail: list[str], lo: int = 1) -> list[str]:
        rng = self.rng
        k = rng.pick([1, 1, 2, 2, 3])
        ins: list[str] = []
        for _ in range(k):
            if avail and rng.chance(0.8):
                # prefer recently produced variables (the end of the list)
                n = avail[-1 - min(int(rng.random() ** 2 * len(avail)), len(avail) - 1)] if rng.chance(0.6) else rng.pick(avail)
            else:
                n = self.fresh()
                avail.append(n)
            if n not in ins:
                ins.append(n)
        while len(ins) < lo:
            n = self.fresh()
            avail.append(n)
            ins.append(n)
        return ins

    def node(self, kind: str, depth: int, avail: list[str], forbidden: set[str]):
        """A sub-process reading among `avail` (extended with fresh chain inputs), never writing `forbidden`."""
        rng = self.rng
        if kind == "L":
            selfw = rng.chance(0.22)
            ins = self.pick_ins(avail, lo=rng.pick([1, 2, 2, 3]) if selfw else 1)
            outs = [self.fresh() for _ in range(rng.pick([1, 1, 1, 2, 2, 3]) if not selfw else rng.pick([0, 0, 1, 1, 2]))]
            # overwritten variables: rewrite an existing variable nobody has read since (dead write) ...
            cands = [v for v in avail if v not in forbidden and v not in ins]
            if cands and rng.chance(0.18):
                v = rng.pick(cands)
                if v not in outs:
                    outs.append(v)
            # ... or update in place 1-3 of the discipline's own inputs (inputs that are also outputs);
            # every output depends on every input (cross-dependence) unless a block is structurally zero
            own = [v for v in ins if v not in forbidden]
            if selfw and own:
                outs += rng.sample(own, min(len(own), rng.pick([1, 2, 2, 3])))
            if not outs:
                outs.append(self.fresh())
            if not self.scope and rng.chance(0.5) and forbidden:
                v = rng.pick(sorted(forbidden))
                if v not in outs:
                    outs.append(v)
            rng.shuffle(outs)
            return self.leaf(ins, outs)
        if kind == "C":
            n = rng.pick([2, 2, 3, 3, 4, 5]) if depth == 0 else rng.pick([1, 2, 2, 3])
            kids = []
            loc_avail = list(avail)
            read: set[str] = set(forbidden)
            for _ in range(n):
                kid = self.node(self.kid_kind(depth), depth + 1, loc_avail, read)
                kids.append(kid)
                read |= set(node_ins(kid))
                for o in node_outs(kid):
                    if o in loc_avail:
                        loc_avail.remove(o)
                    loc_avail.append(o)
            for v in loc_avail:
                if v not in avail:
                    avail.append(v)
            return {"t": "C", "kids": kids, "cache": rng.pick(_PROC_CACHES)}
        if kind in ("P", "A"):
            n = rng.pick([1, 2, 2, 3, 3]) if kind == "P" else rng.pick([2, 2, 3])
            kids = []
            sums = [self.fresh() for _ in range(rng.pick([1, 1, 2]))] if kind == "A" else []
            base = list(avail)
            sib_outs: list[str] = []
            for _ in range(n):
                loc = list(base)
                kid = self.node(self.kid_kind(depth, in_par=True), depth + 1, loc, set(forbidden) | set(sums))
                for v in loc:
                    if v not in base:
                        base.append(v)
                if kind == "A" and kid["t"] == "L":
                    for s in sums:
                        if rng.chance(0.75):
                            self._add_out(kid, s)
                elif kind == "P" and kid["t"] == "L" and sib_outs and rng.chance(0.15):
                    v = rng.pick(sib_outs)
                    if v not in forbidden:
                        self._add_out(kid, v)  # two parallel disciplines compute the same output: the last wins
                kids.append(kid)
                sib_outs += [o for o in node_outs(kid) if o not in sib_outs]
            if kind == "A" and not any(s in node_outs(k) for k in kids for s in sums):
                self._add_out(next(leaves(kids[0])), sums[0])
            if kind == "A":
                sums = [s for s in sums if any(s in node_outs(k) for k in kids)]
            for v in base:
                if v not in avail:
                    avail.append(v)
            for v in sib_outs:
                if v not in avail:
                    avail.append(v)
            node = {"t": kind, "kids": kids}
            if kind == "A":
                node["sums"] = sums
            node["cache"] = rng.pick(_PROC_CACHES)
            if rng.chance(0.3):
                node["nproc"] = 1
            if kind == "P" and rng.chance(0.3):
                node["deep"] = True
            return node
        if kind == "M":
            n = rng.pick([2, 3, 3, 4])
            kids = []
            loc_avail = list(avail)
            for _ in range(n):
                ins = self.pick_ins(loc_avail)
                outs = [self.fresh() for _ in range(rng.pick([1, 1, 2]))]
                kids.append(self.leaf(ins, outs))
                loc_avail += outs
            for v in loc_avail:
                if v not in avail:
                    avail.append(v)
            rng.shuffle(kids)
            return {"t": "M", "kids": kids, "par": rng.chance(0.3), "cache": rng.pick(_PROC_CACHES)}
        raise ValueError(kind)

    def _add_out(self, leaf, name: str) -> None:
        spec = leaf["spec"]
        if name in [o for o, _ in spec["outs"]]:
            return
        ins = [n for n, _ in spec["ins"]]
        tmp = self.leaf(ins, [name])["spec"]
        self.n_leaf -= 1
        spec["outs"].append([name, self.sizes[name]])
        spec["poly"][name] = tmp["poly"][name]

    def kid_kind(self, depth: int, in_par: bool = False) -> str:
        r = self.rng.random()
        if depth >= 2 or r < 0.72:
            return "L"
        if r < 0.80:
            return "C"
        if r < 0.88:
            return "P"
        if r < 0.95:
            return "A"
        return "L" if in_par else "M"


def gen_point(rng, case, names):
    return {n: [rat(Fraction(rng.randint(-4, 4), 2)) for _ in range(case["sizes"][n])] for n in names}


def gen_case(rng: common.Rng, scope: bool = True, top: str | None = None) -> dict[str, Any]:
    for _ in range(200):
        g = Gen(rng, scope)
        kind = top or rng.pick(["C"] * 11 + ["P"] * 2 + ["A"] * 3 + ["M"] * 3)
        proc = g.node(kind, 0, [], set())
        if scope != in_scope(proc):
            continue
        ins, outs = node_ins(proc), node_outs(proc)
        if not ins or not outs:
            continue
        case = {"sizes": dict(g.sizes), "proc": proc, "reqs": []}
        used = set(ins) | set(outs)
        for l in leaves(proc):
            used |= {n for n, _ in l["spec"]["ins"]} | {n for n, _ in l["spec"]["outs"]}
        case["sizes"] = {n: s for n, s in g.sizes.items() if n in used}
        point = gen_point(rng, case, ins)
        visited: list[dict] = []
        for _ in range(rng.pick([1, 1, 2, 2, 3, 4])):
            r = rng.random()
            if case["reqs"] and r < 0.35:
                point = gen_point(rng, case, ins)
            elif case["reqs"] and r < 0.60:
                others = [q for q in visited if q != point]
                if others:
                    point = rng.pick(others)  # a point visited earlier in the history (revisit)
            # plain executions between two linearizations (at a new point or at a visited point)
            pre = []
            if rng.chance(0.3):
                for _ in range(rng.pick([1, 1, 2])):
                    pre.append(rng.pick(visited) if visited and rng.chance(0.4) else gen_point(rng, case, ins))
            for q in [*pre, point]:
                if q not in visited:
                    visited.append(q)
            r_in = rng.sample(ins, min(len(ins), rng.pick([1, 1, 2, 2, 3, len(ins)])))
            r_out = rng.sample(outs, min(len(outs), rng.pick([1, 1, 2, 2, 3, len(outs)])))
            if case["reqs"] and rng.chance(0.15):
                r_in = []
            if case["reqs"] and rng.chance(0.15):
                r_out = []
            req = {"in": r_in, "out": r_out, "all": rng.chance(0.12), "point": dict(point)}
            if pre:
                req["pre"] = [dict(q) for q in pre]
            # the public ways of asking: explicit names, "all inputs"/"all outputs" (no argument),
            # compute_all_jacobians; and of passing the point: fresh arrays, the SAME arrays updated in
            # place, the default inputs, execute() first then linearize(execute=False)
            r = rng.random()
            if r < 0.10:
                req["how"] = "all-in"
                req["in"] = list(ins)
            elif r < 0.20:
                req["how"] = "all-out"
                req["out"] = list(outs)
            req["call"] = rng.pick(["point", "point", "point", "inplace", "inplace", "defaults", "exec-first", "adapter"])
            if req["call"] == "adapter" and (req["all"] or set(ins) & set(outs) or any(l["spec"]["kind"] == "operator" for l in leaves(proc))):
                req["call"] = "point"  # DisciplineAdapter concatenates arrays: no operators, explicit names
            case["reqs"].append(req)
        if len({json.dumps(q["point"], sort_keys=True) for q in case["reqs"]}) < len(case["reqs"]) and proc["t"] != "L" and rng.chance(0.6):
            proc["cache"] = "MemoryFullCache"  # histories coming back to a point: keep all the evaluations
        if exact_ok(case):
            return case
    raise RuntimeError("generator could not produce an exact in-scope case")


# ---------------------------------------------------------------------------------- size-agnostic stream
# "All input points": the grammars of a discipline do not fix the lengths of its vectors; the same process
# object may be linearized at a point made of vectors of one length, then at a point made of vectors of
# another length.  The sizes are DATA (every zero block must have the shape given by the current point).


def gen_flex_case(rng: common.Rng, top: str | None = None) -> dict[str, Any]:
    """A case whose leaves are size-agnostic (`harness/c09_flex.py`) and whose history visits input points
    made of vectors of different lengths (same process object, >= 2 linearizations)."""
    for _ in range(200):
        case = gen_case(rng, True, top=top or rng.pick(["C"] * 8 + ["P"] * 3 + ["A"] * 2 + ["M"] * 2))
        proc = case["proc"]
        for l in leaves(proc):
            l["spec"]["flex"] = True
        ins, outs = node_ins(proc), node_outs(proc)
        base = {n: case["sizes"][n] for n in ins}
        while len(case["reqs"]) < 2 or (len(case["reqs"]) < 3 and rng.chance(0.3)):
            r = copy.deepcopy(case["reqs"][-1])
            r.pop("pre", None)
            r.pop("how", None)
            r["in"] = rng.sample(ins, min(len(ins), rng.pick([1, 1, 2, len(ins)]))) if rng.chance(0.7) else []
            r["out"] = rng.sample(outs, min(len(outs), rng.pick([1, 1, 2, len(outs)]))) if rng.chance(0.7) else []
            case["reqs"].append(r)

        def pick_lens(prev):
            r = rng.random()
            if r < 0.45:  # all the vectors grow or shrink together
                d = rng.pick([1, 1, 2, 3, -1, -1, -2])
                return {n: min(6, max(1, (prev or base)[n] + d)) for n in ins}
            if r < 0.80:  # independent lengths
                return {n: rng.pick([1, 2, 2, 3, 3, 4]) for n in ins}
            lens = dict(prev or base)  # one input vector changes its length
            lens[rng.pick(ins)] = rng.pick([1, 2, 3, 4])
            return lens

        def new_point(prev):
            for _ in range(8):
                lens = pick_lens(prev)
                pt = {n: [rat(Fraction(rng.randint(-4, 4), 2)) for _ in range(lens[n])] for n in ins}
                if sizes_at(case, pt) is not None:
                    return pt
            lens = prev or base
            return {n: [rat(Fraction(rng.randint(-4, 4), 2)) for _ in range(lens[n])] for n in ins}

        visited: list[dict] = []
        prev = None
        for k, req in enumerate(case["reqs"]):
            r = rng.random()
            if k == 0 and r < 0.5:
                pt = {n: [rat(Fraction(rng.randint(-4, 4), 2)) for _ in range(base[n])] for n in ins}
            elif visited and r < 0.15:
                pt = rng.pick(visited)  # back to a point visited earlier (its vectors have their own lengths)
            elif prev is not None and r < 0.25:
                pt = {n: [rat(Fraction(rng.randint(-4, 4), 2)) for _ in range(prev[n])] for n in ins}
            else:
                pt = new_point(prev)
            if "pre" in req:
                req["pre"] = [dict(rng.pick(visited)) if visited and rng.chance(0.3) else new_point(prev if rng.chance(0.5) else None) for _ in req["pre"]]
            req["point"] = dict(pt)
            for q in [*req.get("pre", []), pt]:
                if q not in visited:
                    visited.append(q)
            prev = {n: len(pt[n]) for n in ins}
        if _valid(case):
            return case
    raise RuntimeError("generator could not produce an exact size-agnostic case")


def flex_tags(case) -> list[str]:
    """Histogram keys of a size-agnostic case: how the sizes move along the history, and whether a zero block
    (independent requested pair) has to be formed with a shape another than at the previous linearization."""
    tags = ["flex(size-agnostic leaves)"]
    cum_in: list[str] = []
    cum_out: list[str] = []
    last = None
    ins, outs = node_ins(case["proc"]), node_outs(case["proc"])
    for req in case["reqs"]:
        cum_in += [n for n in req["in"] if n not in cum_in]
        cum_out += [n for n in req["out"] if n not in cum_out]
        xs, os_ = (ins, outs) if req["all"] else (cum_in, cum_out)
        if not xs or not os_:
            continue
        now = sizes_at(case, req["point"])
        if last is not None and now != last:
            tags.append("flex:sizes-change-between-linearizations")
            if any(now[n] > last[n] for n in now):
                tags.append("flex:a-vector-grows")
            if any(now[n] < last[n] for n in now):
                tags.append("flex:a-vector-shrinks")
            tr = truth(case, req["point"])
            for o in os_:
                for x in xs:
                    if (now[o], now[x]) != (last[o], last[x]):
                        zero = all(e == 0 for row in tr[(o, x)] for e in row)
                        tags.append("flex:requested-zero-block-of-another-shape-than-before" if zero else "flex:requested-nonzero-block-of-another-shape-than-before")
        for q in req.get("pre", []):
            if {n: len(v) for n, v in q.items()} != {n: len(v) for n, v in req["point"].items()}:
                tags.append("flex:plain-execution-at-other-sizes")
        last = now
    return sorted(set(tags))


# =========================================================================== protocol line


def _names(l) -> str:
    return ",".join(l) if l else "-"


def _mat(m) -> str:
    return ";".join(",".join(rat(e) for e in row) for row in m)


def proc_tokens(node, ids) -> list[str]:
    t = node["t"]
    if t == "L":
        return ["L", str(ids[id(node)]), _names(node_ins(node)), _names(node_outs(node))]
    toks: list[str] = []
    for k in node["kids"]:
        toks += proc_tokens(k, ids)
    if t == "A":
        return ["A", _names(node["sums"]), str(len(node["kids"])), *toks]
    return [t, str(len(node["kids"])), *toks]


def case_line(case, structure=None, alg: str = "new") -> str:
    """`structure`: the process tree the line describes (an MDAChain is replaced by the chain it built)."""
    proc = structure if structure is not None else case["proc"]
    ids = {id(l): i for i, l in enumerate(leaves(case["proc"]))}
    sizes = ",".join(f"{n}:{case['sizes'][n]}" for n in sorted(case["sizes"]))
    toks = ["case", alg, "V", sizes, "P", *proc_tokens(proc, ids)]
    flex = is_flex(case)
    for req in case["reqs"]:
        toks += ["R", _names(req["in"]), _names(req["out"]), "1" if req["all"] else "0"]
        if flex:
            # the sizes of the variables at THIS request (size-agnostic disciplines: the sizes are data)
            now = sizes_at(case, req["point"]) or {}
            toks += ["S", ",".join(f"{n}:{now[n]}" for n in sorted(now))]
        for lid, o, n, m in leaf_tables(case, req["point"]):
            toks += ["T", str(lid), o, n, _mat(m)]
    return " ".join(toks)


# =========================================================================== `eval` protocol line
# Histories of executions/linearizations on a FLAT chain (MDOChain of leaves, or the chain an MDAChain
# built): the driver runs EChain.exec/lin (mdaExec/mdaLin) of Model/C09 on opaque values and answers,
# per operation, the output data (execute) or the data every leaf holds when it computes its Jacobian.


def _vals(vec) -> str:
    return ",".join(rat(Fraction(e)) for e in vec)


def _data(names, env) -> str:
    return ";".join(f"{n}={_vals(env[n])}" for n in sorted(set(names))) if names else "-"


_CK = {"SimpleCache": "s", "": "n", "MemoryFullCache": "f"}


def eval_ops(case):
    """[(op, point, request index, kind)]: the operations of the history as the `eval` line lists them."""
    ops = []
    cum_in: set[str] = set()
    cum_out: set[str] = set()
    for k, req in enumerate(case["reqs"]):
        cum_in |= set(req["in"])
        cum_out |= set(req["out"])
        if not req["all"] and (not cum_in or not cum_out):
            continue  # nothing requested: impl_run does not call the process
        for j, q in enumerate(req.get("pre", [])):
            ops.append(("x", q, k, ("pre", j)))
        if req.get("call") == "exec-first":
            ops.append(("x", req["point"], k, ("exec-first", 0)))
            ops.append(("l0", req["point"], k, ("lin", 0)))
        else:
            ops.append(("l1", req["point"], k, ("lin", 0)))
    return ops


def eval_line(case, structure) -> str | None:
    proc = case["proc"]
    if proc["t"] not in ("C", "M") or structure["t"] != "C" or any(k["t"] != "L" for k in structure["kids"]):
        return None
    if any(r.get("call") == "adapter" for r in case["reqs"]):
        return None
    ids = {id(l): i for i, l in enumerate(leaves(proc))}
    kids = structure["kids"]
    toks = ["eval"]
    if proc["t"] == "C":
        toks += [_CK[proc.get("cache", "SimpleCache")], "-"]
    else:
        toks += ["s", _CK[proc.get("cache", "SimpleCache")]]
    toks += ["K", str(len(kids))]
    for l in kids:
        toks += ["L", str(ids[id(l)]), _names(node_ins(l)), _names(node_outs(l)), _CK[l["spec"].get("cache", "SimpleCache")]]
    ops = eval_ops(case)
    seen = set()
    for _, q, _, _ in ops:
        def visit(leaf, env, seen=seen):
            vals = {n: [c.v for c in env[n]] for n in node_ins(leaf)}
            out = eval_poly(leaf["spec"], {n: [Dual(v) for v in vs] for n, vs in vals.items()})
            tok = ("F", str(ids[id(leaf)]), _data(node_ins(leaf), vals), _data(node_outs(leaf), {o: [c.v for c in out[o]] for o in out}))
            if tok not in seen:
                seen.add(tok)
                toks.extend(tok)

        sem({"t": "C", "kids": kids}, seeds(case, q), visit)
    for op, q, _, _ in ops:
        toks += ["O", op, _data(node_ins(proc), {n: [Fraction(v) for v in q[n]] for n in q})]
    return " ".join(toks)


def compare_eval(case, run, ans: str) -> str | None:
    """None when the implementation agrees with the answer to the `eval` line."""
    ops = eval_ops(case)
    parts = ans.split(" | ") if ans else []
    steps = run["steps"]
    outs = run["grammar_out"]
    for (op, _, k, (what, j)), part in zip(ops, parts):
        if k >= len(steps) or "error" in steps[k]:
            return None  # the history stopped on an exception (judged by the oracle)
        step = steps[k]
        if op == "x":
            if what != "pre":
                continue
            got = "X " + _data(outs, step["pre_out"][j])
            if got != part:
                return f"request {k}: execute #{j} returned `{got[:200]}`, model `{part[:200]}`"
        else:
            want = {}
            for tok in part.split()[1:]:
                lid, _, dat = tok.partition("@")
                want[int(lid)] = dat
            for lid, vals in step.get("lin_at", {}).items():
                got = _data(list(vals), vals)
                if want.get(lid) != got:
                    return (f"request {k}: leaf {lid} computed its Jacobian at `{got[:150]}`, "
                            f"the model linearizes it at `{str(want.get(lid))[:150]}`")
    if len(parts) < len(ops) and not any("error" in st for st in steps):
        return "model gave no answer for some operations"
    return None


# =========================================================================== implementation runner


def _set_cache(obj, name: str) -> None:
    if name == "MemoryFullCache":
        obj.set_cache(obj.CacheType(name), is_memory_shared=False)
    elif name != "SimpleCache":
        obj.set_cache(obj.CacheType(name))


def build(node, made):
    """Real GEMSEO objects for a process tree; `made` collects the PolyDisc objects (leaf order)."""
    from gemseo.core.chains.additive_chain import MDOAdditiveChain
    from gemseo.core.chains.chain import MDOChain
    from gemseo.core.chains.parallel_chain import MDOParallelChain

    from harness.c09_disc import FlexDisc
    from harness.c09_disc import PolyDisc

    t = node["t"]
    if t != "L" and "_nocache" not in node:
        obj = build({**node, "_nocache": True}, made)
        _set_cache(obj, node.get("cache", "SimpleCache"))
        return obj
    if t == "L":
        d = (FlexDisc if node["spec"].get("flex") else PolyDisc)(node["spec"])
        _set_cache(d, node["spec"].get("cache", "SimpleCache"))
        made[id(node)] = d
        return d
    if t == "M":
        from gemseo.mda.mda_chain import MDAChain

        for k in node["kids"]:
            build(k, made)
        return MDAChain(
            [made[id(k)] for k in node["kids"]],
            chain_linearize=True,
            mdachain_parallelize_tasks=bool(node.get("par")),
        )
    kids = [build(k, made) for k in node["kids"]]
    if t == "C":
        return MDOChain(kids)
    if t == "P":
        return MDOParallelChain(kids, n_processes=node.get("nproc"), use_deep_copy=bool(node.get("deep")))
    return MDOAdditiveChain(kids, list(node["sums"]), n_processes=node.get("nproc"))


def observed_structure(node, obj, made):
    """The process tree as built by the real classes (an MDAChain exposes `mdo_chain.disciplines`)."""
    from gemseo.core.chains.chain import MDOChain
    from gemseo.core.chains.parallel_chain import MDOParallelChain

    back = {id(v): k for k, v in made.items()}
    by_id: dict[int, Any] = {}

    def index(n):
        by_id[id(n)] = n
        if n["t"] != "L":
            for k in n["kids"]:
                index(k)

    index(node)

    def conv(o):
        if id(o) in back:
            return by_id[back[id(o)]]
        if isinstance(o, MDOParallelChain):
            return {"t": "P", "kids": [conv(d) for d in o.disciplines]}
        if isinstance(o, MDOChain):
            return {"t": "C", "kids": [conv(d) for d in o.disciplines]}
        raise TypeError(type(o).__name__)

    def walk(n, o):
        t = n["t"]
        if t == "L":
            return n
        if t == "M":
            return conv(o.mdo_chain)
        new = dict(n)
        new["kids"] = [walk(k, d) for k, d in zip(n["kids"], o.disciplines)]
        return new

    return walk(node, obj)


def dense(b) -> np.ndarray:
    from gemseo.core.derivatives.jacobian_operator import JacobianOperator

    if isinstance(b, JacobianOperator):
        return np.asarray(b.get_matrix_representation(), dtype=float)
    if hasattr(b, "toarray"):
        return np.asarray(b.toarray(), dtype=float)
    return np.asarray(b, dtype=float)


def impl_run(case) -> dict[str, Any]:
    """Replay the request history on the real classes.

    Returns {"steps": [ {"blocks": {(o,x): matrix of Fraction | "missing" | "shape:.."} | "error": tag,
                         "pairs": [(o,x)...], "calls": {leaf_id: (ins, outs)} } ], "structure": tree}
    """
    made: dict[int, Any] = {}
    proc = case["proc"]
    obj = build(proc, made)
    order = [made[id(l)] for l in leaves(proc)]
    res: dict[str, Any] = {"steps": [], "structure": observed_structure(proc, obj, made)}
    res["grammar_in"] = sorted(obj.io.input_grammar)
    res["grammar_out"] = sorted(n for n in obj.io.output_grammar if n in case["sizes"])
    cum_in: list[str] = []
    cum_out: list[str] = []
    shared: dict[str, Any] = {}
    for req in case["reqs"]:
        for d in order:
            d.calls.clear()
            d.lin_data.clear()
        cum_in += [n for n in req["in"] if n not in cum_in]
        cum_out += [n for n in req["out"] if n not in cum_out]
        step: dict[str, Any] = {}
        if req["all"]:
            xs, os_ = node_ins(proc), node_outs(proc)
        else:
            xs, os_ = list(cum_in), list(cum_out)
        step["pairs"] = [(o, x) for o in sorted(os_) for x in sorted(xs)]
        if not xs or not os_:
            step["error"] = "E:empty"
            res["steps"].append(step)
            continue
        point = {n: np.array([float(Fraction(v)) for v in vals]) for n, vals in req["point"].items()}
        now = sizes_at(case, req["point"])  # sizes of the variables at this input point
        call = req.get("call", "point")
        how = req.get("how", "names")
        try:
          with contextlib.redirect_stderr(io.StringIO()):  # worker threads print their tracebacks
            step["pre_out"] = []
            for q in req.get("pre", []):
                data = obj.execute({n: np.array([float(Fraction(v)) for v in vals]) for n, vals in q.items()})
                step["pre_out"].append({n: [F(e) for e in np.atleast_1d(data[n])] for n in res["grammar_out"]})
            if how == "all-in":
                obj.add_differentiated_inputs()
            elif req["in"]:
                obj.add_differentiated_inputs(list(req["in"]))
            if how == "all-out":
                obj.add_differentiated_outputs()
            elif req["out"]:
                obj.add_differentiated_outputs(list(req["out"]))
            if call == "inplace":
                # the caller keeps ONE dictionary of arrays and updates the arrays in place
                for n, arr in point.items():
                    if n in shared and shared[n].shape == arr.shape:
                        shared[n].flags.writeable = True
                        shared[n][:] = arr
                    else:
                        shared[n] = arr
                jac = obj.linearize(shared, compute_all_jacobians=bool(req["all"]))
            elif call == "defaults":
                obj.default_input_data.update(point)
                jac = obj.linearize(compute_all_jacobians=bool(req["all"]))
            elif call == "exec-first":
                obj.execute(point)
                jac = obj.linearize(point, compute_all_jacobians=bool(req["all"]), execute=False)
            elif call == "adapter":
                # the route of the MDO formulations: a function of the vector of the requested inputs
                from gemseo.core.mdo_functions.discipline_adapter_generator import DisciplineAdapterGenerator

                func = DisciplineAdapterGenerator(obj).get_function(list(xs), list(os_), default_input_data=point)
                mat = np.atleast_2d(np.asarray(func.jac(np.concatenate([point[n] for n in xs])), dtype=float))
                jac = {}
                r0 = 0
                for o in os_:
                    c0 = 0
                    jac[o] = {}
                    for x in xs:
                        jac[o][x] = mat[r0 : r0 + now[o], c0 : c0 + now[x]].copy()
                        c0 += now[x]
                    r0 += now[o]
                if mat.shape != (r0, c0):
                    raise AssertionError(f"adapter Jacobian of shape {mat.shape}, expected {(r0, c0)}")
            else:
                jac = obj.linearize(point, compute_all_jacobians=bool(req["all"]))
            if call != "adapter" and jac is not obj.jac:
                raise AssertionError("linearize did not return the jac attribute")
          if True:
            blocks = {}
            for o, x in step["pairs"]:
                try:
                    b = dense(jac[o][x])
                except (KeyError, TypeError):
                    blocks[(o, x)] = "missing"
                    continue
                if b.shape != (now[o], now[x]) or not np.all(np.isfinite(b)):
                    blocks[(o, x)] = f"shape:{b.shape}"
                    continue
                blocks[(o, x)] = [[F(e) for e in row] for row in b]
            step["blocks"] = blocks
        except Exception as e:  # noqa: BLE001
            step["error"] = common.exc_class(e)
            step["exc"] = common.short_tb(e, 4)
            res["steps"].append(step)
            break
        step["calls"] = {
            i: (sorted(set(d.calls[-1][0])), sorted(set(d.calls[-1][1]))) for i, d in enumerate(order) if d.calls
        }
        # the data every leaf held when it was asked for its partial derivatives (its linearization point)
        step["lin_at"] = {
            i: {n: [F(e) for e in d.lin_data[-1][n]] for n in d.lin_data[-1]} for i, d in enumerate(order) if d.lin_data
        }
        res["steps"].append(step)
    return res


def impl_lines(case, run) -> list[str]:
    """Canonical per-request strings of the implementation (same format as the blocks part of the model)."""
    out = []
    for step in run["steps"]:
        if "error" in step:
            out.append(step["error"])
            continue
        parts = []
        for o, x in step["pairs"]:
            b = step["blocks"][(o, x)]
            parts.append(f"{o}/{x}=" + (b if isinstance(b, str) else _mat(b)))
        out.append(" ".join(parts))
    return out


# =========================================================================== oracle


def top_kind(case) -> str:
    return {"C": "chain", "P": "parallel", "A": "additive", "M": "mdachain"}[case["proc"]["t"]]


def oracle(case, run) -> list[tuple[str, str]]:
    """(key, message) for every clause of the property the implementation breaks on this history."""
    bad: list[tuple[str, str]] = []
    kind = top_kind(case)
    for k, (req, step) in enumerate(zip(case["reqs"], run["steps"])):
        if step.get("error") == "E:empty":
            continue
        if "error" in step:
            exc = step.get("exc", "").strip()
            last = exc.splitlines()[-1][:220] if exc else ""
            at = f" [same process object, sizes of the variables at this input point: {sizes_at(case, req['point'])}]" if is_flex(case) else ""
            bad.append((f"raises-{step['error'][2:]}/{kind}", f"request {k}: linearize raised {step['error']}: {last}{at} | {exc[-300:]}"))
            break
        tr = truth(case, req["point"])
        for o, x in step["pairs"]:
            b = step["blocks"][(o, x)]
            want = tr[(o, x)]
            if b == "missing":
                bad.append((f"missing-block/{kind}", f"request {k}: no block d{o}/d{x} returned"))
            elif isinstance(b, str):
                bad.append((f"shape/{kind}", f"request {k}: block d{o}/d{x} has {b}, expected ({len(want)}, {len(req['point'][x])}) at this input point"))
            elif not (len(b) == len(want) and all(len(r) == len(w) and all(e == f for e, f in zip(r, w)) for r, w in zip(b, want))):
                zero = all(e == 0 for w in want for e in w)
                bad.append((
                    f"wrong-block/{kind}",
                    f"request {k}: d{o}/d{x} returned {_mat(b)}, exact total derivative {_mat(want)}" + (" (independent pair: zero block expected)" if zero else ""),
                ))
    if len(run["steps"]) < len(case["reqs"]) and not any("error" in s for s in run["steps"]):
        bad.append((f"truncated/{kind}", "the request history was not completed"))
    # one message per key
    seen = set()
    return [b for b in bad if not (b[0] in seen or seen.add(b[0]))]


# =========================================================================== comparison with the model


def split_model(ans: str):
    """model answer -> [(blocks string, {leaf: (ins, outs)})] per request."""
    out = []
    for part in ans.split(" | "):
        if " # " in part or part.endswith(" #"):
            blocks, _, sel = part.partition(" # ")
            sels = {}
            for tok in sel.split():
                i, a, b = tok.split(":")
                sels[int(i)] = ([] if a == "-" else a.split(","), [] if b == "-" else b.split(","))
            out.append((blocks.strip(), sels))
        else:
            out.append((part.strip(), {}))
    return out


def compare(case, run, ans: str) -> str | None:
    """None when implementation and model agree, else a description of the first difference."""
    lines = impl_lines(case, run)
    model = split_model(ans)
    # An MDAChain WITHOUT cache that the enclosing process does not differentiate still reaches its
    # _compute_jacobian (Discipline.linearize only returns early through the cache) with empty name lists,
    # which its inner chain reads as "everything": more partials than selected are computed (harmless:
    # pruned_eq_full only needs the selection to be covered).  Superset accepted for these leaves.
    ids = {id(l): i for i, l in enumerate(leaves(case["proc"]))}
    relaxed = {ids[id(l)] for n in _all_nodes(case["proc"]) if n["t"] == "M" and n.get("cache", "SimpleCache") == "" for l in leaves(n)}
    for k, line in enumerate(lines):
        if k >= len(model):
            return f"request {k}: model gave no answer"
        mb, msel = model[k]
        if line != mb:
            return f"request {k}: blocks differ: impl `{line[:300]}` model `{mb[:300]}`"
        calls = run["steps"][k].get("calls", {})
        for lid, (ci, co) in calls.items():
            mi, mo = msel.get(lid, ([], []))
            if lid in relaxed and set(mi) <= set(ci) and set(mo) <= set(co):
                continue
            if ci != mi or co != mo:
                return f"request {k}: leaf {lid} was asked to differentiate outputs {co} wrt inputs {ci}, model selects {mo} wrt {mi}"
    return None


# =========================================================================== shrinking / neighbours


def _valid(case, scope=True) -> bool:
    try:
        proc = case["proc"]
        if scope and not in_scope(proc):
            return False
        ins, outs = node_ins(proc), node_outs(proc)
        if not ins or not outs or not case["reqs"]:
            return False
        for r in case["reqs"]:
            if not set(r["in"]) <= set(ins) or not set(r["out"]) <= set(outs):
                return False
            if set(r["point"]) != set(ins):
                return False
            if r.get("call") == "adapter" and (r["all"] or set(ins) & set(outs) or any(l["spec"]["kind"] == "operator" for l in leaves(proc))):
                return False
            if any(set(q) != set(ins) for q in r.get("pre", [])):
                return False
            if r.get("how") == "all-in" and set(r["in"]) != set(ins):
                return False
            if r.get("how") == "all-out" and set(r["out"]) != set(outs):
                return False
        for l in leaves(proc):
            if not l["spec"]["outs"] or not l["spec"]["ins"]:
                return False
        if proc["t"] != "L" and not proc["kids"]:
            return False
        for n in _all_nodes(proc):
            if n["t"] != "L" and not n["kids"]:
                return False
            if n["t"] == "A" and not n["sums"]:
                return False
        first = case["reqs"][0]
        if not first["all"] and (not first["in"] or not first["out"]):
            return False
        if is_flex(case):
            if not all(l["spec"].get("flex") for l in leaves(proc)):
                return False
            for r in case["reqs"]:
                if any(sizes_at(case, q) is None or any(len(v) < 1 for v in q.values()) for q in [*r.get("pre", []), r["point"]]):
                    return False
        return exact_ok(case)
    except Exception:  # noqa: BLE001
        return False


def _all_nodes(node):
    yield node
    if node["t"] != "L":
        for k in node["kids"]:
            yield from _all_nodes(k)


def _fix_points(case):
    ins = node_ins(case["proc"])
    used = set(ins) | set(node_outs(case["proc"]))
    for l in leaves(case["proc"]):
        used |= {n for n, _ in l["spec"]["ins"]} | {n for n, _ in l["spec"]["outs"]}
    case["sizes"] = {n: k for n, k in case["sizes"].items() if n in used}
    flex = is_flex(case)

    def fix(pt):
        if flex:  # the lengths of the vectors of a point are data: kept
            return {n: list(pt[n]) if pt.get(n) else ["0"] * case["sizes"][n] for n in ins}
        return {n: pt.get(n, ["0"] * case["sizes"][n])[: case["sizes"][n]] + ["0"] * max(0, case["sizes"][n] - len(pt.get(n, []))) for n in ins}

    for r in case["reqs"]:
        r["point"] = fix(r["point"])
        if "pre" in r:
            r["pre"] = [fix(q) for q in r["pre"]]
        r["in"] = list(ins) if r.get("how") == "all-in" else [n for n in r["in"] if n in ins]
        r["out"] = list(node_outs(case["proc"])) if r.get("how") == "all-out" else [n for n in r["out"] if n in node_outs(case["proc"])]


def shrink_candidates(case):
    """Smaller variants of a case (one change each)."""
    # drop requests
    for i in range(len(case["reqs"])):
        c = copy.deepcopy(case)
        del c["reqs"][i]
        yield c
    # shorten requests
    for i, r in enumerate(case["reqs"]):
        for fld in ("in", "out"):
            for j in range(len(r[fld])):
                c = copy.deepcopy(case)
                del c["reqs"][i][fld][j]
                yield c
        if r["all"]:
            c = copy.deepcopy(case)
            c["reqs"][i]["all"] = False
            yield c
        for j in range(len(r.get("pre", []))):
            c = copy.deepcopy(case)
            del c["reqs"][i]["pre"][j]
            if not c["reqs"][i]["pre"]:
                del c["reqs"][i]["pre"]
            yield c
        if r.get("call", "point") != "point" or r.get("how"):
            c = copy.deepcopy(case)
            c["reqs"][i]["call"] = "point"
            c["reqs"][i].pop("how", None)
            yield c
    # drop a child / hoist a nested node's children / replace a nested node by one child
    nodes = list(_all_nodes(case["proc"]))
    for ni, n in enumerate(nodes):
        if n["t"] == "L":
            continue
        for j in range(len(n["kids"])):
            c = copy.deepcopy(case)
            m = list(_all_nodes(c["proc"]))[ni]
            del m["kids"][j]
            if m["t"] == "A":
                m["sums"] = [s for s in m["sums"] if any(s in node_outs(k) for k in m["kids"])]
            _fix_points(c)
            yield c
        for j, k in enumerate(n["kids"]):
            if k["t"] in ("C", "P", "A", "M") and n["t"] == "C":
                c = copy.deepcopy(case)
                m = list(_all_nodes(c["proc"]))[ni]
                m["kids"][j : j + 1] = m["kids"][j]["kids"]
                _fix_points(c)
                yield c
    for ni, n in enumerate(nodes):
        if n["t"] != "L" and n.get("cache", "SimpleCache") != "SimpleCache":
            c = copy.deepcopy(case)
            list(_all_nodes(c["proc"]))[ni]["cache"] = "SimpleCache"
            yield c
    if case["proc"]["t"] != "L" and len(case["proc"]["kids"]) == 1 and case["proc"]["kids"][0]["t"] != "L":
        c = copy.deepcopy(case)
        c["proc"] = c["proc"]["kids"][0]
        _fix_points(c)
        yield c
    # drop outputs / inputs of leaves, polynomial terms
    for li, l in enumerate(leaves(case["proc"])):
        spec = l["spec"]
        for j in range(len(spec["outs"])):
            if len(spec["outs"]) > 1:
                c = copy.deepcopy(case)
                s = list(leaves(c["proc"]))[li]["spec"]
                name = s["outs"][j][0]
                del s["outs"][j]
                del s["poly"][name]
                for n in _all_nodes(c["proc"]):
                    if n["t"] == "A":
                        n["sums"] = [x for x in n["sums"] if any(x in node_outs(k) for k in n["kids"])]
                _fix_points(c)
                yield c
        for j in range(len(spec["ins"])):
            if len(spec["ins"]) > 1:
                c = copy.deepcopy(case)
                s = list(leaves(c["proc"]))[li]["spec"]
                name = s["ins"][j][0]
                del s["ins"][j]
                for comps in s["poly"].values():
                    for comp in comps:
                        comp["lin"] = [t for t in comp.get("lin", []) if t[0] != name]
                        comp["quad"] = [t for t in comp.get("quad", []) if name not in (t[0], t[2])]
                _fix_points(c)
                yield c
        for o, comps in spec["poly"].items():
            for ci, comp in enumerate(comps):
                for fld in ("quad", "lin"):
                    for j in range(len(comp.get(fld, []))):
                        c = copy.deepcopy(case)
                        del list(leaves(c["proc"]))[li]["spec"]["poly"][o][ci][fld][j]
                        yield c
        if spec.get("cache", "SimpleCache") != "SimpleCache":
            c = copy.deepcopy(case)
            list(leaves(c["proc"]))[li]["spec"]["cache"] = "SimpleCache"
            yield c
        if spec.get("kind") != "dense" or not spec.get("jac_all", True):
            c = copy.deepcopy(case)
            s = list(leaves(c["proc"]))[li]["spec"]
            s["kind"] = "dense"
            s["jac_all"] = True
            yield c
    # sizes to 1
    for v, sz in case["sizes"].items():
        if sz > 1 and not is_flex(case):
            c = copy.deepcopy(case)
            c["sizes"][v] = 1
            for l in leaves(c["proc"]):
                s = l["spec"]
                s["ins"] = [[n, 1 if n == v else k] for n, k in s["ins"]]
                s["outs"] = [[n, 1 if n == v else k] for n, k in s["outs"]]
                if v in s["poly"]:
                    s["poly"][v] = s["poly"][v][:1]
                for comps in s["poly"].values():
                    for comp in comps:
                        comp["lin"] = [t for t in comp.get("lin", []) if not (t[0] == v and int(t[1]) > 0)]
                        comp["quad"] = [t for t in comp.get("quad", []) if not ((t[0] == v and int(t[1]) > 0) or (t[2] == v and int(t[3]) > 0))]
            _fix_points(c)
            yield c


def shrink(case, fails, budget: int = 250, scope: bool = True):
    cur = case
    calls = 0
    progress = True
    while progress and calls < budget:
        progress = False
        for cand in shrink_candidates(cur):
            if calls >= budget:
                break
            if not _valid(cand, scope):
                continue
            calls += 1
            try:
                bad = fails(cand)
            except Exception:  # noqa: BLE001
                bad = False
            if bad:
                cur = cand
                progress = True
                break
    cur = copy.deepcopy(cur)
    _fix_points(cur)
    return cur


def rename(case, mapping):
    s = json.dumps(case)
    c = json.loads(s)

    def r(n):
        return mapping.get(n, n)

    c["sizes"] = {r(n): k for n, k in c["sizes"].items()}
    for l in leaves(c["proc"]):
        sp = l["spec"]
        sp["ins"] = [[r(n), k] for n, k in sp["ins"]]
        sp["outs"] = [[r(n), k] for n, k in sp["outs"]]
        sp["poly"] = {
            r(o): [
                {"c": comp["c"], "lin": [[r(t[0]), t[1], t[2]] for t in comp.get("lin", [])],
                 "quad": [[r(t[0]), t[1], r(t[2]), t[3], t[4]] for t in comp.get("quad", [])]}
                for comp in comps
            ]
            for o, comps in sp["poly"].items()
        }
    for n in _all_nodes(c["proc"]):
        if n["t"] == "A":
            n["sums"] = [r(x) for x in n["sums"]]
    for q in c["reqs"]:
        q["in"] = [r(n) for n in q["in"]]
        q["out"] = [r(n) for n in q["out"]]
        q["point"] = {r(n): v for n, v in q["point"].items()}
        if "pre" in q:
            q["pre"] = [{r(n): v for n, v in pt.items()} for pt in q["pre"]]
    return c


def neighbours(case, rng):
    """Variants of a case for the failing-input search (requests dropped/duplicated/reordered, children
    permuted, names re-ordered alphabetically, other points)."""
    n = len(case["reqs"])
    for i in range(n):
        c = copy.deepcopy(case)
        del c["reqs"][i]
        yield c
        c = copy.deepcopy(case)
        c["reqs"].insert(i, copy.deepcopy(c["reqs"][i]))
        yield c
    for i in range(n - 1):
        c = copy.deepcopy(case)
        c["reqs"][i], c["reqs"][i + 1] = c["reqs"][i + 1], c["reqs"][i]
        yield c
    names = sorted(case["sizes"])
    yield rename(case, dict(zip(names, reversed(names))))
    for _ in range(3):
        perm = list(names)
        rng.shuffle(perm)
        yield rename(case, dict(zip(names, perm)))
    nodes = list(_all_nodes(case["proc"]))
    for ni, nd in enumerate(nodes):
        if nd["t"] != "L" and len(nd["kids"]) > 1:
            for j in range(len(nd["kids"]) - 1):
                c = copy.deepcopy(case)
                m = list(_all_nodes(c["proc"]))[ni]
                m["kids"][j], m["kids"][j + 1] = m["kids"][j + 1], m["kids"][j]
                _fix_points(c)
                yield c
    for _ in range(3):
        c = copy.deepcopy(case)
        moved: dict[str, dict] = {}

        def move(pt, c=c, moved=moved):
            k = json.dumps(pt, sort_keys=True)
            if k not in moved:
                moved[k] = {n: [rat(Fraction(rng.randint(-4, 4), 2)) for _ in vals] for n, vals in pt.items()}
            return dict(moved[k])

        for q in c["reqs"]:
            q["point"] = move(q["point"])
            if "pre" in q:
                q["pre"] = [move(pt) for pt in q["pre"]]
        yield c
    c = copy.deepcopy(case)
    for q in c["reqs"]:
        q["all"] = True
    yield c
    # every leaf made non-linear in all its inputs: a Jacobian computed at other data is then a wrong block
    for coef in ("1", "2"):
        c = copy.deepcopy(case)
        for l in leaves(c["proc"]):
            sp = l["spec"]
            ins_ = [(n_, j) for n_, k in sp["ins"] for j in range(k)]
            for comps in sp["poly"].values():
                for ci, comp in enumerate(comps):
                    comp.setdefault("quad", [])
                    for a, (n_, j) in enumerate(ins_):
                        m_, i_ = ins_[(a + ci + 1) % len(ins_)]
                        comp["quad"].append([n_, j, m_, i_, coef])
        yield c


# =========================================================================== run


def _pt_key(pt) -> str:
    return json.dumps(pt, sort_keys=True)


def history_tags(case) -> set[str]:
    """Features of the sequence of points of a history."""
    tags: set[str] = set()
    seq: list[str] = []
    for r in case["reqs"]:
        for q in r.get("pre", []):
            seq.append(_pt_key(q))
            tags.add("plain-execute-between-requests")
        k = _pt_key(r["point"])
        if k in seq and seq[-1] != k:
            tags.add("revisited-point")  # back to a point evaluated earlier, another point in between
        seq.append(k)
    return tags


def overwrite_tags(case) -> set[str]:
    tags: set[str] = set()
    for l in leaves(case["proc"]):
        sp = l["spec"]
        both = {n for n, _ in sp["ins"]} & {n for n, _ in sp["outs"]}
        if both:
            tags.add("self-overwrite")
        if len(both) >= 2:
            tags.add("self-overwrite>=2-vars")
        if any(t[0] in both or t[2] in both for comps in sp["poly"].values() for c in comps for t in c.get("quad", [])):
            tags.add("self-overwrite:nonlinear")
    for n in _all_nodes(case["proc"]):
        if n["t"] != "L" and set(node_ins(n)) & set(node_outs(n)):
            tags.add("process-input-also-output")
    return tags


def fine_key(key: str, small) -> str:
    """Coarse oracle key refined by the features of the *shrunk* failing case (stable classification)."""
    tags = []
    writers: dict[str, int] = {}
    for l in leaves(small["proc"]):
        for o, _ in l["spec"]["outs"]:
            writers[o] = writers.get(o, 0) + 1
    if any(v > 1 for v in writers.values()):
        tags.append("var-written-twice")
    kinds = sorted({n["t"] for n in _all_nodes(small["proc"]) if n["t"] != "L"})
    tags.append("nodes=" + "".join(kinds))
    lk = sorted({l["spec"]["kind"] for l in leaves(small["proc"])} - {"dense"})
    if lk:
        tags.append("jac=" + "+".join(lk))
    if "self-overwrite" in overwrite_tags(small):
        tags.append("self-overwrite")
    if len(small["reqs"]) > 1 or any(r.get("pre") for r in small["reqs"]):
        tags.append("history")
    if "revisited-point" in history_tags(small):
        tags.append("revisit")
    if any(r["all"] for r in small["reqs"]):
        tags.append("compute-all")
    if is_flex(small) and "flex:sizes-change-between-linearizations" in flex_tags(small):
        tags.append("sizes-change")
    return key + "|" + ",".join(tags)


def fails_with(key):
    def f(c):
        return any(k == key for k, _ in oracle(c, impl_run(c)))

    return f


def features(case) -> list[str]:
    f = [f"top={case['proc']['t']}", f"nreq={len(case['reqs'])}", f"nleaf={min(sum(1 for _ in leaves(case['proc'])), 8)}"]
    kinds = {n["t"] for n in _all_nodes(case["proc"]) if n is not case["proc"] and n["t"] != "L"}
    for k in sorted(kinds):
        f.append(f"nested={k}")
    writers: dict[str, int] = {}
    for l in leaves(case["proc"]):
        for o, _ in l["spec"]["outs"]:
            writers[o] = writers.get(o, 0) + 1
        if any(c.get("quad") for comps in l["spec"]["poly"].values() for c in comps):
            f.append("nonlinear-leaf")
        f.append("kind=" + l["spec"]["kind"])
        f.append("cache=" + (l["spec"].get("cache", "SimpleCache") or "none"))
    if any(v > 1 for v in writers.values()):
        f.append("var-written-twice")
    if any(r["all"] for r in case["reqs"]):
        f.append("compute-all")
    for r in case["reqs"]:
        f.append("call=" + r.get("call", "point"))
        if r.get("how"):
            f.append("how=" + r["how"])
    for n in _all_nodes(case["proc"]):
        if n["t"] != "L" and n.get("cache", "SimpleCache") != "SimpleCache":
            f.append("process-cache=" + (n["cache"] or "none"))
        if n.get("deep"):
            f.append("parallel:use_deep_copy")
        if n.get("nproc"):
            f.append("parallel:n_processes=1")
    f += sorted(overwrite_tags(case)) + sorted(history_tags(case))
    multi = [n["t"] for n in _all_nodes(case["proc"]) if n["t"] != "L" and n.get("cache") == "MemoryFullCache"]
    if "revisited-point" in history_tags(case) and multi:
        f.append("revisited-point+process-MemoryFullCache")
        if case["proc"].get("cache") == "MemoryFullCache":
            f.append("revisited-point+top-MemoryFullCache:top=" + case["proc"]["t"])
    if len({json.dumps(r["point"], sort_keys=True) for r in case["reqs"]}) > 1:
        f.append("several-points")
    if any(s > 1 for s in case["sizes"].values()):
        f.append("vector-vars")
    if is_flex(case):
        f += flex_tags(case)
    return sorted(set(f))


def check_cases(res: Result, cases, scope: bool, rng) -> None:
    runs = []
    lines = []
    for c in cases:
        run = impl_run(c)
        runs.append(run)
        lines.append(case_line(c, run["structure"]))
    elines = [eval_line(c, run["structure"]) if scope else None for c, run in zip(cases, runs)]
    answers = common.run_lean_driver(PID, lines + [e for e in elines if e is not None])
    eanswers = iter(answers[len(lines):])
    eans = [next(eanswers) if e is not None else None for e in elines]
    for case, run, line, ans, eline, ean in zip(cases, runs, lines, answers, elines, eans):
        res.evaluations += 1
        for ft in features(case):
            res.count(ft)
        if sum(1 for _ in leaves(case["proc"])) >= 2:
            res.nontrivial(line)
        res.sample({"protocol_line": line[:400], "impl": impl_lines(case, run)[:2], "model": ans[:300]}, cap=3)
        bad = oracle(case, run) if scope else []
        for key, msg in bad:
            res.count("oracle-fail:" + key)
            n_shrunk = sum(1 for v in res.violations if v.kind == "oracle" and v.key.split("|")[0] == key)
            if n_shrunk >= 4 or res.extra.setdefault("_shrinks", {}).get(key, 0) >= 8:
                continue
            res.extra["_shrinks"][key] = res.extra["_shrinks"].get(key, 0) + 1
            small = shrink(case, fails_with(key))
            r2 = impl_run(small)
            msg = "; ".join(m for k, m in oracle(small, r2) if k == key) or msg
            res.violate("oracle", fine_key(key, small), msg, {
                "case": small,
                "impl": impl_lines(small, r2),
                "oracle": [m for k, m in oracle(small, r2) if k == key],
                "protocol_line": case_line(small, r2["structure"]),
            })
        diff = compare(case, run, ans)
        if diff is None and eline is not None:
            res.count("eval-line(flat chain: executions + linearization points vs model)")
            diff = compare_eval(case, run, ean)
        if diff is None:
            res.traces_validated += 1
            continue
        res.disagreements += 1
        if not scope:
            res.count("probe-disagreement")
            if len(res.notes) < 5:
                res.notes.append(f"out-of-scope probe disagreement (information only): {diff[:200]}")
            continue
        if bad or any(v.kind == "oracle" for v in res.violations):
            continue
        # failing-input search: neighbours of the disagreeing case, then fresh cases of the same kind
        found = False
        tried = 0
        for nb in neighbours(case, rng):
            if not _valid(nb):
                continue
            tried += 1
            r2 = impl_run(nb)
            b2 = oracle(nb, r2)
            if b2:
                key, msg = b2[0]
                small = shrink(nb, fails_with(key))
                r3 = impl_run(small)
                res.violate("oracle", key, msg, {"case": small, "impl": impl_lines(small, r3),
                                                 "protocol_line": case_line(small, r3["structure"])})
                found = True
                break
        if not found:
            for _ in range(60):
                nb = gen_flex_case(rng, top=case["proc"]["t"]) if is_flex(case) else gen_case(rng, True, top=case["proc"]["t"])
                tried += 1
                b2 = oracle(nb, impl_run(nb))
                if b2:
                    key, msg = b2[0]
                    small = shrink(nb, fails_with(key))
                    res.violate("oracle", key, msg, {"case": small})
                    found = True
                    break
        res.count("failing-input-search-cases", tried)
        if not found:
            small = shrink(case, lambda c: disagreement(c) is not None, budget=40)
            r2 = impl_run(small)
            line2 = case_line(small, r2["structure"])
            eline2 = eval_line(small, r2["structure"])
            res.violate(
                "correspondence", "model-vs-impl",
                "implementation and Lean model disagree on a request history (no property-violating input found): " + (disagreement(small) or diff)[:300],
                {"case": small, "protocol_line": line2, "impl": impl_lines(small, r2),
                 "model": common.run_lean_driver(PID, [line2])[0],
                 "eval_line": eline2, "eval_model": common.run_lean_driver(PID, [eline2])[0] if eline2 else None,
                 "correspondence": "Driver/C09.lean `case` and `eval`"},
            )


def disagreement(c) -> str | None:
    """Difference between the implementation and the model on a case (`case` line, then `eval` line)."""
    r = impl_run(c)
    lines = [case_line(c, r["structure"])]
    e = eval_line(c, r["structure"])
    if e is not None:
        lines.append(e)
    a = common.run_lean_driver(PID, lines)
    d = compare(c, r, a[0])
    if d is None and e is not None:
        d = compare_eval(c, r, a[1])
    return d


def _lin_leaf(name, ins, outs, coefs):
    """Scalar linear leaf: outs[o] = sum coefs[(o, i)] * i."""
    return {"t": "L", "spec": {
        "name": name, "ins": [[i, 1] for i in ins], "outs": [[o, 1] for o in outs],
        "poly": {o: [{"c": "0", "lin": [[i, 0, str(coefs[(o, i)])] for i in ins], "quad": []}] for o in outs},
        "kind": "dense", "jac_all": True, "cache": "SimpleCache"}}


def enumerate_small():
    """Exhaustive small scope: every in-scope chain of 3 scalar linear disciplines over the inputs {x, w}
    (each reads 1-2 available variables and writes a fresh variable, re-writes an unread one or updates one
    of its own inputs in place), and every
    parallel/additive chain of 2 such disciplines writing among {s, t}; distinct prime coefficients."""
    import itertools

    primes = [2, 3, 5, 7, 11, 13]
    cases = []

    def subsets(pool):
        return [list(c) for r in (1, 2) for c in itertools.combinations(pool, r)]

    def finish(proc, sizes):
        ins, outs = node_ins(proc), node_outs(proc)
        point = {n: ["1"] for n in ins}
        reqs = [{"in": [ins[0]], "out": [outs[-1]], "all": False, "point": point, "call": "point"},
                {"in": list(ins), "out": list(outs), "all": False, "point": point, "call": "point"}]
        return {"sizes": sizes, "proc": proc, "reqs": reqs}

    for in0 in subsets(["x", "w"]):
        for in1 in subsets(["x", "w", "o0"]):
            for out1 in ["o1", "o0"]:  # o0 in in1: D1 updates o0 in place
                avail2 = ["x", "w"] + sorted({"o0", out1})
                for in2 in subsets(avail2):
                    read = set(in0) | set(in1)  # D2 may overwrite its own inputs, not what D0/D1 read
                    for out2 in ["o2"] + [v for v in sorted({"o0", out1}) if v not in read]:
                        leaves_ = []
                        k = 0
                        for name, ins, out in (("D0", in0, "o0"), ("D1", in1, out1), ("D2", in2, out2)):
                            coefs = {}
                            for i in ins:
                                coefs[(out, i)] = primes[k % len(primes)]
                                k += 1
                            leaves_.append(_lin_leaf(name, ins, [out], coefs))
                        proc = {"t": "C", "kids": leaves_}
                        if not in_scope(proc):
                            continue
                        names = set(node_ins(proc)) | set(node_outs(proc))
                        cases.append(finish(proc, {n: 1 for n in names}))
    for kind in ("P", "A"):
        for in0 in subsets(["x", "w"]):
            for in1 in subsets(["x", "w"]):
                for outs0 in (["s"], ["s", "t"], ["t"]):
                    for outs1 in (["s"], ["t"], ["s", "t"]):
                        coefs0 = {(o, i): primes[(a + 2 * b) % 6] for a, o in enumerate(outs0) for b, i in enumerate(in0)}
                        coefs1 = {(o, i): primes[(3 + a + 2 * b) % 6] for a, o in enumerate(outs1) for b, i in enumerate(in1)}
                        proc = {"t": kind, "kids": [_lin_leaf("D0", in0, outs0, coefs0), _lin_leaf("D1", in1, outs1, coefs1)]}
                        if kind == "A":
                            proc["sums"] = ["s"] if "s" in outs0 + outs1 else ["t"]
                        names = set(node_ins(proc)) | set(node_outs(proc))
                        cases.append(finish(proc, {n: 1 for n in names}))
    return cases


# =========================================================================== MDAChain, coupled-adjoint path
# MDAChain(chain_linearize=False) — the default as soon as the disciplines share a variable — does not
# use MDOChain's accumulation but BaseMDA._compute_jacobian (JacobianAssembly.total_derivatives, a
# linear solve).  Rounded stream, oracle only: every returned entry must be within 2^-30 (relative to
# max(1, |block|_max)) of the exact total derivative.

MDA_BOUND = Fraction(1, 2**30)


def mda_adjoint_run(case, variant):
    from gemseo.mda.mda_chain import MDAChain

    made: dict[int, Any] = {}
    for k in case["proc"]["kids"]:
        build(k, made)
    proc = case["proc"]
    ins, outs = node_ins(proc), node_outs(proc)
    bad: list[tuple[str, str]] = []
    with contextlib.redirect_stderr(io.StringIO()):
        obj = MDAChain([made[id(k)] for k in proc["kids"]], **variant)
        _set_cache(obj, proc.get("cache", "SimpleCache"))
    cum_in: list[str] = []
    cum_out: list[str] = []
    for k, req in enumerate(case["reqs"]):
        cum_in += [n for n in req["in"] if n not in cum_in]
        cum_out += [n for n in req["out"] if n not in cum_out]
        xs, os_ = (ins, outs) if req["all"] else (cum_in, cum_out)
        if not xs or not os_:
            continue
        tr = truth(case, req["point"])
        indep = any(all(e == 0 for x in xs for r in tr[(o, x)] for e in r) for o in os_) or any(
            all(e == 0 for o in os_ for r in tr[(o, x)] for e in r) for x in xs
        )
        point = {n: np.array([float(Fraction(v)) for v in vals]) for n, vals in req["point"].items()}
        try:
            with contextlib.redirect_stderr(io.StringIO()):
                for q in req.get("pre", []):
                    obj.execute({n: np.array([float(Fraction(v)) for v in vals]) for n, vals in q.items()})
                if req["in"]:
                    obj.add_differentiated_inputs(list(req["in"]))
                if req["out"]:
                    obj.add_differentiated_outputs(list(req["out"]))
                jac = obj.linearize(point, compute_all_jacobians=bool(req["all"]))
        except Exception as e:  # noqa: BLE001
            tag = common.exc_class(e)[2:]
            key = "raises/mdachain-adjoint|independent-pair-requested" if indep else f"raises-{tag}/mdachain-adjoint"
            bad.append((key, f"request {k}: MDAChain(chain_linearize=False).linearize raised {common.exc_class(e)}: {common.short_tb(e, 3)[-300:]}"))
            break
        for o in os_:
            for x in xs:
                want = tr[(o, x)]
                try:
                    b = dense(jac[o][x])
                except (KeyError, TypeError):
                    bad.append(("missing-block/mdachain-adjoint", f"request {k}: no block d{o}/d{x}"))
                    continue
                if b.shape != (len(want), len(req["point"][x])) or not np.all(np.isfinite(b)):
                    bad.append(("shape/mdachain-adjoint", f"request {k}: d{o}/d{x} has shape {b.shape}, expected {(len(want), len(req['point'][x]))} at this input point"))
                    continue
                scale = max([Fraction(1)] + [abs(e) for r in want for e in r])
                ok = all(abs(F(b[i][j]) - want[i][j]) <= MDA_BOUND * scale for i in range(len(want)) for j in range(len(want[i])))
                if not ok:
                    bad.append(("wrong-block/mdachain-adjoint", f"request {k}: d{o}/d{x} returned {b.tolist()}, exact {_mat(want)}"))
    seen = set()
    return [b for b in bad if not (b[0] in seen or seen.add(b[0]))]


def check_mda_adjoint(res: Result, rng, n: int) -> None:
    variants = [{}, {"inner_mda_name": "MDAGaussSeidel"}, {"mdachain_parallelize_tasks": True}]
    corpus = load_corpus("mdachain-adjoint")
    for i in range(len(corpus) + n):
        if i < len(corpus):
            case, variant = corpus[i]
        else:
            # 30 %: size-agnostic leaves, the same MDAChain linearized at points whose vectors change length
            case = gen_flex_case(rng, top="M") if rng.chance(0.3) else gen_case(rng, True, top="M")
            for r in case["reqs"]:
                r["call"] = "point"
                r.pop("how", None)
            variant = variants[i % len(variants)]
        res.evaluations += 1
        res.count("mdachain-adjoint(rounded stream, oracle only)")
        if is_flex(case):
            for t in flex_tags(case):
                res.count("mdachain-adjoint:" + t)
        if "revisited-point" in history_tags(case) and case["proc"].get("cache") == "MemoryFullCache":
            res.count("mdachain-adjoint:revisited-point+MemoryFullCache")
        res.nontrivial("mda:" + case_line(case)[:2000])
        for key, msg in mda_adjoint_run(case, variant):
            res.count("oracle-fail:" + key)
            if any(v.key == key for v in res.violations):
                continue

            def fails(c, key=key, variant=variant):
                return any(k == key for k, _ in mda_adjoint_run(c, variant))

            small = shrink(case, fails, budget=80)
            res.violate("oracle", key, msg, {"case": small, "mda_variant": variant, "stream": "mdachain-adjoint"})


def load_corpus(stream: str | None = None):
    d = common.CORPUS_DIR / PID
    out = []
    if d.is_dir():
        for p in sorted(d.glob("*.json")):
            e = json.loads(p.read_text())
            if e.get("stream") == stream:
                out.append(e["case"] if stream is None else (e["case"], e.get("mda_variant", {})))
    return out


def run(ctx) -> Result:
    res = Result(PID)
    res.rule = (
        "generated process trees (MDOChain/MDOParallelChain/MDOAdditiveChain/MDAChain, nested up to depth 2, 1-8 "
        "polynomial leaf disciplines with dense/sparse/operator Jacobians, variables of size 1-3, diamonds, fan-in/out, "
        "dead writes and disciplines updating 1-3 of their own inputs in place with cross-dependence; caches "
        "SimpleCache/none/MemoryFullCache on every leaf and process) x histories of 1-4 add_differentiated_*/linearize "
        "calls (subsets, compute_all_jacobians, new / same / REVISITED input points, plain execute() calls between "
        "the requests); a case is non-trivial when the process has >= 2 leaf disciplines; distinct by protocol line; "
        "+ exhaustive small scope: every in-scope chain of 3 scalar linear disciplines over 2 inputs (fresh, "
        "re-written or updated-in-place outputs) and every parallel/additive pair; + size-agnostic stream: the same "
        "trees with leaves defined for vectors of any length, histories of >= 2 linearizations of ONE process object "
        "at input points whose vectors have different lengths (1-6 components; sizes are data, not part of the object)"
    )
    res.assumptions = [
        "in-scope = chains listed in a valid order (no discipline computes a variable that a STRICTLY earlier one "
        "reads; a discipline or sub-process may overwrite its own inputs: the data flow stays acyclic); an MDAChain "
        "has no input that is also an output (that is a self-coupling solved by an MDA, C07); other layouts are "
        "probed against the model only",
        "exact stream: every float intermediate is exactly representable (checked per case: term-by-term "
        "evaluation and the bound prod(1+sum|entries|) * 2^K < 2^52 on any accumulation order)",
        "MDAChain without strong couplings: chain_linearize=True on the exact stream (model + oracle); the default "
        "coupled-adjoint path (JacobianAssembly, C07) on a rounded stream, oracle only, bound 2^-30 relative",
    ]
    rng = ctx.rng
    n = 6000 if ctx.thorough else 420
    corpus = load_corpus()
    if corpus:
        check_cases(res, corpus, True, rng)
        res.count("corpus", len(corpus))
    import time

    done = 0
    while done < n and time.time() < ctx.deadline:
        batch = [gen_case(rng, True) for _ in range(min(60, n - done))]
        check_cases(res, batch, True, rng)
        done += len(batch)
    # size-agnostic stream: the same process object linearized at input points made of vectors of different
    # lengths (the sizes are data: zero blocks must be formed from the sizes of the CURRENT point)
    n_flex = 800 if ctx.thorough else 100
    done = 0
    while done < n_flex and time.time() < ctx.deadline:
        batch = [gen_flex_case(rng) for _ in range(min(50, n_flex - done))]
        check_cases(res, batch, True, rng)
        done += len(batch)
    res.count("size-agnostic-stream", done)
    if done < n_flex:
        res.notes.append(f"deadline reached: {n_flex - done} cases of the size-agnostic stream skipped")
    if True:  # exhaustive small scope (~800 cases, ~20 s): both tiers
        small = enumerate_small()
        n_small = 0
        for i in range(0, len(small), 100):
            if time.time() > ctx.deadline:
                res.notes.append(f"deadline reached: {len(small) - n_small} cases of the exhaustive small scope skipped")
                break
            check_cases(res, small[i : i + 100], True, rng)
            n_small += len(small[i : i + 100])
        res.count("exhaustive-small-scope", n_small)
    if time.time() < ctx.deadline:
        check_mda_adjoint(res, rng, 400 if ctx.thorough else 45)
    else:
        res.notes.append("deadline reached: coupled-adjoint stream skipped")
    probe = []
    for _ in range(max(10, n // 12)):
        try:
            probe.append(gen_case(rng, False))
        except RuntimeError:
            break
    if probe and time.time() < ctx.deadline:
        check_cases(res, probe, False, rng)
        res.count("out-of-scope-probes", len(probe))
    return res


def replay(path: str) -> int:
    data = json.loads(open(path).read())
    rp = data.get("replay", data)
    if "case" not in rp:
        print(json.dumps(rp, indent=1)[:3000])
        return 1
    case = rp["case"]
    if rp.get("stream") == "mdachain-adjoint":
        bad = mda_adjoint_run(case, rp.get("mda_variant", {}))
        print("protocol:", case_line(case))
        for key, msg in bad:
            print("ORACLE FAILS:", key, msg)
        return 1 if bad else 0
    run_ = impl_run(case)
    line = case_line(case, run_["structure"])
    print("protocol:", line)
    for k, l in enumerate(impl_lines(case, run_)):
        print(f"impl   request {k}:", l)
    try:
        print("model :", common.run_lean_driver(PID, [line])[0])
        eline = eval_line(case, run_["structure"])
        if eline is not None:
            eans = common.run_lean_driver(PID, [eline])[0]
            print("eval model (outputs of the executions / data at which every leaf is linearized):", eans)
            for k, st in enumerate(run_["steps"]):
                if st.get("lin_at"):
                    print(f"impl   request {k}: leaves linearized at", {i: _data(list(v), v) for i, v in st["lin_at"].items()})
            print("eval comparison:", compare_eval(case, run_, eans) or "agree")
    except Exception as e:  # noqa: BLE001
        print("model : (driver failed)", e)
    for k, req in enumerate(case["reqs"]):
        tr = truth(case, req["point"])
        if k < len(run_["steps"]):
            print(f"oracle request {k}:", " ".join(f"{o}/{x}={_mat(tr[(o, x)])}" for o, x in run_["steps"][k]["pairs"]))
    bad = oracle(case, run_) if in_scope(case["proc"]) else []
    for key, msg in bad:
        print("ORACLE FAILS:", key, msg)
    return 1 if bad else 0
