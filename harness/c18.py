"""C18 — surrogate models are consistent with their own predictions and data.

Streams (all driven through the public API of the real code, in-process):
  K  kernels      : real `RBFRegressor.RBFDerivatives.der_*` vs the Lean evaluation of the formula the
                    translator extracted from /repo (Gen/C18Kernels.lean), vs the *verified* symbolic
                    derivative of the SciPy kernel (Lean, Float), vs an mpmath reference derivative.
  T  transformers : fit / transform / inverse_transform / compute_jacobian(_inverse) of scalers,
                    PCA, power transforms, KLSVD, PLS and pipelines vs the Lean model (exact) and the
                    oracle (inverse o transform = id, Jacobian = centred differences, 1-D/2-D agreement,
                    pipeline fitted step by step).
  R  regressors   : every regressor offering derivatives x settings x transformers x learning sets:
                    predict_jacobian vs Richardson-extrapolated centred differences of predict
                    (2^-20 relative, positive assertion), batch/dict/array agreement, interpolation of
                    the learning set, SurrogateDiscipline.execute/linearize == model, Lean model of the
                    chain rule (linear / polynomial regression with affine+linear transformers).
The oracle never uses the model; the finite differences use only `predict` of the object under test
(the property is exactly the consistency of the object with itself).
"""

from __future__ import annotations

import copy
import json
import math
import time
from fractions import Fraction
from typing import Any

import numpy as np

from harness import c18_corr as C
from harness import c18_lib as L
from harness import common
from harness.common import F
from harness.common import Result
from harness.common import rat

PID = "C18"

TRUSTED_EXTRA = (
    "C18: scipy.interpolate.Rbf kernel definitions (_h_*: epsilon scales r only for multiquadric, inverse, gaussian) are the reference for the kernels phi_k of the theorems; sampled each run against the real Rbf object",
    "C18: fitting procedures (scikit-learn, SciPy linear solve, OpenTURNS PCE/GP, clustering/classification of the mixture of experts) are not modelled: the fitted parameters enter the model as inputs read from the public attributes of the fitted objects",
    "C18: translator harness/translate_c18.py (Python ast -> Lean Expr, restricted grammar) for RBFRegressor.RBFDerivatives.der_*",
    "C18: Lean Float evaluation (driver) and mpmath (60 digits) as numeric references on the rounded stream",
)

OT_ALGOS = ("PCERegressor", "OTGaussianProcessRegressor")
OT_BOUND = Fraction(1, 2**16)  # OpenTURNS differentiates its iso-probabilistic/trend maps approximately (1e-6 observed)
POWER_BOUND = Fraction(1, 2**12)
JAC_TR = ("Scaler", "MinMaxScaler", "StandardScaler", "PCA")  # transformers offering Jacobians
LOSSLESS_AFFINE = ("Scaler", "MinMaxScaler", "StandardScaler")

# --------------------------------------------------------------------------- generation helpers


def rr(v: Fraction | int) -> str:
    return rat(Fraction(v))


def dy(rng: common.Rng, lo: int, hi: int, den: int) -> Fraction:
    return Fraction(rng.randint(lo * den, hi * den), den)


def gen_points(rng: common.Rng, n: int, d: int, den: int = 4, lo: int = -2, hi: int = 2, positive: bool = False):
    """n distinct points of a dyadic grid."""
    pts: list[tuple[Fraction, ...]] = []
    seen = set()
    guard = 0
    while len(pts) < n and guard < 10000:
        guard += 1
        p = tuple(dy(rng, 1 if positive else lo, hi + (2 if positive else 0), den) for _ in range(d))
        if positive and any(v <= 0 for v in p):
            continue
        if p in seen:
            continue
        seen.add(p)
        pts.append(p)
    return pts


def gen_outputs(rng: common.Rng, pts, dout: int, kind: str | None = None):
    """Smooth functions of the inputs rounded to dyadic values (2^-6)."""
    d = len(pts[0])
    rows = []
    coefs = [[dy(rng, -2, 2, 2) for _ in range(d)] for _ in range(dout)]
    quad = [[dy(rng, -1, 1, 2) for _ in range(d)] for _ in range(dout)]
    kinds = [kind or rng.pick(["lin", "quad", "sin", "mix"]) for _ in range(dout)]
    shift = [dy(rng, -2, 2, 2) for _ in range(dout)]
    for p in pts:
        row = []
        for k in range(dout):
            lin = sum(c * v for c, v in zip(coefs[k], p)) + shift[k]
            if kinds[k] == "lin":
                val = lin
            elif kinds[k] == "quad":
                val = lin + sum(c * v * v for c, v in zip(quad[k], p))
            elif kinds[k] == "sin":
                val = Fraction(round(math.sin(float(lin)) * 64), 64) + shift[k]
            else:
                val = lin + Fraction(round(math.cos(float(sum(p))) * 64), 64) + p[0] * p[-1]
            row.append(val)
        rows.append(row)
    return rows


def split_sizes(rng: common.Rng, total: int, names: list[str], kmin: int = 1) -> list[list[Any]]:
    """Split `total` components over kmin..len(names) variables (dataset order = random order of names)."""
    k = rng.randint(min(kmin, total, len(names)), min(total, len(names)))
    cuts = sorted(rng.sample(range(1, total), k - 1)) if k > 1 else []
    sizes = [b - a for a, b in zip([0, *cuts], [*cuts, total])]
    chosen = rng.sample(names, k)
    return [[n, s] for n, s in zip(chosen, sizes)]


def gen_tr_spec(rng: common.Rng, dim: int, n: int, jac_only: bool = True, depth: int = 0, is_input: bool = True):
    """A transformer spec for a group of dimension `dim` fitted on n samples."""
    choices = ["Scaler", "ScalerVec", "MinMaxScaler", "StandardScaler", "PCA", "PCAscale"]
    if dim >= 2:
        choices += ["PCAred"]
    if depth == 0:
        choices += ["Pipeline", "Pipeline"]
    if not jac_only:
        choices += ["YeoJohnson"]
    c = rng.pick(choices)
    if c == "Scaler":
        return ["Scaler", {"offset": rr(dy(rng, -2, 2, 2)), "coefficient": rr(rng.pick([Fraction(1, 2), Fraction(2), Fraction(-1, 4), Fraction(3), Fraction(-2)]))}]
    if c == "ScalerVec":
        return [
            "Scaler",
            {
                "offset": [rr(dy(rng, -2, 2, 2)) for _ in range(dim)],
                "coefficient": [rr(rng.pick([Fraction(1, 2), Fraction(2), Fraction(-1, 4), Fraction(3), Fraction(4)])) for _ in range(dim)],
            },
        ]
    if c in ("MinMaxScaler", "StandardScaler", "YeoJohnson"):
        return [c, {}]
    if c == "PCA":
        return ["PCA", {}]
    if c == "PCAscale":
        return ["PCA", {"scale": True}]
    if c == "PCAred":
        return ["PCA", {"n_components": rng.randint(1, dim - 1)}]
    # pipeline of 0-3 steps; the dimension can shrink along the pipeline
    k = rng.pick([0, 1, 2, 2, 3])
    steps = []
    cur = dim
    for _ in range(k):
        s = gen_tr_spec(rng, cur, n, jac_only, depth + 1, is_input)
        if s[0] == "PCA" and s[1].get("n_components"):
            cur = s[1]["n_components"]
        steps.append(s)
    return ["Pipeline", steps]


def nested_reduction(spec, depth: int = 0) -> bool:
    """A dimension reduction with fewer components inside a pipeline (not tracked by the OpenTURNS-based regressors)."""
    if spec is None:
        return False
    if spec[0] == "Pipeline":
        return any(nested_reduction(s, depth + 1) for s in spec[1])
    return depth > 0 and spec[0] == "PCA" and bool(spec[1].get("n_components"))


def spec_names(spec) -> list[str]:
    if spec is None:
        return []
    if spec[0] == "Pipeline":
        return ["Pipeline", *[n for s in spec[1] for n in spec_names(s)]]
    return [spec[0]]


def spec_offers_jacobian(spec) -> bool:
    if spec[0] == "Pipeline":
        return all(spec_offers_jacobian(s) for s in spec[1])
    return spec[0] in JAC_TR


def spec_lossless(spec, dim: int) -> bool:
    """Lossless transformers of the property: scalers, power transforms, full-rank linear reductions, pipelines."""
    if spec[0] == "Pipeline":
        return all(spec_lossless(s, dim) for s in spec[1])
    if spec[0] == "PCA":
        return not spec[1].get("n_components") or spec[1]["n_components"] >= dim
    if spec[0] in ("KLSVD",):
        return not spec[1].get("n_components") or spec[1]["n_components"] >= dim
    return spec[0] in (*LOSSLESS_AFFINE, "BoxCox", "YeoJohnson")


# --------------------------------------------------------------------------- regressor cases

REG_ALGOS = (
    "LinearRegressor",
    "PolynomialRegressor",
    "RBFRegressor",
    "RBFRegressor",
    "RBFRegressor",
    "TPSRegressor",
    "RegressorChain",
    "MOERegressor",
    "PCERegressor",
    "OTGaussianProcessRegressor",
    "GaussianProcessRegressor",
)
SLOW = ("PCERegressor", "OTGaussianProcessRegressor", "MOERegressor")


def gen_sub_algo(rng: common.Rng, allow_rbf: bool = True):
    c = rng.pick(["LinearRegressor", "PolynomialRegressor", "RBFRegressor"] if allow_rbf else ["LinearRegressor", "PolynomialRegressor"])
    if c == "LinearRegressor":
        return [c, {"fit_intercept": rng.chance(0.7)}]
    if c == "PolynomialRegressor":
        return [c, {"degree": rng.randint(1, 3), "fit_intercept": rng.chance(0.7)}]
    return [c, {"function": rng.pick(L.KERNELS), "epsilon": rng.pick([None, "1/2", "3/4", "1"])}]


def gen_reg_case(rng: common.Rng, algo: str | None = None, kernel: str | None = None) -> dict[str, Any]:
    algo = algo or rng.pick(REG_ALGOS)
    din = rng.pick([1, 1, 2, 2, 3])
    dout = rng.pick([1, 1, 2, 3])
    # several input/output variables of several sizes (name lists of the surrogate discipline, dictionary layouts)
    wide = rng.chance(0.3)
    if wide:
        din = rng.pick([2, 3, 3, 4])
        dout = rng.pick([3, 4, 4, 5])
    opts: dict[str, Any] = {}
    case: dict[str, Any] = {"algo": algo}
    n = rng.randint(5, 9)
    if algo == "LinearRegressor" or algo == "PolynomialRegressor":
        opts["fit_intercept"] = rng.chance(0.7)
        pen = rng.pick([None, None, "ridge", "lasso", "elastic"])
        if pen:
            opts["penalty_level"] = rng.pick(["1/8", "1/64"])
            opts["l2_penalty_ratio"] = {"ridge": "1", "lasso": "0", "elastic": "1/2"}[pen]
        if algo == "PolynomialRegressor":
            opts["degree"] = rng.randint(1, 4)
            n = rng.randint(6, 12)
    elif algo == "RBFRegressor":
        fn = kernel or rng.pick([*L.KERNELS, *L.KERNELS, *L.CALLABLES])
        opts["function"] = fn
        opts["epsilon"] = rng.pick([None, None, "1/4", "1/2", "3/4", "1"])
        if rng.chance(0.15):
            opts["smooth"] = rng.pick(["1/16", "1/4"])
    elif algo == "TPSRegressor":
        opts["epsilon"] = rng.pick([None, "1/2", "1"])
    elif algo == "RegressorChain":
        case["chain"] = [gen_sub_algo(rng) for _ in range(rng.randint(1, 3))]
    elif algo == "MOERegressor":
        opts["hard"] = True
        case["moe"] = {"n_clusters": rng.pick([2, 2, 3]), "n_neighbors": 1, "regressor": gen_sub_algo(rng, allow_rbf=rng.chance(0.4))}
        if case["moe"]["regressor"][0] == "RBFRegressor":
            # local models trained with one or two points: kernels with phi(0) != 0 and an explicit width stay regular
            case["moe"]["regressor"][1] = {"function": rng.pick(["multiquadric", "inverse_multiquadric", "gaussian"]), "epsilon": rng.pick(["1/2", "3/4", "1"])}
        n = rng.randint(10, 14)
    elif algo == "PCERegressor":
        opts["degree"] = rng.randint(1, 3)
        opts["use_lars"] = rng.chance(0.3)
        n = rng.randint(10, 16)
        din = rng.pick([1, 2])
    elif algo == "OTGaussianProcessRegressor":
        dout = 1
        n = rng.randint(6, 9)
    elif algo == "GaussianProcessRegressor":
        n = rng.randint(5, 8)
    case["opts"] = opts
    case["in"] = split_sizes(rng, din, ["a", "b", "c"], kmin=2 if wide else 1)
    case["out"] = split_sizes(rng, dout, ["y", "z", "w", "v"] if wide else ["y", "z", "w"], kmin=2 if wide else 1)
    rbf_like = algo in ("RBFRegressor", "TPSRegressor", "OTGaussianProcessRegressor", "GaussianProcessRegressor") or (
        algo == "RegressorChain" and any(s == "RBFRegressor" for s, _ in case["chain"])
    )
    if rbf_like:
        # well separated centres (grid step 1/2) keep the interpolation matrices well conditioned
        n = min(n, {1: 6, 2: 8}.get(din, 9))
        pts = gen_points(rng, n, din, den=2)
    else:
        pts = gen_points(rng, n, din)
    case["X"] = [[rr(v) for v in p] for p in pts]
    case["Y"] = [[rr(v) for v in row] for row in gen_outputs(rng, pts, dout)]
    # transformers
    mode = rng.pick(["none", "default", "group", "group", "group", "variable"])
    if algo == "PCERegressor" and mode in ("group", "variable", "default"):
        mode = rng.pick(["none", "out-only"])
    if mode == "none":
        case["tr"] = {}
    elif mode == "default":
        case["tr"] = None
    elif mode == "out-only":
        case["tr"] = {"outputs": gen_tr_spec(rng, dout, n, is_input=False)}
    elif mode == "group":
        tr = {}
        if rng.chance(0.8):
            tr["inputs"] = gen_tr_spec(rng, din, n)
        if rng.chance(0.8):
            tr["outputs"] = gen_tr_spec(rng, dout, n, is_input=False)
        case["tr"] = tr
    else:
        # per-variable transformers: predictions and interpolation stay in scope, no Jacobian is offered
        tr = {}
        for name, size in [*case["in"], *case["out"]]:
            if rng.chance(0.6):
                tr[name] = rng.pick([["MinMaxScaler", {}], ["StandardScaler", {}], ["Scaler", {"offset": "1/2", "coefficient": "2"}]])
        case["tr"] = tr
    # a subset / reordering of the variables
    if rng.chance(0.2) and len(case["in"]) + len(case["out"]) > 2 and algo not in ("MOERegressor",) and mode != "variable":
        ins = [n for n, _ in case["in"]]
        outs = [n for n, _ in case["out"]]
        rng.shuffle(ins)
        rng.shuffle(outs)
        if len(ins) > 1 and rng.chance(0.5) and algo in ("LinearRegressor", "PolynomialRegressor"):
            ins = ins[:-1]
        if len(outs) > 1 and rng.chance(0.5):
            outs = outs[:-1]
        case["input_names"] = ins
        case["output_names"] = outs
        sizes = dict([*map(tuple, case["in"]), *map(tuple, case["out"])])
        d_in = sum(sizes[k] for k in ins)
        d_out = sum(sizes[k] for k in outs)
        # keep transformer specs dimension-compatible
        case["tr"] = {} if case["tr"] else case["tr"]
        if rng.chance(0.5):
            case["tr"] = {"inputs": gen_tr_spec(rng, d_in, n), "outputs": gen_tr_spec(rng, d_out, n, is_input=False)}
            if algo == "PCERegressor":
                case["tr"].pop("inputs")
    if algo == "GaussianProcessRegressor" and case["tr"]:
        # its length-scale bounds are sized before the transformers are fitted: scalers only
        for k in list(case["tr"]):
            if "PCA" in spec_names(case["tr"][k]):
                case["tr"][k] = rng.pick([["MinMaxScaler", {}], ["StandardScaler", {}]])
    if rbf_like:
        sanitize_rbf_case(rng, case, n)
    if algo in ("PCERegressor", "OTGaussianProcessRegressor") and case["tr"]:
        # the reduced dimensions of these regressors are read from the top-level transformer only
        for k in list(case["tr"]):
            guard = 0
            while nested_reduction(case["tr"][k]) and guard < 50:
                guard += 1
                dim = sum(s for _, s in case["in" if k == "inputs" else "out"])
                case["tr"][k] = gen_tr_spec(rng, dim, n, is_input=(k == "inputs"))
            if nested_reduction(case["tr"][k]):
                case["tr"].pop(k)
    # the learning set can be a subset of the samples of the dataset
    if rng.chance(0.15) and algo not in ("MOERegressor", "PCERegressor"):
        keep = sorted(rng.sample(range(n), max(4, n - rng.randint(1, 3)))) if n > 4 else list(range(n))
        if len(keep) < n:
            case["samples"] = keep
    # query points: dyadic, away from the learning points
    case["q"] = gen_queries(rng, pts, din, rng.pick([2, 3]))
    gen_history(rng, case, pts, din, len(pts))
    gen_sur(rng, case)
    return case


def gen_history(rng: common.Rng, case, pts, din: int, n: int) -> None:
    """Further trainings of the same model object (`learn` again: other samples, transformers refitted or kept)."""
    algo = case["algo"]
    if not rng.chance(0.2 if algo in SLOW or algo == "GaussianProcessRegressor" else 0.4):
        return
    subsets_ok = algo not in ("MOERegressor", "PCERegressor") and n > 4
    seen = {tuple(q) for q in case["q"]}
    hist = []
    prev = case.get("samples")
    for _ in range(rng.pick([1, 1, 2])):
        samples = None
        if subsets_ok and (prev is None or rng.chance(0.6)):
            # a subset that differs substantially from the previous learning set (down to half of the samples)
            lo = max(4, (n + 1) // 2)
            samples = sorted(rng.sample(range(n), rng.randint(lo, n - 1)))
            if samples == prev:
                samples = None
        has_tr = case.get("tr") is None or bool(case.get("tr"))
        ph = {"samples": samples, "fit_transformers": not (has_tr and rng.chance(0.3))}
        qs = []
        guard = 0
        while len(qs) < 2 and guard < 50:
            guard += 1
            for q in gen_queries(rng, pts, din, 2):
                if tuple(q) not in seen and len(qs) < 2:
                    seen.add(tuple(q))
                    qs.append(q)
        ph["q"] = qs
        hist.append(ph)
        prev = samples
    case["history"] = hist


def gen_sur(rng: common.Rng, case) -> None:
    """SurrogateDiscipline(model, input_names=..., output_names=...): the inputs of the model in another order, any
    non-empty sub-list of its outputs in any order (a sub-list of the inputs is rejected by the constructor: the
    defaults of the other inputs are not in the grammar); and the construction from the name of the regressor."""
    ins = list(case.get("input_names") or [k for k, _ in case["in"]])
    outs = list(case.get("output_names") or [k for k, _ in case["out"]])
    variants = []
    if len(ins) > 1 or len(outs) > 1:
        for _ in range(rng.pick([1, 1, 2])):
            v_in: list[str] = []
            if len(ins) > 1 and rng.chance(0.5):
                v_in = list(ins)
                rng.shuffle(v_in)
            v_out: list[str] = []
            if len(outs) > 1 and rng.chance(0.85):
                v_out = rng.sample(outs, rng.randint(1, len(outs)))
            if (v_in or v_out) and {"in": v_in, "out": v_out} not in variants:
                variants.append({"in": v_in, "out": v_out})
    if variants:
        case["sur"] = variants
    if case["algo"] in NAMED_SURROGATES and not case.get("samples") and rng.chance(0.25):
        case["sur_named"] = True


def has_reduction(spec) -> bool:
    if spec is None:
        return False
    if spec[0] == "Pipeline":
        return any(has_reduction(t) for t in spec[1])
    return spec[0] == "PCA" and bool(spec[1].get("n_components"))


def sanitize_rbf_case(rng: common.Rng, case, n: int) -> None:
    """Keep the interpolation problem of kernel models well conditioned (the fit is not modelled).

    A reduction of the inputs can merge centres; rescaled inputs change the ratio spacing/kernel width, so the
    width is left to SciPy (epsilon=None) and fixed-width callables get no input transformer.
    """
    tr = case["tr"]
    names = case.get("input_names") or [k for k, _ in case["in"]]
    sizes = dict(map(tuple, case["in"]))
    din = sum(sizes[k] for k in names)
    if tr and "inputs" in tr:
        guard = 0
        while has_reduction(tr["inputs"]) and guard < 50:
            guard += 1
            tr["inputs"] = gen_tr_spec(rng, din, n)
        if has_reduction(tr["inputs"]):
            tr.pop("inputs")
    transformed_inputs = tr is None or "inputs" in tr or any(k in sizes for k in tr)
    if transformed_inputs:
        subs = [case["opts"]] + [o for _, o in case.get("chain", [])]
        fixed_width = False
        for o in subs:
            if "epsilon" in o:
                o["epsilon"] = None
            if o.get("function") in L.CALLABLES:
                fixed_width = True
        if fixed_width:
            if tr is None:
                case["tr"] = {"outputs": ["MinMaxScaler", {}]}
            else:
                for k in [k for k in tr if k == "inputs" or k in sizes]:
                    tr.pop(k)


def gen_queries(rng: common.Rng, pts, din: int, k: int):
    qs = []
    guard = 0
    while len(qs) < k and guard < 1000:
        guard += 1
        q = tuple(dy(rng, -2, 2, 32) for _ in range(din))
        if all(sum((a - b) ** 2 for a, b in zip(q, p)) >= Fraction(1, 64) for p in pts):
            qs.append([rr(v) for v in q])
    return qs


def reg_tag(case) -> str:
    algo = case["algo"]
    o = case.get("opts", {})
    if algo == "RBFRegressor":
        return f"RBFRegressor[{o.get('function', 'multiquadric')}]"
    if algo in ("LinearRegressor", "PolynomialRegressor") and o.get("penalty_level"):
        kind = {"1": "ridge", "0": "lasso"}.get(str(o.get("l2_penalty_ratio", "1")), "elasticnet")
        return f"{algo}[{kind}]"
    if algo == "RegressorChain":
        return "RegressorChain[" + "+".join(sorted({s for s, _ in case["chain"]})) + "]"
    if algo == "MOERegressor":
        return f"MOERegressor[{case['moe']['regressor'][0]}]"
    return algo


def tr_tag(case) -> str:
    tr = case.get("tr")
    if tr is None:
        return "default"
    if not tr:
        return "none"
    parts = []
    for k in sorted(tr):
        group = k if k in ("inputs", "outputs") else "var"
        parts.append(group + ":" + "+".join(spec_names(tr[k])))
    return ",".join(parts)


def offers_derivatives(case) -> bool:
    """Does the property's quantifier ("regressors offering derivatives") cover the Jacobian of this case?"""
    algo = case["algo"]
    if algo == "RBFRegressor" or algo == "TPSRegressor":
        pass
    elif algo == "RegressorChain":
        if not all(s in ("LinearRegressor", "PolynomialRegressor", "RBFRegressor") for s, _ in case["chain"]):
            return False
    elif algo == "MOERegressor":
        if not case.get("opts", {}).get("hard"):
            return False
    elif algo not in ("LinearRegressor", "PolynomialRegressor", "PCERegressor", "OTGaussianProcessRegressor"):
        return False
    tr = case.get("tr")
    if tr is None:
        return True
    for k, s in tr.items():
        if k not in ("inputs", "outputs"):
            return False
        if not spec_offers_jacobian(s):
            return False
    return True


def interpolating(case) -> bool:
    algo = case["algo"]
    o = case.get("opts", {})
    if algo in ("RBFRegressor", "TPSRegressor"):
        if o.get("smooth") not in (None, "0"):
            return False
    elif algo in ("OTGaussianProcessRegressor", "GaussianProcessRegressor"):
        pass
    elif algo == "RegressorChain":
        # the last regressor interpolates the residuals of the previous ones
        sub, so = case["chain"][-1]
        if sub != "RBFRegressor" or so.get("smooth") not in (None, "0"):
            return False
    elif algo == "MOERegressor":
        # hard 1-nearest-neighbour classification sends a learning point to the local model trained with it
        sub, so = case["moe"]["regressor"]
        if sub != "RBFRegressor" or not o.get("hard") or int(case["moe"].get("n_neighbors", 1)) != 1:
            return False
    else:
        return False
    # lossy transformers (dimension reduction of the outputs/inputs) break interpolation legitimately
    tr = case.get("tr")
    if tr is None:
        return True
    for k, s in tr.items():
        names = spec_names(s)
        if "PCA" in names:
            return False
    return True


# --------------------------------------------------------------------------- regressor check


class Obs(dict):
    pass


def is_fit_failure(e: BaseException) -> bool:
    """Numerical failure of a third-party fit/solve on generated data (not a behaviour the property talks about)."""
    if isinstance(e, (np.linalg.LinAlgError, FloatingPointError, ZeroDivisionError)):
        return True
    text = str(e).lower()
    return isinstance(e, (ValueError, RuntimeError)) and any(
        w in text for w in ("singular", "infs or nans", "contains nan", "contains infinity", "ill-conditioned", "did not converge", "not positive definite")
    )


class Rec:
    """Picklable stand-in for `Result` in worker processes: histogram counts and notes only."""

    def __init__(self) -> None:
        self.histogram: dict[str, int] = {}
        self.notes: list[str] = []

    def count(self, key: str, n: int = 1) -> None:
        self.histogram[key] = self.histogram.get(key, 0) + n


def case_phases(case) -> list[dict[str, Any]]:
    """The trainings of the model object of a case: the first one, then the re-trainings of `history`."""
    first = {"samples": case.get("samples"), "fit_transformers": True, "q": case["q"]}
    return [first, *case.get("history", [])]


class SessRec:
    """Protocol line `sess` of a linear/polynomial regressor trained several times (public observations only)."""

    def __init__(self, case) -> None:
        self.case = case
        self.ok = case["algo"] in ("LinearRegressor", "PolynomialRegressor") and bool(case.get("history"))
        self.ops: list[str] = []
        self.expected: list[Any] = []

    def learn(self, model, fit_tr: bool, din: int) -> None:
        if not self.ok:
            return
        trs = model.transformer
        if not all(k in ("inputs", "outputs") for k in trs):
            self.ok = False
            return
        if fit_tr:
            tin, tout = C.fitted_pipe(trs.get("inputs")), C.fitted_pipe(trs.get("outputs"))
            if tin is None or tout is None:
                self.ok = False
                return
        else:
            tin = tout = "_"  # the model keeps the transformers of the previous trainings
        W = np.asarray(model.coefficients, dtype=float)
        b = np.asarray(model.intercept, dtype=float).ravel()
        if self.case["algo"] == "LinearRegressor":
            core = f"lin!{C.rmat(W)}!{C.rvec(b)}"
        else:
            k = len(np.asarray(trs["inputs"].transform(np.zeros(din))).ravel()) if "inputs" in trs else din
            pw = C.poly_powers(k, int(self.case["opts"]["degree"]))
            core = f"poly!{';'.join(','.join(str(int(v)) for v in r) for r in pw)}!{C.rmat(W)}!{C.rvec(b)}"
        self.ops.append(f"L!{int(fit_tr)}!{tin}!{tout}!{core}")
        self.expected.append(None)

    def query(self, q, p, J) -> None:
        if self.ok:
            self.ops.append(f"Q!{C.rvec(q)}")
            self.expected.append((np.asarray(p, dtype=float), None if J is None else np.asarray(J, dtype=float)))

    def flush(self, corr, din: int, dout: int) -> None:
        if self.ok and sum(e is None for e in self.expected) >= 2 and any(e is not None for e in self.expected):
            corr.add(
                f"sess d={din} dout={dout} ops={'|'.join(self.ops)}",
                ("sess", self.expected, C.TWO30),
                {"stream": "regressor", "case": self.case, "what": "retrained-" + reg_tag(self.case)},
            )


def check_reg(case: dict[str, Any], res: Result | Rec | None = None, deep: bool = True, corr: C.Corr | None = None) -> list[tuple[str, str]]:
    """Run the real code on the case and return the violated clauses [(key, message)].

    The model object of the case is trained, observed, then trained again and observed again for every phase of
    `case["history"]` (other samples, transformers refitted or kept): every clause of the property must hold for
    the prediction function *in force*, whatever was computed before.
    """
    bad: list[tuple[str, str]] = []
    tag = reg_tag(case)

    def count(k):
        if res is not None:
            res.count(k)

    try:
        model = L.build_model(case)
    except Exception as e:  # noqa: BLE001
        if is_fit_failure(e):
            # an ill-posed fit (singular interpolation matrix, SVD that does not converge, ...): the fitting procedures
            # are outside the property and outside the model; skipped and counted, never a verdict
            count(f"fit-failed-skipped:{case['algo']}")
            return []
        if case["algo"] in OT_ALGOS:
            # the OpenTURNS-based fits are not modelled (dimension bookkeeping of reduced inputs, optimiser failures)
            count("ot-fit-failed-skipped")
            return []
        return [(f"crash-learn:{tag}:{type(e).__name__}", f"creating/training the model raised {type(e).__name__}: {str(e)[:200]}")]
    sess = SessRec(case) if corr is not None else None
    kept: list[Any] = []  # surrogate disciplines created after earlier trainings, observed again after each new one
    dims = (0, 0)
    for pi, ph in enumerate(case_phases(case)):
        fit_tr = bool(ph.get("fit_transformers", True))
        if pi > 0:
            count("history:retrain" + ("" if ph.get("samples") is None else "-subset") + ("" if fit_tr else "-keep-transformers"))
            try:
                L.relearn(model, ph)
                for item in kept:
                    if item["own_model"]:
                        L.relearn(item["disc"].regression_model, ph)
            except Exception as e:  # noqa: BLE001
                if is_fit_failure(e):
                    count(f"fit-failed-skipped:{case['algo']}")
                elif case["algo"] in OT_ALGOS:
                    count("ot-fit-failed-skipped")
                else:
                    bad.append((f"retrained/crash-learn:{tag}:{type(e).__name__}", f"training #{pi + 1} of the same model object raised {type(e).__name__}: {str(e)[:200]}"))
                break
        pbad, dims = observe_reg(case, model, ph, pi, count, res, deep, corr, sess, kept, fit_tr)
        if pi == 0:
            bad += pbad
        else:
            bad += [("retrained/" + k, f"[after training #{pi + 1} of the same model object] {m}") for k, m in pbad]
    if sess is not None and corr is not None and not bad:
        try:
            sess.flush(corr, *dims)
        except Exception as e:  # noqa: BLE001
            if res is not None:
                res.notes.append(f"could not build the session line of a regressor case: {e!r}")
    return bad


def observe_reg(case, model, ph, pi: int, count, res, deep: bool, corr, sess, kept, fit_tr: bool):
    """All the observations of one trained state of the model object; returns (violated clauses, (din, dout))."""
    bad: list[tuple[str, str]] = []
    tag = reg_tag(case)
    icols, ocols, sizes = L.model_layout(case, model)
    X, Y = L.arr(case["X"]), L.arr(case["Y"])
    if ph.get("samples") is not None:
        X, Y = X[[int(i) for i in ph["samples"]]], Y[[int(i) for i in ph["samples"]]]
    Xm, Ym = X[:, icols], Y[:, ocols]
    Q = L.arr(ph["q"])[:, icols] if ph["q"] else np.zeros((0, len(icols)))
    din, dout = len(icols), len(ocols)
    dims = (din, dout)
    if sess is not None:
        try:
            sess.learn(model, fit_tr, din)
        except Exception:  # noqa: BLE001
            sess.ok = False
    expect_jac = offers_derivatives(case)
    # ---- predictions: array / batch / dict
    try:
        P1 = [np.asarray(model.predict(q), dtype=float) for q in Q]
        PB = np.asarray(model.predict(Q), dtype=float) if len(Q) else np.zeros((0, dout))
    except Exception as e:  # noqa: BLE001
        return [(f"crash-predict:{tag}:{type(e).__name__}", f"predict raised {type(e).__name__}: {str(e)[:200]}")], dims
    for k, p in enumerate(P1):
        if p.shape != (dout,) or not L.finite(p):
            bad.append((f"predict-shape:{tag}", f"predict of a 1-D input returned shape {p.shape} (expected ({dout},)) or a non-finite value"))
            return bad, dims
    if PB.shape != (len(Q), dout):
        bad.append((f"predict-shape:{tag}", f"predict of a ({len(Q)},{din}) array returned shape {PB.shape}"))
        return bad, dims
    # rounding-noise amplification of the model itself: an ill-conditioned fit (not modelled) is skipped
    noise = Fraction(0)
    for q, p in zip(Q, P1):
        try:
            p2 = np.asarray(model.predict(q * (1.0 + 2.0**-46) + 2.0**-50), dtype=float)
            dnoise = L.max_abs_diff(p2, p)
            noise = max(noise, dnoise if dnoise is not None else Fraction(1))
        except Exception:  # noqa: BLE001
            noise = Fraction(1)
    big = L.max_abs(np.concatenate(P1)) if P1 else Fraction(0)
    if not (noise <= Fraction(1, 2**34) * max(Fraction(1), L.max_abs(Ym)) and big <= 2**16 * max(Fraction(1), L.max_abs(Ym))):
        count("ill-conditioned-skipped")
        if sess is not None:
            sess.ok = False
        return bad, dims
    for k, p in enumerate(P1):
        if not L.within(PB[k], p, L.TWO20):
            bad.append((f"predict-batch:{tag}", f"row {k} of the batch prediction differs from the prediction of the same point alone: {PB[k]} vs {p}"))
            break
    try:
        for k, q in enumerate(Q[:1]):
            pd = model.predict(L.to_dict(q, model.input_names, sizes))
            asm = np.concatenate([np.asarray(pd[o], dtype=float) for o in model.output_names])
            if not L.within(asm, P1[k], L.TWO40):
                bad.append((f"predict-dict:{tag}", f"dictionary prediction {asm} differs from the array prediction {P1[k]}"))
        if len(Q) >= 2:
            pdb = model.predict(L.to_dict(Q, model.input_names, sizes))
            asm = np.concatenate([np.asarray(pdb[o], dtype=float).reshape(len(Q), sizes[o]) for o in model.output_names], axis=1)
            if not L.within(asm, PB, L.TWO40):
                bad.append((f"predict-dict:{tag}", "dictionary prediction of several points differs from the array prediction"))
    except Exception as e:  # noqa: BLE001
        bad.append((f"crash-predict-dict:{tag}:{type(e).__name__}", f"predict with a dictionary raised {type(e).__name__}: {str(e)[:200]}"))
    # ---- interpolation of the learning data
    if interpolating(case):
        count("interpolation-checked")
        try:
            PL = np.asarray(model.predict(Xm), dtype=float)
            if not L.within(PL, Ym, L.TWO20):
                d = L.max_abs_diff(PL, Ym)
                bad.append((f"interpolation:{tag}", f"the model does not reproduce its learning data: max residual {float(d) if d is not None else 'nan/shape'}"))
        except Exception as e:  # noqa: BLE001
            bad.append((f"crash-predict:{tag}:{type(e).__name__}", f"predict on the learning inputs raised {type(e).__name__}: {str(e)[:200]}"))
    # the learning data held by the model must still be the data it was given
    try:
        if not (L.within(model.input_data, Xm, L.TWO40) and L.within(model.output_data, Ym, L.TWO40)):
            bad.append((f"learning-data-modified:{tag}", "the learning data held by the model differ from the data it was trained on (modified in place by the training)"))
    except Exception as e:  # noqa: BLE001
        bad.append((f"crash-data:{tag}:{type(e).__name__}", f"input_data/output_data raised {type(e).__name__}"))
    # ---- Jacobians
    J1 = None
    try:
        J1 = [np.asarray(model.predict_jacobian(q), dtype=float) for q in Q]
    except NotImplementedError:
        count("jacobian-not-offered")
        if expect_jac:
            bad.append((f"jacobian-missing:{tag}:{tr_tag(case)}", "predict_jacobian raised NotImplementedError for a model/transformer combination that offers derivatives"))
    except Exception as e:  # noqa: BLE001
        bad.append((f"crash-jacobian:{tag}:{type(e).__name__}", f"predict_jacobian raised {type(e).__name__}: {str(e)[:200]}"))
    if J1 is not None:
        count("jacobian-offered")
        shape_ok = True
        for k, J in enumerate(J1):
            if J.shape != (dout, din):
                bad.append((f"jacobian-shape:{tag}", f"predict_jacobian of a 1-D input returned shape {J.shape}, expected ({dout},{din})"))
                shape_ok = False
                break
        if shape_ok:
            for k, (q, J) in enumerate(zip(Q, J1)):
                if case["algo"] == "MOERegressor" and not moe_stencil_in_one_cluster(model, q):
                    # a hard mixture of experts is not differentiable across a cluster boundary
                    count("moe-boundary-skipped")
                    continue
                try:
                    ref, dis = L.fd_reference(model.predict, q)
                except Exception:  # noqa: BLE001  (predict at a stencil point failed: no reference, no verdict)
                    count("fd-failed-skipped")
                    continue
                if not L.finite(ref):
                    count("fd-nonfinite")
                    continue
                scale = max(Fraction(1), L.max_abs(ref))
                if not (F(dis) <= L.TWO24 * scale):
                    count("fd-unreliable-skipped")
                    continue
                count("jacobian-vs-fd" if pi == 0 else "jacobian-vs-fd-after-retraining")
                d = L.max_abs_diff(J, ref)
                bound = OT_BOUND if case["algo"] in OT_ALGOS else L.TWO20
                if not (d is not None and d <= bound * scale):
                    bad.append(
                        (
                            f"jacobian:{tag}",
                            f"predict_jacobian differs from the derivative of predict at x={q.tolist()}: "
                            f"max |J - D| = {float(d) if d is not None else 'nan'} (bound {float(bound):.3g}*{float(scale):.3g}); J={J.tolist()} D={ref.tolist()}",
                        )
                    )
                    break
            try:
                JB = np.asarray(model.predict_jacobian(Q), dtype=float)
                if JB.shape != (len(Q), dout, din):
                    bad.append((f"jacobian-shape:{tag}", f"predict_jacobian of a ({len(Q)},{din}) array returned shape {JB.shape}"))
                else:
                    for k, J in enumerate(J1):
                        if not L.within(JB[k], J, L.TWO20):
                            bad.append((f"jacobian-batch:{tag}", f"row {k} of the batch Jacobian differs from the Jacobian of the same point alone"))
                            break
            except Exception as e:  # noqa: BLE001
                bad.append((f"crash-jacobian:{tag}:{type(e).__name__}", f"predict_jacobian of several points raised {type(e).__name__}: {str(e)[:200]}"))
    # dictionary Jacobian (also exercised when the array Jacobian has a wrong shape)
    Jd = None
    if J1 is not None or expect_jac:
        try:
            q = Q[0]
            Jd = model.predict_jacobian(L.to_dict(q, model.input_names, sizes))
            if J1 is not None and J1[0].shape == (dout, din):
                blocks = [[np.asarray(Jd[o][i], dtype=float).reshape(sizes[o], sizes[i]) for i in model.input_names] for o in model.output_names]
                asm = np.block(blocks)
                if not L.within(asm, J1[0], L.TWO40):
                    bad.append((f"jacobian-dict:{tag}", "the dictionary Jacobian blocks differ from the array Jacobian"))
            if J1 is not None and len(Q) >= 2 and all(J.shape == (dout, din) for J in J1):
                Jdb = model.predict_jacobian(L.to_dict(Q, model.input_names, sizes))
                for k in range(len(Q)):
                    blocks = [[np.asarray(Jdb[o][i], dtype=float)[k].reshape(sizes[o], sizes[i]) for i in model.input_names] for o in model.output_names]
                    if not L.within(np.block(blocks), J1[k], L.TWO20):
                        bad.append((f"jacobian-dict:{tag}", f"the dictionary Jacobian of several points differs from the array Jacobian at point {k}"))
                        break
        except NotImplementedError:
            pass
        except Exception as e:  # noqa: BLE001
            bad.append((f"crash-jacobian-dict:{tag}:{type(e).__name__}", f"predict_jacobian with a dictionary raised {type(e).__name__}: {str(e)[:200]}"))
    # ---- correspondence with the Lean model (chain rule of the wrapper, linear/polynomial/RBF cores, name splitting)
    jac_ok = J1 is not None and all(J.shape == (dout, din) for J in J1)
    if sess is not None:
        for k, q in enumerate(Q[:2]):
            sess.query(q, P1[k], J1[k] if jac_ok else None)
    if corr is not None and not bad and len(Q):
        try:
            add_reg_lines(corr, case, model, Q, P1, J1, Jd, sizes, dout, din)
        except Exception as e:  # noqa: BLE001
            if res is not None:
                res.notes.append(f"could not build the protocol line of a regressor case: {e!r}")
    # ---- surrogate discipline
    if deep:
        bad += check_surrogate(case, model, Q, sizes, tag, J1 is not None, count, kept, pi, corr if not bad else None)
    return bad, dims


def add_reg_lines(corr: C.Corr, case, model, Q, P1, J1, Jd, sizes, dout: int, din: int) -> None:
    algo = case["algo"]
    ctx = {"stream": "regressor", "case": case, "what": reg_tag(case)}
    jac_ok = J1 is not None and all(J.shape == (dout, din) for J in J1)
    if algo in ("LinearRegressor", "PolynomialRegressor"):
        trs = model.transformer
        if all(k in ("inputs", "outputs") for k in trs):
            tin, tout = C.fitted_pipe(trs.get("inputs")), C.fitted_pipe(trs.get("outputs"))
            if tin is not None and tout is not None:
                W = np.asarray(model.coefficients, dtype=float)
                b = np.asarray(model.intercept, dtype=float).ravel()
                for k, q in enumerate(Q[:2]):
                    z = trs["inputs"].transform(q) if "inputs" in trs else q
                    if algo == "LinearRegressor":
                        line = f"lin tin={tin} tout={tout} W={C.rmat(W)} b={C.rvec(b)} x={C.rvec(q)}"
                    else:
                        pw = C.poly_powers(len(z), int(case["opts"]["degree"]))
                        line = f"poly tin={tin} tout={tout} P={';'.join(','.join(str(int(v)) for v in r) for r in pw)} C={C.rmat(W)} b={C.rvec(b)} x={C.rvec(q)}"
                    corr.add(line, ("reg", P1[k], J1[k] if jac_ok else None, C.TWO30), ctx)
    if algo == "RBFRegressor" and case.get("tr") == {} and case["opts"].get("function") in L.KERNELS:
        from gemseo.mlearning.regression.algos.rbf import RBFRegressor

        rbf = model.algo
        nodes = np.asarray(rbf.nodes, dtype=float).reshape(rbf.xi.shape[1], -1)
        avg = np.broadcast_to(np.asarray(model.y_average, dtype=float), (dout,))
        scale = max(Fraction(1), L.max_abs(nodes) * len(nodes))
        for k, q in enumerate(Q[:2]):
            line = (
                f"rbf k={model.function} eps={C.bits(rbf.epsilon)} tol={C.bits(RBFRegressor.RBFDerivatives.TOL)} "
                f"C={C.bmat(rbf.xi.T)} W={C.bmat(nodes)} avg={C.bvec(avg)} x={C.bvec(q)}"
            )
            corr.add(line, ("rbf", P1[k], J1[k] if jac_ok else None, C.TWO30, scale), ctx)
    if Jd is not None and jac_ok:
        outs, ins = list(model.output_names), list(model.input_names)
        line = f"split out={','.join(str(sizes[o]) for o in outs)} in={','.join(str(sizes[i]) for i in ins)} J={C.rmat(J1[0])}"
        jd = {o: {i: np.asarray(Jd[o][i], dtype=float) for i in ins} for o in outs}
        corr.add(line, ("split", jd, outs, ins, sizes), ctx)


def moe_stencil_in_one_cluster(model, q, h: float = 2.0**-6) -> bool:
    """Guard only (can never raise a violation): all points of the difference stencil get the same label."""
    try:
        pts = [q]
        for j in range(len(q)):
            for sgn in (-1.0, 1.0):
                p = q.copy()
                p[j] += sgn * h
                pts.append(p)
        pts = np.stack(pts)
        tr = model.transformer.get("inputs")
        if tr is not None:
            pts = tr.transform(pts)
        labels = np.asarray(model.classifier.predict(pts)).ravel()
        return bool(np.all(labels == labels[0]))
    except Exception:  # noqa: BLE001
        return False


# --------------------------------------------------------------------------- surrogate discipline

NAMED_SURROGATES = ("LinearRegressor", "PolynomialRegressor", "RBFRegressor", "TPSRegressor")


def sur_label(v) -> str:
    if v.get("named"):
        return "from-name"
    ins, outs = v.get("in") or [], v.get("out") or []
    return "default" if not ins and not outs else ("names:" + ("in-reordered" if ins else "in-default") + "+" + ("out-selected" if outs else "out-default"))


def build_surrogate(case, model, v):
    """The public ways of creating a surrogate discipline: from a trained regressor (with or without name lists)
    or from the name of the regressor with the learning dataset, the transformers and the settings."""
    from gemseo.disciplines.surrogate import SurrogateDiscipline

    kw: dict[str, Any] = {}
    if v.get("in"):
        kw["input_names"] = list(v["in"])
    if v.get("out"):
        kw["output_names"] = list(v["out"])
    if not v.get("named"):
        return SurrogateDiscipline(model, **kw)
    kw.update(L._opts(case.get("opts", {})))
    tr = case.get("tr")
    if tr is not None:
        kw["transformer"] = {k: L.build_transformer(s) for k, s in tr.items()}
    return SurrogateDiscipline(case["algo"], data=L.build_dataset(case), **kw)


def check_surrogate(case, model, Q, sizes, tag, has_jac, count, kept=None, pi: int = 0, corr=None) -> list[tuple[str, str]]:
    """`execute`/`linearize` of surrogate disciplines vs the predictions/Jacobians of their regression model.

    Disciplines: a new one for the current state of the model and for every name-list variant of the case, plus the
    disciplines created after the earlier trainings of the same model object (they must follow the model).
    """
    bad: list[tuple[str, str]] = []
    kept = kept if kept is not None else []
    items = list(kept)
    variants = [{"in": [], "out": []}, *case.get("sur", [])]
    if case.get("sur_named") and pi == 0 and case["algo"] in NAMED_SURROGATES and not case.get("samples"):
        v = {"named": True, "in": case.get("input_names") or [], "out": case.get("output_names") or []}
        variants.append(v)
    for v in variants:
        label = sur_label(v)
        try:
            disc = build_surrogate(case, model, v)
        except Exception as e:  # noqa: BLE001
            if v.get("named") and is_fit_failure(e):
                count(f"fit-failed-skipped:{case['algo']}")
                continue
            bad.append((f"crash-surrogate:{tag}:{type(e).__name__}", f"SurrogateDiscipline ({label}) raised {type(e).__name__}: {str(e)[:200]}"))
            continue
        count("surrogate:" + label)
        auto = disc.linearization_mode == disc.LinearizationMode.AUTO
        if auto != has_jac:
            bad.append((f"surrogate-mode:{tag}", f"linearization mode {disc.linearization_mode} although the model {'offers' if has_jac else 'does not offer'} a Jacobian"))
        item = {"disc": disc, "v": v, "own_model": bool(v.get("named")), "born": pi}
        items.append(item)
        if pi == 0 and case.get("history"):
            kept.append(item)
    for item in items:
        disc, v = item["disc"], item["v"]
        ref = disc.regression_model
        label = sur_label(v) + ("" if item["born"] == pi else "-created-before-retraining")
        if item["born"] != pi:
            count("surrogate-kept-after-retraining")
        sub = observe_surrogate(
            disc, ref, v, Q, sizes, tag, has_jac, count, label, corr, case,
            fd=item["own_model"] or item["born"] != pi,
            defaults=item["born"] == pi and not v.get("in"),  # (a discipline executed before keeps its cached outputs)
        )
        bad += sub
        if sub:
            break
    return bad


def observe_surrogate(disc, ref, v, Q, sizes, tag, has_jac, count, label, corr, case, fd: bool, defaults: bool = False) -> list[tuple[str, str]]:
    bad: list[tuple[str, str]] = []
    m_in, m_out = list(ref.input_names), list(ref.output_names)
    ins = list(v.get("in") or m_in)
    outs = list(v.get("out") or m_out)
    off_o, off_i, k = {}, {}, 0
    for n in m_out:
        off_o[n] = k
        k += sizes[n]
    k = 0
    for n in m_in:
        off_i[n] = k
        k += sizes[n]
    auto = disc.linearization_mode == disc.LinearizationMode.AUTO
    try:
        if set(disc.io.input_grammar.names) != set(ins) or set(disc.io.output_grammar.names) != set(outs):
            bad.append((f"surrogate-names:{tag}", f"SurrogateDiscipline ({label}) has inputs {list(disc.io.input_grammar.names)} / outputs {list(disc.io.output_grammar.names)}, requested {ins} / {outs}"))
            return bad
        for kq, q in enumerate(Q[:2]):
            xm = L.to_dict(q, m_in, sizes)
            xd = {n: xm[n].copy() for n in ins}  # in the order of the requested names
            pd = ref.predict({n: a.copy() for n, a in xm.items()})
            parr = np.asarray(ref.predict(q.copy()), dtype=float)
            out = disc.execute(xd)
            count("surrogate-execute")
            for o in outs:
                a = np.asarray(out[o], dtype=float)
                b = np.asarray(pd[o], dtype=float).flatten()
                w = parr[off_o[o] : off_o[o] + sizes[o]]
                if a.shape != b.shape or not L.finite(a) or not np.array_equal(a, b) or not L.within(a, w, L.TWO40):
                    bad.append((f"surrogate-execute:{tag}", f"SurrogateDiscipline ({label}; outputs {outs}) .execute returned {o}={a.tolist()} at {xm}; the model predicts {o}={b.tolist()} (array prediction {parr.tolist()}, model outputs {m_out})"))
                    return bad
            jac = None
            if has_jac and auto:
                Jd = ref.predict_jacobian({n: a.copy() for n, a in xm.items()})
                Jarr = np.asarray(ref.predict_jacobian(q.copy()), dtype=float)
                # all the Jacobians for the first point, the default (differentiated inputs/outputs of the constructor) for the next
                jac = disc.linearize(xd, compute_all_jacobians=True) if kq == 0 else disc.linearize(xd)
                count("surrogate-linearize")
                for o in outs:
                    for i in ins:
                        a = np.asarray(jac[o][i], dtype=float)
                        b = np.asarray(Jd[o][i], dtype=float)
                        w = Jarr[off_o[o] : off_o[o] + sizes[o], off_i[i] : off_i[i] + sizes[i]]
                        if a.shape != (sizes[o], sizes[i]) or not L.finite(a) or not np.array_equal(a, b.reshape(a.shape) if b.size == a.size else b) or not L.within(a, w, L.TWO40):
                            bad.append((f"surrogate-linearize:{tag}", f"SurrogateDiscipline ({label}) .linearize d{o}/d{i}={a.tolist()} is not the model Jacobian {b.tolist()}"))
                            return bad
                if fd and not (case["algo"] == "MOERegressor" and not moe_stencil_in_one_cluster(ref, q)):
                    # the Jacobian of the discipline is the derivative of the prediction function now in force
                    try:
                        dref, dis = L.fd_reference(ref.predict, q)
                    except Exception:  # noqa: BLE001
                        dref, dis = None, None
                    if dref is not None and L.finite(dref) and F(dis) <= L.TWO24 * max(Fraction(1), L.max_abs(dref)):
                        count("surrogate-jacobian-vs-fd")
                        asm = np.block([[np.asarray(jac[o][i], dtype=float).reshape(sizes[o], sizes[i]) for i in m_in] for o in outs])
                        rows = [c for o in outs for c in range(off_o[o], off_o[o] + sizes[o])]
                        bound = OT_BOUND if case["algo"] in OT_ALGOS else L.TWO20
                        if not L.within(asm, dref[rows], bound):
                            bad.append((f"surrogate-jacobian:{tag}", f"SurrogateDiscipline ({label}) .linearize is not the derivative of the predictions of its regression model at {q.tolist()}: {asm.tolist()} vs {dref[rows].tolist()}"))
                            return bad
            if corr is not None and kq == 0 and (v.get("in") or v.get("out") or "retraining" in label):
                # (the default discipline is covered by the `split` line of the model)
                line = (
                    f"sur out={','.join(str(sizes[o]) for o in m_out)} in={','.join(str(sizes[i]) for i in m_in)} "
                    f"so={','.join(str(m_out.index(o)) for o in outs)} si={','.join(str(m_in.index(i)) for i in ins)} "
                    f"p={C.rvec(parr)} J={C.rmat(Jarr) if jac is not None else '_'}"
                )
                ys = [np.asarray(out[o], dtype=float) for o in outs]
                blocks = None if jac is None else {(n, m): np.asarray(jac[o][i], dtype=float) for n, o in enumerate(outs) for m, i in enumerate(ins)}
                corr.add(line, ("sur", ys, blocks, C.TWO40), {"stream": "regressor", "case": case, "what": "surrogate-" + label, "deep": True})
        if defaults:
            # execute() without input data: the prediction of the model at the default inputs of the discipline
            centre = {n: np.asarray(disc.io.input_grammar.defaults[n], dtype=float).copy() for n in m_in}
            out = disc.execute()
            pd = ref.predict(centre)
            count("surrogate-execute-defaults")
            for o in outs:
                a, b = np.asarray(out[o], dtype=float), np.asarray(pd[o], dtype=float).flatten()
                if a.shape != b.shape or not L.finite(a) or not np.array_equal(a, b):
                    bad.append((f"surrogate-execute:{tag}", f"SurrogateDiscipline ({label}) .execute() with its default inputs {centre} returned {o}={a.tolist()}, the model predicts {b.tolist()} there"))
                    return bad
    except Exception as e:  # noqa: BLE001
        bad.append((f"crash-surrogate:{tag}:{type(e).__name__}", f"SurrogateDiscipline ({label}) execute/linearize raised {type(e).__name__}: {str(e)[:200]}"))
    return bad


# --------------------------------------------------------------------------- shrinking of regressor cases


def reg_candidates(case):
    """Simpler variants of a case (each is a valid in-scope case)."""
    # fewer trainings / fewer surrogate disciplines first
    hist = case.get("history") or []
    if hist:
        c2 = copy.deepcopy(case)
        c2.pop("history")
        yield c2
        for j in range(len(hist)):
            if len(hist) > 1:
                c2 = copy.deepcopy(case)
                c2["history"] = hist[:j] + hist[j + 1 :]
                yield c2
            if hist[j].get("samples") is not None or not hist[j].get("fit_transformers", True):
                c2 = copy.deepcopy(case)
                c2["history"][j]["samples"] = None
                c2["history"][j]["fit_transformers"] = True
                yield c2
    if case.get("sur_named"):
        c2 = copy.deepcopy(case)
        c2.pop("sur_named")
        yield c2
    sur = case.get("sur") or []
    if sur:
        c2 = copy.deepcopy(case)
        c2.pop("sur")
        yield c2
        for j in range(len(sur)):
            if len(sur) > 1:
                c2 = copy.deepcopy(case)
                c2["sur"] = [sur[j]]
                yield c2
            if sur[j].get("in"):
                c2 = copy.deepcopy(case)
                c2["sur"] = [{"in": [], "out": sur[j]["out"]}]
                yield c2
    if case.get("samples"):
        c2 = copy.deepcopy(case)
        c2.pop("samples")
        yield c2
    if case.get("tr") != {}:
        c2 = copy.deepcopy(case)
        c2["tr"] = {}
        yield c2
        tr = case.get("tr") or {}
        for k in tr:
            c3 = copy.deepcopy(case)
            c3["tr"] = {kk: v for kk, v in tr.items() if kk != k}
            yield c3
            if tr[k][0] == "Pipeline" and len(tr[k][1]) >= 1:
                for j in range(len(tr[k][1])):
                    c4 = copy.deepcopy(case)
                    c4["tr"][k] = ["Pipeline", tr[k][1][:j] + tr[k][1][j + 1 :]]
                    yield c4
                if len(tr[k][1]) == 1:
                    c4 = copy.deepcopy(case)
                    c4["tr"][k] = tr[k][1][0]
                    yield c4
    if case.get("input_names") or case.get("output_names"):
        c2 = copy.deepcopy(case)
        c2.pop("input_names", None)
        c2.pop("output_names", None)
        yield c2
    if len(case["q"]) > 1:
        for j in range(len(case["q"])):
            c2 = copy.deepcopy(case)
            c2["q"] = [case["q"][j]]
            yield c2
    # fewer outputs
    dout = sum(s for _, s in case["out"])
    if dout > 1 and not case.get("output_names") and not sur:
        for j in range(dout):
            c2 = copy.deepcopy(case)
            c2["out"] = [["y", 1]]
            c2["Y"] = [[row[j]] for row in case["Y"]]
            if case.get("tr") and "outputs" in case["tr"] and "PCA" in spec_names(case["tr"]["outputs"]):
                continue
            c2["tr"] = None if case.get("tr") is None else {k: v for k, v in case["tr"].items() if k in ("inputs", "outputs")}
            yield c2
    # fewer learning points
    n = len(case["X"])
    if n > (8 if case["algo"] in ("MOERegressor", "PCERegressor") else 4) and not case.get("samples") and not any(h.get("samples") is not None for h in hist):
        for j in range(n):
            c2 = copy.deepcopy(case)
            c2["X"] = case["X"][:j] + case["X"][j + 1 :]
            c2["Y"] = case["Y"][:j] + case["Y"][j + 1 :]
            yield c2
    # merge variables
    if len(case["in"]) > 1 and not case.get("input_names") and not sur and all(k in ("inputs", "outputs") for k in (case.get("tr") or {})):
        c2 = copy.deepcopy(case)
        c2["in"] = [["a", sum(s for _, s in case["in"])]]
        yield c2
    if len(case["out"]) > 1 and not case.get("output_names") and not sur and all(k in ("inputs", "outputs") for k in (case.get("tr") or {})):
        c2 = copy.deepcopy(case)
        c2["out"] = [["y", sum(s for _, s in case["out"])]]
        yield c2
    o = case.get("opts", {})
    for k in ("epsilon", "smooth", "penalty_level"):
        if o.get(k) is not None and k != "epsilon":
            c2 = copy.deepcopy(case)
            c2["opts"].pop(k)
            c2["opts"].pop("l2_penalty_ratio", None)
            yield c2
    if case["algo"] == "RegressorChain" and len(case["chain"]) > 1:
        for j in range(len(case["chain"])):
            c2 = copy.deepcopy(case)
            c2["chain"] = case["chain"][:j] + case["chain"][j + 1 :]
            yield c2


def shrink_reg(case, key: str, budget: int = 60):
    cur = case
    calls = 0
    progress = True
    while progress and calls < budget:
        progress = False
        for cand in reg_candidates(cur):
            calls += 1
            if calls > budget:
                break
            try:
                if any(k == key for k, _ in check_reg(cand, None, deep="surrogate" in key)):
                    cur = cand
                    progress = True
                    break
            except Exception:  # noqa: BLE001
                continue
    return cur


# --------------------------------------------------------------------------- transformer stream


def gen_tr_case(rng: common.Rng) -> dict[str, Any]:
    d = rng.pick([1, 2, 2, 3, 4])
    n = rng.randint(4, 9)
    kind = rng.pick(["jac", "jac", "jac", "power", "klsvd", "pls", "pipe-mixed"])
    if kind in ("power", "pipe-mixed"):
        n = rng.randint(7, 10)
    positive = kind in ("power", "pipe-mixed") and rng.chance(0.6)
    pts = gen_points(rng, n, d, positive=positive)
    X = [list(p) for p in pts]
    const = None
    if rng.chance(0.3) and kind == "jac":
        # a constant feature (zero or non-zero): the documented special branches of the scalers
        j = rng.randrange(d)
        const = rng.pick([Fraction(0), Fraction(3, 2), Fraction(-2), Fraction(1, 4)])
        for row in X:
            row[j] = const
    case: dict[str, Any] = {"kind": kind}
    if kind == "jac":
        spec = gen_tr_spec(rng, d, n)
        if const is not None and "PCA" in spec_names(spec) and d == 1:
            spec = ["MinMaxScaler", {}]
    elif kind == "power":
        spec = [rng.pick(["YeoJohnson", "BoxCox"] if positive else ["YeoJohnson"]), {"standardize": rng.chance(0.5)}]
    elif kind == "klsvd":
        d = max(d, 2)
        pts = gen_points(rng, max(n, d + 1), d)
        X = [list(p) for p in pts]
        spec = ["KLSVD", {"dim": d}]
    elif kind == "pls":
        d = max(d, 2)
        pts = gen_points(rng, max(n, d + 2), d)
        X = [list(p) for p in pts]
        spec = ["PLS", {"n_components": d}]
        case["Y2"] = [[rr(v) for v in row] for row in gen_outputs(rng, pts, d, kind="mix")]
    else:
        first = rng.pick([["Scaler", {"offset": rr(dy(rng, 3, 5, 2)), "coefficient": rr(rng.pick([Fraction(1, 2), Fraction(2)]))}], ["MinMaxScaler", {}], ["StandardScaler", {}]])
        if first[0] != "Scaler" or not positive:
            second = ["YeoJohnson", {"standardize": rng.chance(0.5)}]
        else:
            second = [rng.pick(["YeoJohnson", "BoxCox"]), {"standardize": rng.chance(0.5)}]
        spec = ["Pipeline", [first, second] if rng.chance(0.7) else [second, first]]
    case["spec"] = spec
    case["X"] = [[rr(v) for v in row] for row in X]
    q = []
    for _ in range(2):
        p = [dy(rng, 1 if positive else -2, 3 if positive else 2, 16) for _ in range(len(X[0]))]
        if positive:
            p = [max(v, Fraction(1, 16)) for v in p]
        if const is not None:
            pass  # the query may leave the constant value: the maps are affine everywhere
        q.append([rr(v) for v in p])
    case["q"] = q
    return case


def tr_tag_of(spec) -> str:
    return "+".join(spec_names(spec))


def fit_sequentially(spec, X, Y2=None):
    """Reference semantics of a pipeline: each step is fitted on the data transformed by the previous ones."""
    steps = spec[1]
    ts = []
    data = X.copy()
    for s in steps:
        t = L.build_transformer(s)
        if s[0] == "Pipeline":
            t, data = fit_sequentially(s, data)
            ts.append(t)
            continue
        data = t.fit_transform(data.copy())
        ts.append(t)

    class Seq:
        def transform(self, x):
            for t in ts:
                x = t.transform(x)
            return x

    return Seq(), data


def check_tr(case: dict[str, Any], res: Result | None = None, corr: C.Corr | None = None) -> list[tuple[str, str]]:
    bad: list[tuple[str, str]] = []
    spec = case["spec"]
    tag = tr_tag_of(spec)
    X = L.arr(case["X"])
    d = X.shape[1]

    def count(k):
        if res is not None:
            res.count(k)

    try:
        t = L.build_transformer(spec)
        if "Y2" in case:
            t.fit(X.copy(), L.arr(case["Y2"]))
        else:
            t.fit(X.copy())
        Z = np.asarray(t.transform(X.copy()), dtype=float)
    except Exception as e:  # noqa: BLE001
        if is_fit_failure(e):
            count(f"fit-failed-skipped:{tag}")
            return []
        return [(f"crash-transformer:{tag}:{type(e).__name__}", f"fit/transform raised {type(e).__name__}: {str(e)[:200]}")]
    if Z.ndim != 2 or Z.shape[0] != X.shape[0] or not L.finite(Z):
        return [(f"transform-shape:{tag}", f"transform of the fitting data returned shape {Z.shape} or a non-finite value")]
    dz = Z.shape[1]
    pts = [*X[:2], *L.arr(case["q"])]
    lossless = spec_lossless(spec, d)
    has_jac = spec_offers_jacobian(spec)
    # pipeline: fitted step by step
    if spec[0] == "Pipeline" and "Y2" not in case:
        try:
            seq, Zs = fit_sequentially(spec, X.copy())
            count("pipeline-sequential-fit")
            if not L.within(Z, Zs, L.TWO30):
                bad.append(("pipeline-fit", f"the fitted pipeline {tag} does not transform the fitting data like its steps fitted one after the other (each on the output of the previous one)"))
        except Exception as e:  # noqa: BLE001
            res and res.notes.append(f"sequential reference fit failed for {tag}: {e!r}")
    for x in pts:
        try:
            z = np.asarray(t.transform(x.copy()), dtype=float)
            z2 = np.asarray(t.transform(x[None].copy()), dtype=float)
        except Exception as e:  # noqa: BLE001
            bad.append((f"crash-transformer:{tag}:{type(e).__name__}", f"transform raised {type(e).__name__}: {str(e)[:200]}"))
            break
        if z.shape != (dz,) or z2.shape != (1, dz) or not L.within(z2[0], z, L.TWO40):
            bad.append((f"transform-1d-2d:{tag}", f"transform of a 1-D point {z.shape} and of the same point as a 1-row array {z2.shape} disagree"))
            break
        if lossless:
            try:
                xb = np.asarray(t.inverse_transform(z.copy()), dtype=float)
                count("inverse-checked")
                # power transforms are inverted numerically by scikit-learn (extreme exponents on tiny samples)
                bound = L.TWO30 if not L.spec_has(spec, ("BoxCox", "YeoJohnson", "KLSVD", "PLS")) else POWER_BOUND
                if not L.within(xb, x, bound):
                    bad.append((f"inverse:{tag}", f"inverse_transform(transform(x)) = {xb.tolist()} differs from x = {x.tolist()}"))
                    break
            except Exception as e:  # noqa: BLE001
                bad.append((f"crash-transformer:{tag}:{type(e).__name__}", f"inverse_transform raised {type(e).__name__}: {str(e)[:200]}"))
                break
        if has_jac:
            try:
                J = np.asarray(t.compute_jacobian(x.copy()), dtype=float)
                ref, dis = L.fd_reference(t.transform, x)
                count("transformer-jacobian-vs-fd")
                if J.shape != (dz, d):
                    bad.append((f"transformer-jacobian-shape:{tag}", f"compute_jacobian returned shape {J.shape}, expected ({dz},{d})"))
                    break
                if not L.within(J, ref, L.TWO20):
                    bad.append((f"transformer-jacobian:{tag}", f"compute_jacobian {J.tolist()} is not the derivative of transform {ref.tolist()} at {x.tolist()}"))
                    break
                Ji = np.asarray(t.compute_jacobian_inverse(z.copy()), dtype=float)
                refi, disi = L.fd_reference(t.inverse_transform, z)
                if Ji.shape != (d, dz):
                    bad.append((f"transformer-jacobian-shape:{tag}", f"compute_jacobian_inverse returned shape {Ji.shape}, expected ({d},{dz})"))
                    break
                if not L.within(Ji, refi, L.TWO20):
                    bad.append((f"transformer-jacobian-inverse:{tag}", f"compute_jacobian_inverse {Ji.tolist()} is not the derivative of inverse_transform {refi.tolist()} at {z.tolist()}"))
                    break
            except Exception as e:  # noqa: BLE001
                bad.append((f"crash-transformer:{tag}:{type(e).__name__}", f"compute_jacobian(_inverse) raised {type(e).__name__}: {str(e)[:200]}"))
                break
    if corr is not None and not bad and "Y2" not in case:
        try:
            pipe = C.unfitted_pipe(spec, t)
            if pipe is not None:
                for x in pts[1:4]:
                    z = t.transform(x.copy())
                    xb = t.inverse_transform(np.asarray(z).copy()) if lossless else None
                    J = t.compute_jacobian(x.copy()) if has_jac else None
                    Ji = t.compute_jacobian_inverse(np.asarray(z).copy()) if has_jac else None
                    bound = C.TWO30 if "PCA" in spec_names(spec) else C.TWO40
                    line = f"tr pipe={pipe} D={';'.join(','.join(r) for r in case['X'])} x={C.rvec(x)}"
                    corr.add(
                        line,
                        ("tr", np.asarray(z), None if xb is None else np.asarray(xb), None if J is None else np.asarray(J), None if Ji is None else np.asarray(Ji), bound),
                        {"stream": "transformer", "case": case, "what": tr_tag_of(spec)},
                    )
        except Exception as e:  # noqa: BLE001
            if res is not None:
                res.notes.append(f"could not build the protocol line of a transformer case: {e!r}")
    if has_jac and not bad:
        try:
            P = np.stack(pts[:3])
            JB = np.asarray(t.compute_jacobian(P.copy()), dtype=float)
            ZB = np.asarray(t.transform(P.copy()), dtype=float)
            JiB = np.asarray(t.compute_jacobian_inverse(ZB.copy()), dtype=float)
            # an empty pipeline returns the identity matrix for any number of points (it broadcasts)
            try:
                JB = np.broadcast_to(JB, (len(P), dz, d))
                JiB = np.broadcast_to(JiB, (len(P), d, dz))
            except ValueError:
                pass
            if JB.shape != (len(P), dz, d) or JiB.shape != (len(P), d, dz):
                bad.append((f"transformer-jacobian-batch:{tag}", f"compute_jacobian(_inverse) of {len(P)} points returned shapes {JB.shape}, {JiB.shape}; expected ({len(P)},{dz},{d}) and ({len(P)},{d},{dz})"))
            else:
                for k in range(len(P)):
                    if not L.within(JB[k], np.asarray(t.compute_jacobian(P[k].copy()), dtype=float), L.TWO40):
                        bad.append((f"transformer-jacobian-batch:{tag}", "batch Jacobian row differs from the single-point Jacobian"))
                        break
        except Exception as e:  # noqa: BLE001
            bad.append((f"crash-transformer:{tag}:{type(e).__name__}", f"batch compute_jacobian raised {type(e).__name__}: {str(e)[:200]}"))
    return bad


def shrink_tr(case, key: str, budget: int = 40):
    cur = case
    calls = 0
    progress = True
    while progress and calls < budget:
        progress = False
        cands = []
        n = len(cur["X"])
        if n > (6 if L.spec_has(cur["spec"], ("BoxCox", "YeoJohnson")) else 3):
            for j in range(n):
                c = copy.deepcopy(cur)
                c["X"] = cur["X"][:j] + cur["X"][j + 1 :]
                if "Y2" in c:
                    c["Y2"] = cur["Y2"][:j] + cur["Y2"][j + 1 :]
                cands.append(c)
        if cur["spec"][0] == "Pipeline":
            steps = cur["spec"][1]
            for j in range(len(steps)):
                c = copy.deepcopy(cur)
                c["spec"] = ["Pipeline", steps[:j] + steps[j + 1 :]]
                cands.append(c)
        if len(cur["q"]) > 1:
            c = copy.deepcopy(cur)
            c["q"] = cur["q"][:1]
            cands.append(c)
        for c in cands:
            calls += 1
            if calls > budget:
                break
            try:
                if any(k == key for k, _ in check_tr(c)):
                    cur = c
                    progress = True
                    break
            except Exception:  # noqa: BLE001
                continue
    return cur


# --------------------------------------------------------------------------- run


def load_corpus() -> list[dict[str, Any]]:
    d = common.CORPUS_DIR / PID
    out = []
    if d.is_dir():
        for p in sorted(d.glob("*.json")):
            out.append(json.loads(p.read_text()))
    return out


_POOL: Any = None
_USE_DRIVER = True


def n_workers(thorough: bool) -> int:
    import os

    try:
        return max(1, int(os.environ.get("C18_WORKERS", "") or (12 if thorough else 4)))
    except ValueError:
        return 4


def get_pool(thorough: bool):
    """Worker processes for the implementation side (the cases are generated by the main process from ctx.rng and the
    results are merged in generation order: nothing depends on the scheduling)."""
    global _POOL
    if _POOL is None and n_workers(thorough) > 1:
        import multiprocessing as mp

        _POOL = mp.get_context("fork").Pool(processes=n_workers(thorough), maxtasksperchild=40)
    return _POOL


def close_pool() -> None:
    global _POOL
    if _POOL is not None:
        _POOL.terminate()
        _POOL = None


def _reg_worker(case):
    rec = Rec()
    corr = C.Corr()
    try:
        bad = check_reg(case, rec, corr=corr if _USE_DRIVER else None)
    except Exception as e:  # noqa: BLE001
        if is_fit_failure(e):
            rec.count(f"fit-failed-skipped:{case.get('algo')}")
            return [], rec.histogram, rec.notes, []
        import traceback

        return None, repr(e), traceback.format_exc(), []
    return bad, rec.histogram, rec.notes, corr.items


def _tr_worker(case):
    rec = Rec()
    corr = C.Corr()
    try:
        bad = check_tr(case, rec, corr=corr if _USE_DRIVER else None)
    except Exception as e:  # noqa: BLE001
        if is_fit_failure(e):
            rec.count("fit-failed-skipped:" + tr_tag_of(case["spec"]))
            return [], rec.histogram, rec.notes, []
        import traceback

        return None, repr(e), traceback.format_exc(), []
    return bad, rec.histogram, rec.notes, corr.items


def _evaluate(worker, cases, pool):
    if pool is None or len(cases) < 4:
        return [worker(c) for c in cases]
    return pool.map(worker, cases, chunksize=1)


def _merge(res: Result, out, corr: C.Corr | None):
    bad, hist, notes, items = out
    if bad is None:
        raise RuntimeError(f"internal error of the C18 harness in a case: {hist}\n{notes}")
    for k, n in hist.items():
        res.count(k, n)
    for t in notes[:3]:
        if len(res.notes) < 40:
            res.notes.append(t)
    if corr is not None:
        corr.extend(items)
    return bad


def run_reg_cases(res: Result, cases, in_scope: bool = True, corr: C.Corr | None = None, pool=None) -> None:
    for case, out in zip(cases, _evaluate(_reg_worker, cases, pool)):
        res.evaluations += 1
        tag = reg_tag(case)
        res.count("reg:" + tag)
        res.count("reg-tr:" + tr_tag(case))
        res.count(f"reg-dims:{sum(s for _, s in case['in'])}x{sum(s for _, s in case['out'])}")
        res.count(f"reg-variables:{len(case['in'])}in-{len(case['out'])}out")
        res.count(f"reg-trainings:{1 + len(case.get('history') or [])}")
        for v in case.get("sur") or []:
            res.count("reg-surrogate-names:" + sur_label(v))
        bad = _merge(res, out, corr)
        res.nontrivial(json.dumps({k: case.get(k) for k in ("algo", "opts", "in", "out", "tr", "X", "history", "sur")}, sort_keys=True, default=str))
        res.sample({"stream": "regressor", "algo": tag, "transformers": tr_tag(case), "n_learn": len(case["X"]), "trainings": 1 + len(case.get("history") or []), "violations": [k for k, _ in bad]})
        for key, msg in bad:
            if not in_scope:
                res.count("probe-disagreement")
                res.notes.append(f"out-of-scope probe: {key}: {msg[:200]}")
                continue
            if any(v.key == key for v in res.violations):
                continue
            small = shrink_reg(case, key)
            msgs = [m for k, m in check_reg(small, None) if k == key]
            res.violate("oracle", key, (msgs or [msg])[0], {"stream": "regressor", "case": small})
        if not bad:
            res.traces_validated += 1


def run_tr_cases(res: Result, cases, corr: C.Corr | None = None, pool=None) -> None:
    for case, out in zip(cases, _evaluate(_tr_worker, cases, pool)):
        res.evaluations += 1
        tag = tr_tag_of(case["spec"])
        res.count("tr:" + tag)
        bad = _merge(res, out, corr)
        res.nontrivial(json.dumps(case, sort_keys=True))
        res.sample({"stream": "transformer", "spec": case["spec"], "n_fit": len(case["X"]), "violations": [k for k, _ in bad]})
        for key, msg in bad:
            if any(v.key == key for v in res.violations):
                continue
            small = shrink_tr(case, key)
            msgs = [m for k, m in check_tr(small) if k == key]
            res.violate("oracle", key, (msgs or [msg])[0], {"stream": "transformer", "case": small})
        if not bad:
            res.traces_validated += 1


# --------------------------------------------------------------------------- kernel stream

PYTH = [Fraction(3, 4), Fraction(4, 3), Fraction(5, 12), Fraction(8, 15), Fraction(12, 5), Fraction(15, 8), Fraction(7, 24), Fraction(0)]


def mp_kernel(kernel: str):
    """SciPy's kernel definitions (documentation of scipy.interpolate.Rbf), in mpmath."""
    import mpmath as mp

    return {
        "multiquadric": lambda r, e: mp.sqrt((r / e) ** 2 + 1),
        "inverse_multiquadric": lambda r, e: 1 / mp.sqrt((r / e) ** 2 + 1),
        "gaussian": lambda r, e: mp.exp(-((r / e) ** 2)),
        "linear": lambda r, e: r,
        "cubic": lambda r, e: r**3,
        "quintic": lambda r, e: r**5,
        "thin_plate": lambda r, e: r**2 * mp.log(r),
    }[kernel]


def run_kernel_stream(res: Result, rng: common.Rng, corr: C.Corr, n_per_kernel: int, suspects: set[str]) -> None:
    import mpmath as mp
    from gemseo.mlearning.regression.algos.rbf import RBFRegressor
    from scipy.interpolate import Rbf

    mp.mp.dps = 60
    D = RBFRegressor.RBFDerivatives
    tol = float(D.TOL)
    for kernel in L.KERNELS:
        der = getattr(D, f"der_{kernel}")
        phi = mp_kernel(kernel)
        for it in range(n_per_kernel):
            d = rng.pick([1, 2, 3])
            eps = rng.pick([Fraction(1, 2), Fraction(3, 4), Fraction(1), Fraction(5, 4), Fraction(3, 2), Fraction(2)])
            while True:
                x = [dy(rng, -2, 2, 16) for _ in range(d)]
                c = [dy(rng, -2, 2, 4) for _ in range(d)]
                q2 = sum((a - b) ** 2 for a, b in zip(x, c))
                if q2 >= Fraction(1, 64):
                    break
            diffs = np.array([float(a - b) for a, b in zip(x, c)])
            dist = float(np.linalg.norm(diffs))
            real = np.asarray(der(diffs, dist, float(eps)), dtype=float)
            res.count(f"kernel:{kernel}")
            ctx = {"stream": "kernel", "kernel": kernel, "what": f"der_{kernel}", "x": [rr(v) for v in x], "c": [rr(v) for v in c], "eps": rr(eps)}
            for j in range(d):
                val = float(real[j])
                # (a) the translated formula, evaluated by the Lean driver in Float
                corr.add(
                    f"der k={kernel} v={C.bits(diffs[j])},{C.bits(dist)},{C.bits(float(eps))},{C.bits(tol)}",
                    (lambda v: lambda ans: None if (ans.isdigit() and C.frac_close([C.unbits(ans)], [v], C.TWO40)) else f"translated formula gives {C.unbits(ans) if ans.isdigit() else ans}, der_{kernel} returned {v}")(val),
                    {**ctx, "what": f"translation-of-der_{kernel}", "component": j},
                )
                # (b) the verified symbolic derivative of SciPy's kernel along coordinate j
                s_other = q2 - (x[j] - c[j]) ** 2
                corr.add(
                    f"dphi k={kernel} v={C.bits(float(x[j]))},{C.bits(float(c[j]))},{C.bits(float(s_other))},{C.bits(float(eps))}",
                    (lambda v: lambda ans: None if (ans.isdigit() and C.frac_close([C.unbits(ans)], [v], C.TWO30)) else f"verified derivative of the SciPy kernel is {C.unbits(ans) if ans.isdigit() else ans}, der_{kernel} returned {v}")(val),
                    {**ctx, "component": j},
                )
                # (c) independent reference: mpmath derivative of t -> phi(sqrt((t-c_j)^2+s))
                ref = mp.diff(lambda t: phi(mp.sqrt((t - mp.mpf(c[j].numerator) / c[j].denominator) ** 2 + mp.mpf(s_other.numerator) / s_other.denominator), mp.mpf(eps.numerator) / eps.denominator), mp.mpf(x[j].numerator) / x[j].denominator)
                res.evaluations += 1
                if not C.frac_close([float(ref)], [val], C.TWO30):
                    suspects.add(kernel)
                    res.notes.append(f"der_{kernel}({diffs.tolist()}, {dist}, eps={float(eps)})[{j}] = {val} but the derivative of the SciPy kernel is {float(ref)}")
            # SciPy's kernel itself (trusted definition, sampled): phi(r) of the real Rbf object vs model and mpmath
            # (the constructor of Rbf solves A w = d: with the kernel value alone on the off-diagonal the 2x2 system is
            # singular e.g. for thin_plate at r = 1 where phi = 0; a large negative `smooth` only changes the DIAGONAL of
            # A (A = phi(r) - smooth*I), keeps the reference solve regular and leaves A[0,1] = phi(r) bit for bit)
            try:
                rbf = Rbf(np.array([0.0, dist]), np.array([0.0, 1.0]), function=kernel, epsilon=float(eps), smooth=-(2.0**20))
                phi_scipy = float(rbf.A[0, 1])
            except Exception as e:  # noqa: BLE001  (reference object of the harness, never a verdict)
                res.count(f"kernel-reference-skipped:{kernel}:{type(e).__name__}")
                continue
            res.evaluations += 1
            if not C.frac_close([float(phi(mp.mpf(dist), mp.mpf(float(eps))))], [phi_scipy], C.TWO30):
                res.violate("correspondence", f"scipy-kernel:{kernel}", f"scipy.interpolate.Rbf kernel {kernel} is not the documented function at r={dist}, eps={float(eps)}", {"kernel": kernel, "r": dist, "eps": float(eps), "scipy": phi_scipy})
            corr.add(
                f"phi k={kernel} v={C.bits(dist)},{C.bits(float(eps))}",
                (lambda v: lambda ans: None if (ans.isdigit() and C.frac_close([C.unbits(ans)], [v], C.TWO30)) else f"model kernel gives {ans}, SciPy {v}")(phi_scipy),
                {**ctx, "what": f"scipy-kernel-{kernel}"},
            )
        # exact stream: Pythagorean inputs, the formula evaluated in exact rational arithmetic
        for ratio in PYTH:
            e = rng.pick([Fraction(1, 2), Fraction(1), Fraction(2), Fraction(4)])
            r = ratio * e
            xx = r * rng.pick([Fraction(1), Fraction(-1, 2), Fraction(1, 4), Fraction(0)])
            try:
                val = float(np.asarray(der(np.array([float(xx)]), float(r), float(e)), dtype=float)[0])
            except Exception:  # noqa: BLE001
                continue
            if not math.isfinite(val):
                continue
            corr.add(
                f"derq k={kernel} v={rr(xx)},{rr(r)},{rr(e)},{rat(tol)}",
                (lambda v: lambda ans: "skip" if ans == "_" else (None if C.frac_close([Fraction(ans)], [v], C.TWO40) else f"exact value of the translated formula {ans}, der_{kernel} returned {v}"))(val),
                {"stream": "kernel", "kernel": kernel, "what": f"translation-of-der_{kernel}", "x": rr(xx), "r": rr(r), "eps": rr(e)},
            )


def search_reg_failure(res: Result, rng: common.Rng, algo: str, kernel: str | None, n: int, near: dict | None = None, deep: bool = False) -> bool:
    """Failing-input search: neighbours of a case, then fresh cases biased to the algorithm/kernel involved."""
    cands = []
    if near is not None:
        cands += [near, *list(reg_candidates(near))[:25]]
    for _ in range(n):
        c = gen_reg_case(rng, algo, kernel=kernel)
        if kernel:
            c["tr"] = {} if rng.chance(0.7) else c["tr"]
        cands.append(c)
    for cand in cands:
        try:
            bad = check_reg(cand, None, deep=deep)
        except Exception:  # noqa: BLE001
            continue
        res.evaluations += 1
        res.count("failing-input-search")
        for key, msg in bad:
            small = shrink_reg(cand, key)
            msgs = [m for k, m in check_reg(small, None) if k == key]
            res.violate("oracle", key, (msgs or [msg])[0], {"stream": "regressor", "case": small})
            return True
    return False


def search_tr_failure(res: Result, rng: common.Rng, near: dict) -> bool:
    cands = [near]
    for _ in range(40):
        c = gen_tr_case(rng)
        if set(spec_names(c["spec"])) & set(spec_names(near["spec"])):
            cands.append(c)
    for cand in cands:
        try:
            bad = check_tr(cand, None)
        except Exception:  # noqa: BLE001
            continue
        res.evaluations += 1
        res.count("failing-input-search")
        for key, msg in bad:
            small = shrink_tr(cand, key)
            res.violate("oracle", key, msg, {"stream": "transformer", "case": small})
            return True
    return False


_TRANSLATION: dict[str, Any] = {}


def pre_lean(ctx) -> None:
    """Translator: regenerate lean/GemseoVerif/Gen/C18Kernels.lean from the der_* formulas of the imported gemseo."""
    from harness import translate_c18

    src = translate_c18.rbf_source_file()
    table = translate_c18.regenerate(src, common.LEAN_DIR)
    _TRANSLATION.clear()
    _TRANSLATION.update(table)
    _TRANSLATION["_source"] = {"value": str(src)}


def run(ctx) -> Result:
    res = Result(PID)
    res.rule = (
        "regressor cases: algorithm x settings x variable layout x transformers (group/variable/default/none, scalers, PCA, "
        "pipelines) x dyadic learning sets (4-16 points, 1-3 inputs, 1-3 outputs, whole dataset or a subset of samples) x 2-3 "
        "query points away from the learning points; transformer cases: spec x fitting data (incl. constant features) x points; "
        "kernel cases: kernel x point x centre x epsilon; a case is non-trivial when it trains a model / fits a transformer / "
        "evaluates a kernel derivative off the centre; distinct by (algorithm, settings, layout, transformers, learning inputs)"
    )
    res.assumptions = [
        "rounded stream: Jacobians are compared with Richardson-extrapolated centred differences of predict (steps 2^-7..2^-9) within 2^-20*max(1,|D|) (2^-16 for the OpenTURNS-based PCE and GP regressors); a point is skipped (counted as fd-unreliable-skipped) when two extrapolations disagree by more than 2^-24*max(1,|D|)",
        "ill-conditioned fits are skipped (counted): the prediction must be stable to 2^-34 under a 2^-46 relative perturbation of the query point; the fits themselves are not modelled",
        "query points keep a distance >= 1/8 from the learning points (kernels r, r^3 are not smooth at their centre); for hard mixtures of experts the difference stencil must stay inside one cluster",
        "interpolation residual bound 2^-20*max(1,|y|) on well separated dyadic learning points",
        "power transforms (scikit-learn, numerical inversion): inverse_transform(transform(x)) within 2^-12; no Jacobian is offered by them",
        "Lean model vs code: exact rational arithmetic of the model vs floats of the code within 2^-40 (affine paths) / 2^-30 (PCA parameters, kernels, RBF networks)",
    ]
    if not _TRANSLATION:
        pre_lean(ctx)  # --no-lean runs: the driver still needs the generated kernels
    refused = {k: v["refused"] for k, v in _TRANSLATION.items() if isinstance(v, dict) and "refused" in v}
    res.extra["translator"] = {
        "source": _TRANSLATION.get("_source", {}).get("value"),
        "generated_sha256": _TRANSLATION.get("_sha256", {}).get("value"),
        "formulas": {k: v.get("source") for k, v in _TRANSLATION.items() if isinstance(v, dict) and "source" in v},
        "refused": refused,
    }
    for k, why in refused.items():
        res.notes.append(f"translator refused der_{k} ({why}): no theorem for this kernel, correspondence and oracle only")
    rng = ctx.rng
    corr = C.Corr()
    build_err = C.ensure_gen_built()
    use_driver = build_err is None
    global _USE_DRIVER
    _USE_DRIVER = use_driver
    try:
        return _run_streams(ctx, res, rng, corr, use_driver, build_err)
    finally:
        close_pool()


def _run_streams(ctx, res: Result, rng: common.Rng, corr: C.Corr, use_driver: bool, build_err) -> Result:
    if not use_driver:
        res.notes.append("the generated kernel module does not build; driver-based correspondence skipped: " + build_err[-400:])
    audit_failed = ctx.audit is not None and not ctx.audit.ok
    suspects: set[str] = set()
    timing: dict[str, float] = {}
    res.extra["stage_wall_s"] = timing  # information only (the verdict never depends on it)
    t_last = [time.time()]

    def lap(name: str) -> None:
        now = time.time()
        timing[name] = round(timing.get(name, 0.0) + now - t_last[0], 1)
        t_last[0] = now

    def on_mismatch(c: dict[str, Any], line: str, ans: str, why: str) -> bool:
        if c.get("stream") == "kernel":
            if c["what"].startswith(("translation-of", "scipy-kernel")):
                return False  # translator / trusted kernel definition: not a defect of the code
            suspects.add(c["kernel"])
            return search_reg_failure(res, rng, "RBFRegressor", c["kernel"], 40)
        if c.get("stream") == "regressor":
            return search_reg_failure(res, rng, c["case"]["algo"], c["case"].get("opts", {}).get("function"), 30, near=c["case"], deep=bool(c.get("deep")))
        if c.get("stream") == "transformer":
            return search_tr_failure(res, rng, c["case"])
        return False

    # ---- corpus first
    for entry in load_corpus():
        res.count("corpus")
        if entry.get("stream") == "regressor":
            run_reg_cases(res, [entry["case"]], corr=corr if use_driver else None)
        elif entry.get("stream") == "transformer":
            run_tr_cases(res, [entry["case"]], corr=corr if use_driver else None)
    lap("corpus")
    # ---- kernels
    if use_driver:
        run_kernel_stream(res, rng, corr, 40 if ctx.thorough else 6, suspects)
        lap("kernels")
        corr.flush(res, on_mismatch)
        lap("driver")
    n_reg = 6000 if ctx.thorough else 500
    n_tr = 5000 if ctx.thorough else 400
    # ---- every kernel and every algorithm at least once per run; more on suspects
    must = []
    for k in L.KERNELS:
        for _ in range(2):
            must.append(gen_reg_case(rng, "RBFRegressor", kernel=k))
    for k in L.CALLABLES:
        must.append(gen_reg_case(rng, "RBFRegressor", kernel=k))
    for a in sorted(set(REG_ALGOS)):
        must.append(gen_reg_case(rng, a))
    pool = get_pool(ctx.thorough)
    res.extra["workers"] = n_workers(ctx.thorough)
    run_reg_cases(res, must, corr=corr if use_driver else None, pool=pool)
    lap("regressors")
    if use_driver:
        corr.flush(res, on_mismatch)
        lap("driver")
    # a kernel formula that no longer matches the verified derivative / whose theorem no longer builds:
    # search for a concrete model whose Jacobian is wrong
    broken = set(suspects)
    if audit_failed:
        text = " ".join(ctx.audit.problems)
        broken |= {k for k in L.KERNELS if f"der_{k}" in text} or set(L.KERNELS)
    for k in sorted(broken):
        if not any(v.kind == "oracle" and v.key == f"jacobian:RBFRegressor[{k}]" for v in res.violations):
            found = search_reg_failure(res, rng, "RBFRegressor", k, 60)
            res.notes.append(f"failing-input search for kernel {k}: {'found' if found else 'nothing found'}")
    # ---- transformers
    tr_cases = [gen_tr_case(rng) for _ in range(n_tr)] + [gen_std_exact_case(rng) for _ in range(n_tr // 8)]
    for k in range(0, len(tr_cases), 400):
        if time.time() > ctx.deadline:
            res.count("deadline-reached:transformers")
            break
        run_tr_cases(res, tr_cases[k : k + 400], corr=corr if use_driver else None, pool=pool)
        lap("transformers")
        if use_driver:
            corr.flush(res, on_mismatch)
            lap("driver")
    # ---- regressors
    k = 0
    batch = 25 * max(1, n_workers(ctx.thorough))
    while k < n_reg and time.time() < ctx.deadline:
        m = min(batch, n_reg - k)
        run_reg_cases(res, [gen_reg_case(rng) for _ in range(m)], corr=corr if use_driver else None, pool=pool)
        lap("regressors")
        k += m
        # (one start of the Lean driver costs seconds: the protocol lines of several batches go together)
        if use_driver and (len(corr.items) >= 1500 or k >= n_reg or time.time() >= ctx.deadline):
            corr.flush(res, on_mismatch)
            lap("driver")
    if use_driver:
        corr.flush(res, on_mismatch)
        lap("driver")
    if k < n_reg:
        res.count("deadline-reached:regressors")
    return res


def gen_std_exact_case(rng: common.Rng) -> dict[str, Any]:
    """Fitting data whose columns have a rational standard deviation (values a-d / a+d in equal numbers)."""
    d = rng.pick([1, 2, 3])
    n = rng.pick([4, 6, 8])
    cols = []
    for _ in range(d):
        a = dy(rng, -2, 2, 4)
        dd = rng.pick([Fraction(0), Fraction(1, 2), Fraction(1), Fraction(3, 4), Fraction(2)])
        col = [a - dd] * (n // 2) + [a + dd] * (n // 2)
        rng.shuffle(col)
        cols.append(col)
    X = [[cols[j][i] for j in range(d)] for i in range(n)]
    spec = rng.pick(
        [
            ["StandardScaler", {}],
            ["Pipeline", [["StandardScaler", {}], ["Scaler", {"offset": "1/2", "coefficient": "2"}]]],
            ["Pipeline", [["MinMaxScaler", {}], ["StandardScaler", {}]]],
            ["Pipeline", [["Scaler", {"offset": "-1", "coefficient": "1/2"}], ["StandardScaler", {}], ["MinMaxScaler", {}]]],
        ]
    )
    return {
        "kind": "std-exact",
        "spec": spec,
        "X": [[rr(v) for v in row] for row in X],
        "q": [[rr(dy(rng, -2, 2, 16)) for _ in range(d)] for _ in range(2)],
    }


def replay(path: str) -> int:
    data = json.loads(open(path).read())
    rp = data.get("replay", data)
    key = data.get("key")
    if rp.get("stream") == "regressor":
        bad = check_reg(rp["case"], None)
    elif rp.get("stream") == "transformer":
        bad = check_tr(rp["case"], None)
    else:
        print(json.dumps(rp, indent=1)[:3000])
        return 1
    for k, m in bad:
        print("ORACLE FAILS:", k, "--", m[:500])
    if not bad:
        print("oracle holds on this input")
    return 1 if (any(k == key for k, _ in bad) if key else bad) else 0
