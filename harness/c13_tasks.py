"""Harness-side task callables for C13 (must live in a real module: the process back-end forks
workers that look these objects up, and results/exceptions are pickled through manager queues).

A `Gate` lets the harness decide *when* each task finishes: every task reports that it started
(with the identity of the worker that runs it) and then blocks until the harness releases it.
With the process back-end the synchronisation objects are `multiprocessing` primitives created
before the fork, hence shared with the worker processes.
"""

from __future__ import annotations

import multiprocessing
import os
import queue
import threading
import time
from typing import Any

WAIT_S = 150.0  # a task that is not released within this time aborts; the abort is recorded and the run discarded


class TaskError(ValueError):
    """Raised by a failing task (swallowed by the executor)."""


class StopError(RuntimeError):
    """Raised by a failing task whose class is passed as `exceptions_to_re_raise`."""


class GateTimeout(BaseException):
    """The harness did not release the task in time (machinery problem, or a hang upstream)."""


class Gate:
    """Start notifications + one release event per task."""

    def __init__(self, n: int, use_processes: bool, with_done: bool = False) -> None:
        if use_processes:
            ctx = multiprocessing.get_context("fork")
            self.release = [ctx.Event() for _ in range(n)]
            self.started = ctx.Queue()
            self.done = ctx.Queue() if with_done else None
            self._timeouts = ctx.Value("i", 0)
        else:
            self.release = [threading.Event() for _ in range(n)]
            self.started = queue.Queue()
            self.done = queue.Queue() if with_done else None
            self._timeouts = None
            self._n_timeouts = 0
            self._lock = threading.Lock()

    def body_done(self, k: int) -> None:
        """Report (without blocking) that the body of task `k` is over: it will not touch its input any more.
        Lets the harness serialise the bodies of tasks that write into their inputs."""
        if self.done is not None:
            self.done.put(k)

    def pass_through(self, k: int) -> None:
        """Report that gate `k` is reached (with the identity of the worker) and block until the
        harness opens it.  A gate that is not opened in time aborts the task **and is recorded**: the
        harness then discards the run (a time-out of the machinery is never a verdict)."""
        self.started.put((k, os.getpid(), threading.get_ident()))
        if not self.release[k].wait(WAIT_S):
            if self._timeouts is not None:
                with self._timeouts.get_lock():
                    self._timeouts.value += 1
            else:
                with self._lock:
                    self._n_timeouts += 1
            raise GateTimeout(k)

    @property
    def timeouts(self) -> int:
        return self._timeouts.value if self._timeouts is not None else self._n_timeouts

    def open_all(self) -> None:
        for e in self.release:
            e.set()


class GatedCallable:
    """x -> a*x+b after the gate of the task holding input `x` is released.

    `key_of` maps an input value to the position of that input in the submitted list (inputs are
    distinct), `outcomes[k]` is 'ok' | 'F' (raise TaskError) | 'S' (raise StopError).
    `sleep[k]` (optional) replaces the gate by a plain sleep (duration ladders).
    """

    def __init__(self, gate: Gate | None, a: int, b: int, key_of: dict[Any, int], outcomes: list[str],
                 sleep: list[float] | None = None) -> None:
        self.gate = gate
        self.a = a
        self.b = b
        self.key_of = key_of
        self.outcomes = outcomes
        self.sleep = sleep

    def __call__(self, x: Any) -> Any:
        k = self.key_of[x]
        if self.gate is not None:
            if self.sleep is None:
                self.gate.pass_through(k)
            else:
                self.gate.started.put((k, os.getpid(), threading.get_ident()))
        if self.sleep is not None:
            time.sleep(self.sleep[k])
        out = self.outcomes[k]
        if out == "S":
            raise StopError(k)
        if out == "F":
            raise TaskError(k)
        return self.a * x + self.b


def affine(x):
    """Ungated picklable task."""
    return 3 * x + 1
