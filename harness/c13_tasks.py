"""Harness-side task callables for C13 (must live in a real module: the process back-end forks
workers that look these objects up, and results/exceptions are pickled through manager queues).

A `Gate` lets the harness decide *when* each task finishes: every task reports that it started
(with the identity of the worker that runs it) and then blocks until the harness releases it.
With the process back-end the synchronisation objects are `multiprocessing` primitives created
before the fork, hence shared with the worker processes.
"""

from __future__ import annotations

import multiprocessing
import os
import queue
import threading
import time
from typing import Any

WAIT_S = 30.0  # a task that is not released within this time aborts (reported as a hang)


class TaskError(ValueError):
    """Raised by a failing task (swallowed by the executor)."""


class StopError(RuntimeError):
    """Raised by a failing task whose class is passed as `exceptions_to_re_raise`."""


class GateTimeout(BaseException):
    """The harness did not release the task in time (machinery problem, or a hang upstream)."""


class Gate:
    """Start notifications + one release event per task."""

    def __init__(self, n: int, use_processes: bool) -> None:
        if use_processes:
            ctx = multiprocessing.get_context("fork")
            self.release = [ctx.Event() for _ in range(n)]
            self.started = ctx.Queue()
        else:
            self.release = [threading.Event() for _ in range(n)]
            self.started = queue.Queue()

    def open_all(self) -> None:
        for e in self.release:
            e.set()


class GatedCallable:
    """x -> a*x+b after the gate of the task holding input `x` is released.

    `key_of` maps an input value to the position of that input in the submitted list (inputs are
    distinct), `outcomes[k]` is 'ok' | 'F' (raise TaskError) | 'S' (raise StopError).
    `sleep[k]` (optional) replaces the gate by a plain sleep (duration ladders).
    """

    def __init__(self, gate: Gate | None, a: int, b: int, key_of: dict[Any, int], outcomes: list[str],
                 sleep: list[float] | None = None) -> None:
        self.gate = gate
        self.a = a
        self.b = b
        self.key_of = key_of
        self.outcomes = outcomes
        self.sleep = sleep

    def __call__(self, x: Any) -> Any:
        k = self.key_of[x]
        if self.gate is not None:
            self.gate.started.put((k, os.getpid(), threading.get_ident()))
            if self.sleep is None and not self.gate.release[k].wait(WAIT_S):
                raise GateTimeout(k)
        if self.sleep is not None:
            time.sleep(self.sleep[k])
        out = self.outcomes[k]
        if out == "S":
            raise StopError(k)
        if out == "F":
            raise TaskError(k)
        return self.a * x + self.b


def affine(x):
    """Ungated picklable task."""
    return 3 * x + 1
