"""Deterministic work limit for the C07 harness.

A linearization of a harness system solves linear systems with at most a few dozen unknowns: a
Krylov solver needs a few dozen operator applications per right-hand side.  A defect that corrupts
the operator (e.g. an operand shifted in place at every product) makes the iterative solvers run to
their iteration caps (1000 outer iterations x restarts x right-hand sides x fall-back solvers x MDA
iterations): minutes per case, hours per run.

`work_limit(n)` counts the applications of SciPy linear operators (`LinearOperator.matvec`,
`rmatvec`, `matmat`, `rmatmat`: every product an iterative solver performs, whether the left-hand
side is a sparse matrix or a matrix-free operator) and raises `WorkLimit` at the n-th one.  The
count is a function of the input only (never of the wall clock), so that the verdict "the
linearization did not return within the limit" is reproducible; the limit is a large multiple of
what the unchanged code needs (see notes/C07.md).

A second, wall-clock guard (`wall_s`) raises `WallClockSkip`: the case is then *skipped* (counted,
never judged).
"""

from __future__ import annotations

import contextlib
import time

import scipy.sparse.linalg as _spla


class WorkLimit(BaseException):
    """Raised at the n-th operator application (BaseException: no library code swallows it)."""


class WallClockSkip(BaseException):
    """Raised when a case runs longer than the wall-clock guard (skip, never a verdict)."""


class _State:
    limit: int | None = None
    n: int = 0
    t_end: float | None = None
    max_seen: int = 0
    tag: str = ""
    max_by_tag: dict = {}


STATE = _State()


def _counted(orig):
    def wrapper(self, x, *a, **k):
        st = STATE
        if st.limit is not None:
            st.n += 1
            if st.n > st.limit:
                raise WorkLimit(f"more than {st.limit} operator applications")
            if st.t_end is not None and (st.n & 255) == 0 and time.time() > st.t_end:
                raise WallClockSkip
        return orig(self, x, *a, **k)

    wrapper.__name__ = orig.__name__
    wrapper.__doc__ = orig.__doc__
    wrapper._c07_counted = True
    return wrapper


def install() -> None:
    cls = _spla.LinearOperator
    for name in ("matvec", "rmatvec", "matmat", "rmatmat"):
        f = cls.__dict__.get(name)
        if f is not None and not getattr(f, "_c07_counted", False):
            setattr(cls, name, _counted(f))


@contextlib.contextmanager
def work_limit(n: int, wall_s: float | None = None, tag: str = ""):
    """Count operator applications inside the block; at most `n` are allowed."""
    install()
    st = STATE
    old = (st.limit, st.n, st.t_end)
    st.limit, st.n, st.tag = n, 0, tag
    st.t_end = time.time() + wall_s if wall_s else None
    try:
        yield st
    finally:
        st.max_seen = max(st.max_seen, min(st.n, n))
        st.max_by_tag[tag] = max(st.max_by_tag.get(tag, 0), min(st.n, n))
        st.limit, st.n, st.t_end = old
